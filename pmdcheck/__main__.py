# -*- coding: utf-8 -*-
"""
pmdcheck -- static checks of productmd properties C01..C20.

  python -m pmdcheck C07 [--tier quick|thorough] [--repo /repo]
  python -m pmdcheck --replay /verif/evidence/C07.violation.json
  python -m pmdcheck --all [--tier quick]
  python -m pmdcheck --selfcheck

exit 0  every obligation discharged (known findings are printed as KNOWN-FINDING lines)
exit 1  VIOLATION property=<id> replay=<path>
exit 2  ANALYSIS-ERROR (anchor vanished / idiom not understood / vacuity floor not met / internal error)
"""
from __future__ import annotations

import argparse
import json
import os
import sys
import traceback

from .core import AnalysisError, KnownFindings, Report, write_evidence

HERE = os.path.dirname(os.path.dirname(os.path.abspath(__file__)))


def run_property(pid, tier, repo, evidence_dir, replay_keys=None, quiet=False):
    from .model import Model
    from .rules import REGISTRY
    if pid not in REGISTRY:
        print("ANALYSIS-ERROR property=%s no check registered" % pid)
        return 2
    seed = int(os.environ.get("VERIF_SEED", "0") or 0)
    report = Report(pid, tier)
    evidence_path = os.path.join(evidence_dir, "%s.json" % pid)
    violation_path = os.path.join(evidence_dir, "%s.violation.json" % pid)
    try:
        model = Model(repo)
        # the generic rules first: they need none of the per-property extraction, so what they establish stands even when a
        # later rule cannot decide (see below)
        from .rules.sharing import apply_sharing
        apply_sharing(model, report, pid)
        from .rules.readers import apply_readers
        apply_readers(model, report, pid)
        from .rules.sections import apply_sections
        apply_sections(model, report, pid)
        try:
            REGISTRY[pid](model, report, tier)
        except AnalysisError as e:
            kf0 = KnownFindings(os.path.join(HERE, "known_findings.json"))
            if not [o for o in report.failed() if kf0.match(pid, o) is None]:
                raise
            # a violation was already established; that a later rule could not decide does not take it back
            report.note("ANALYSIS-ERROR in a later rule (%s); the violations established before it are reported" % e)
            report.extra["analysis_error_after_violation"] = str(e)
        if not report.obligations:
            raise AnalysisError("no obligation was evaluated")
    except AnalysisError as e:
        print("ANALYSIS-ERROR property=%s %s" % (pid, e))
        report.note("ANALYSIS-ERROR: %s" % e)
        report.extra["analysis_error"] = str(e)
        if not report.explanation:
            report.explanation = "analysis aborted"
        write_evidence(report, evidence_path, [], [], seed)
        return 2
    except Exception as e:       # internal error of the checker: never a verdict about the repo
        traceback.print_exc()
        print("ANALYSIS-ERROR property=%s internal error: %s: %s" % (pid, type(e).__name__, e))
        report.extra["analysis_error"] = "internal error: %s: %s" % (type(e).__name__, e)
        if not report.explanation:
            report.explanation = "analysis aborted"
        try:
            write_evidence(report, evidence_path, [], [], seed)
        except Exception:
            pass
        return 2

    kf = KnownFindings(os.path.join(HERE, "known_findings.json"))
    failed = report.failed()
    selftest_error = None
    if tier == "thorough" and replay_keys is None and not [o for o in failed if kf.match(pid, o) is None] \
            and os.environ.get("PMDCHECK_NO_SELFTEST") != "1":
        # armedness self-test restricted to this property: evidence about the checker, never a repo verdict
        from .selftest import selftest
        os.environ["PMDCHECK_NO_SELFTEST"] = "1"
        try:
            st = selftest(repo, props=[pid], verbose=False)
        finally:
            os.environ.pop("PMDCHECK_NO_SELFTEST", None)
        report.extra["armedness_selftest"] = {
            "mutants_applied": st["mutants"] - len(st["skipped"]), "expectations_met": st["checks_ok"],
            "missed": [m[0] for m in st["missed"]], "false_alarms": [m[0] for m in st["false_alarms"]],
            "analysis_errors": [m[0] for m in st["analysis_errors"]], "skipped": [m[0] for m in st["skipped"]],
            "wall_s": st["wall_s"],
            "note": "fire mutants listing this property must make the check exit 1; neutral mutants must leave it at exit 0"}
        if st["missed"] or st["false_alarms"] or st["analysis_errors"]:
            selftest_error = "armedness self-test: %d missed, %d false alarms, %d analysis errors (%s)" % (
                len(st["missed"]), len(st["false_alarms"]), len(st["analysis_errors"]),
                ", ".join(sorted(set(m[0] for m in st["missed"] + st["false_alarms"] + st["analysis_errors"]))))
    if replay_keys is not None:
        failed = [o for o in failed if o.key in replay_keys]
    known, violations = [], []
    for o in failed:
        f = kf.match(pid, o)
        if f is not None:
            known.append((o, f))
        else:
            violations.append(o)
    if not quiet:
        for rule, n in sorted(report.rule_counts.items()):
            print("  %-22s %3d obligation(s)" % (rule, n))
        for n in report.notes:
            print("NOTE: %s" % n)
    seen = set()
    for o, f in known:
        if f.get("construct") in seen:
            continue
        seen.add(f.get("construct"))
        print("KNOWN-FINDING: property=%s %s [%s %s] %s" % (pid, f.get("what", o.msg), o.rule, o.construct, o.site))
    if selftest_error:
        report.extra["analysis_error"] = selftest_error
    write_evidence(report, evidence_path, violations, [f for _, f in known], seed)
    if selftest_error and not violations:
        print("ANALYSIS-ERROR property=%s %s" % (pid, selftest_error))
        return 2
    if violations:
        for o in violations:
            print("FAILED %s %s at %s: %s" % (o.rule, o.construct, o.site, o.msg))
        with open(violation_path, "w") as f:
            json.dump({"property": pid, "tier": tier,
                       "obligations": [o.as_dict() for o in violations],
                       "keys": [o.key for o in violations]}, f, indent=1, default=str)
        print("VIOLATION property=%s replay=%s" % (pid, violation_path))
        return 1
    if os.path.exists(violation_path) and replay_keys is None:
        os.unlink(violation_path)
    print("OK property=%s tier=%s obligations=%d discharged=%d known_findings=%d" % (
        pid, tier, len(report.obligations), len(report.obligations) - len(report.failed()), len(seen)))
    return 0


def main(argv=None):
    ap = argparse.ArgumentParser(prog="pmdcheck")
    ap.add_argument("property", nargs="?")
    ap.add_argument("--tier", default=os.environ.get("VERIF_TIER") or "quick", choices=["quick", "thorough"])
    ap.add_argument("--repo", default=os.environ.get("PMDCHECK_REPO", "/repo"))
    ap.add_argument("--evidence-dir", default=os.environ.get("PMDCHECK_EVIDENCE", os.path.join(HERE, "evidence")))
    ap.add_argument("--replay")
    ap.add_argument("--all", action="store_true")
    ap.add_argument("--selfcheck", action="store_true")
    ap.add_argument("--quiet", action="store_true")
    a = ap.parse_args(argv)

    if a.selfcheck:
        from .selfcheck import selfcheck
        return selfcheck()
    if a.replay:
        with open(a.replay) as f:
            data = json.load(f)
        return run_property(data["property"], data.get("tier", "quick"), a.repo, a.evidence_dir,
                            replay_keys=set(data.get("keys", [])), quiet=a.quiet)
    if a.all:
        from .rules import REGISTRY
        worst = 0
        for pid in sorted(REGISTRY):
            rc = run_property(pid, a.tier, a.repo, a.evidence_dir, quiet=True)
            worst = max(worst, rc)
        return worst
    if not a.property:
        ap.error("property id required")
    return run_property(a.property, a.tier, a.repo, a.evidence_dir, quiet=a.quiet)


if __name__ == "__main__":
    sys.exit(main())
