# -*- coding: utf-8 -*-
"""
Abstract interpretation of string-handling terms over *segment strings*.

An abstract string is a sequence of atoms
    ('lit', c)      one separator character (here '-' or '@')
    ('sym', name)   an arbitrary non-empty string free of every separator character (a name segment, a version ...)
    ('txt', s)      a concrete non-empty string free of every separator character
It denotes all strings obtained by instantiating the symbolic atoms.  The interpreter evaluates def-use *terms* (pmdcheck.terms)
of string code -- count / split / rsplit / endswith / startswith / slicing by -len(x) / `in` / `or` / conditional merges / "first
table element satisfying a test" -- on such strings.  Operations whose outcome depends on the instantiation (does a symbolic
segment end with 'ga'?) fork: both outcomes are followed, and the caller decides what must hold on every branch.  Anything the
interpreter does not model raises Unmodelled (the caller turns that into "analysis cannot decide", never into a verdict).

This is static: it runs over the term representation of the source with abstract values; no code of the repository is run and
no concrete input is fed to it.
"""
from __future__ import annotations

from . import terms as T


class Unmodelled(Exception):
    pass


SEPS = ("-", "@")


class AStr(tuple):
    """tuple of atoms"""

    @staticmethod
    def of(*parts):
        atoms = []
        for p in parts:
            if isinstance(p, AStr):
                atoms.extend(p)
            elif isinstance(p, str):
                atoms.extend(AStr.concrete(p))
            else:
                atoms.append(p)
        return AStr(atoms)

    @staticmethod
    def concrete(s):
        atoms = []
        cur = ""
        for ch in s:
            if ch in SEPS:
                if cur:
                    atoms.append(("txt", cur))
                    cur = ""
                atoms.append(("lit", ch))
            else:
                cur += ch
        if cur:
            atoms.append(("txt", cur))
        return AStr(atoms)

    def show(self):
        return "".join(a[1] if a[0] in ("lit", "txt") else "<%s>" % a[1] for a in self)

    def is_concrete(self):
        return all(a[0] != "sym" for a in self)

    def text(self):
        return "".join(a[1] for a in self)

    def nonempty(self):
        return len(self) > 0


def _split(s, sep, maxsplit, right):
    if sep not in SEPS:
        raise Unmodelled("split on %r" % (sep,))
    idxs = [i for i, a in enumerate(s) if a == ("lit", sep)]
    if maxsplit is not None and maxsplit >= 0:
        idxs = idxs[-maxsplit:] if right else idxs[:maxsplit]
        if maxsplit == 0:
            idxs = []
    out, prev = [], 0
    for i in idxs:
        out.append(AStr(s[prev:i]))
        prev = i + 1
    out.append(AStr(s[prev:]))
    return out


def _endswith(s, x):
    """True / False / None (depends on the instantiation)"""
    if not isinstance(x, AStr) or not x.is_concrete():
        raise Unmodelled("endswith of a non-concrete string")
    want = x.text()
    i = len(s) - 1
    while want:
        if i < 0:
            return False
        a = s[i]
        if a[0] == "sym":
            # the rest of `want` would have to be a suffix of an arbitrary separator-free string
            if any(c in SEPS for c in want):
                # only a separator-free tail can lie inside the symbol and the part before it must match further left; a symbol
                # is non-empty, so `want` cannot end with a separator here
                tail = want
                for c in SEPS:
                    tail = tail.split(c)[-1]
                if tail == "":
                    return False
                return ("ask", a[1], tail, "whole")       # the symbol must be exactly `tail` for the match to go on leftwards
            return ("ask", a[1], want, "suffix")
        seg = a[1]
        if len(want) >= len(seg):
            if not want.endswith(seg):
                return False
            want = want[:-len(seg)]
            i -= 1
        else:
            return seg.endswith(want)
    return True


def _strip_suffix(s, n_text):
    """s[:-len(n_text)] where s is known to end with the concrete string n_text"""
    want = n_text
    atoms = list(s)
    while want:
        if not atoms:
            raise Unmodelled("slice longer than the string")
        a = atoms[-1]
        if a[0] == "sym":
            raise Unmodelled("slice cuts into a symbolic segment")
        seg = a[1]
        if len(want) >= len(seg):
            if not want.endswith(seg):
                raise Unmodelled("slice by a length that does not correspond to a known suffix")
            want = want[:-len(seg)]
            atoms.pop()
        else:
            if not seg.endswith(want):
                raise Unmodelled("slice by a length that does not correspond to a known suffix")
            atoms[-1] = (a[0], seg[:-len(want)])
            want = ""
    return AStr(atoms)


class Fork(Exception):
    def __init__(self, sym, text, how):
        self.sym, self.text, self.how = sym, text, how


def refine(value, sym, atoms):
    """replace the symbolic atom ``sym`` by ``atoms`` in an abstract value"""
    if isinstance(value, AStr):
        out = []
        for a in value:
            if a == ("sym", sym):
                out.extend(atoms)
            else:
                out.append(a)
        return AStr(out)
    if isinstance(value, list):
        return [refine(v, sym, atoms) for v in value]
    return value


def explore(env, tables, firsts, term, watch=()):
    """all outcomes of ``term``: [(value, assumptions, refined watch values)].  A question about a symbolic segment (does it end
    with 'ga'?) splits the exploration: the segment is refined (== 'ga', or <rest>+'ga') or assumed not to; ``watch`` values
    (the expected results) are refined alongside"""
    out = []
    work = [(dict(env), frozenset(), (), list(watch))]
    while work:
        e, negs, trail, w = work.pop()
        if len(trail) > 40 or len([x for x in trail if " = " in x]) > 3:
            raise Unmodelled("too many nested case splits")
        try:
            vals = [v for v, _ in Interp(e, tables, firsts, negs)._ev(term, ())]
        except Fork as fk:
            cases = [[("txt", fk.text)]]
            if fk.how == "suffix":
                cases.append([("sym", fk.sym + "'"), ("txt", fk.text)])
            for atoms in cases:
                e2 = dict((k, refine(v, fk.sym, atoms)) for k, v in e.items())
                w2 = [refine(v, fk.sym, atoms) for v in w]
                work.append((e2, negs, trail + ("<%s> = %s" % (fk.sym, AStr(atoms).show()),), w2))
            work.append((e, negs | {(fk.sym, fk.text, fk.how)}, trail + ("<%s> %s %r" % (
                fk.sym, "does not end with" if fk.how == "suffix" else "is not", fk.text),), w))
            continue
        for v in vals:
            out.append((v, trail, w))
    return out


class Interp(object):
    """evaluate terms; ``env`` maps terms (parameters) to abstract values; ``tables`` resolves a global name to a python list;
    ``firsts`` maps a loop id to (table name, test term over ('elem', ('global', table), lid)) for 'first element satisfying'"""

    def __init__(self, env, tables, firsts, negs=frozenset()):
        self.env = env
        self.tables = tables
        self.firsts = firsts
        self.negs = negs

    def run(self, t):
        """-> list of (value, trail) ; trail = list of assumptions made at forks"""
        return list(self._ev(t, ()))

    def _truth(self, v):
        if isinstance(v, AStr):
            return v.nonempty()
        if v is None:
            return False
        if isinstance(v, (bool, int)):
            return bool(v)
        if isinstance(v, list):
            return bool(v)
        raise Unmodelled("truth value of %r" % (v,))

    def _ev(self, t, trail):
        if t in self.env:
            yield self.env[t], trail
            return
        k = t[0]
        if k == "const":
            v = t[1]
            yield (AStr.concrete(v) if isinstance(v, str) else v), trail
            return
        if k == "local":
            for r in self._ev(t[3], trail):
                yield r
            return
        if k in ("gate", "ifexp"):
            for c, tr in self._ev(t[1], trail):
                for r in self._ev(t[2] if self._truth(c) else t[3], tr):
                    yield r
            return
        if k == "unary" and t[1] == "not":
            for v, tr in self._ev(t[2], trail):
                yield (not self._truth(v)), tr
            return
        if k == "boolop":
            def rec(vals, tr):
                if not vals:
                    return
                first, rest = vals[0], vals[1:]
                for v, tr2 in self._ev(first, tr):
                    tv = self._truth(v)
                    if not rest or (t[1] == "or" and tv) or (t[1] == "and" and not tv):
                        yield v, tr2
                    else:
                        for r in rec(rest, tr2):
                            yield r
            for r in rec(list(t[2]), trail):
                yield r
            return
        if k == "cmp" and len(t[1]) == 1:
            for a, tr in self._ev(t[2][0], trail):
                for b, tr2 in self._ev(t[2][1], tr):
                    op = t[1][0]
                    if op in ("==", "!=") and not isinstance(a, AStr) and not isinstance(b, AStr):
                        yield ((a == b) if op == "==" else (a != b)), tr2
                    elif op in ("is", "is not") and (a is None or b is None):
                        yield (((a is None) == (b is None)) if op == "is" else ((a is None) != (b is None))), tr2
                    elif op in ("in", "not in") and isinstance(a, AStr) and isinstance(b, AStr) and a.is_concrete() and len(a) == 1 \
                            and a[0][0] == "lit":
                        res = a[0] in b
                        yield (res if op == "in" else not res), tr2
                    elif op in ("<", "<=", ">", ">=") and isinstance(a, int) and isinstance(b, int):
                        yield {"<": a < b, "<=": a <= b, ">": a > b, ">=": a >= b}[op], tr2
                    else:
                        raise Unmodelled("comparison %s" % T.show(t)[:80])
            return
        if k == "idx":
            for v, tr in self._ev(t[1], trail):
                if isinstance(v, list):
                    if t[2] >= len(v):
                        yield ("error", "unpacking %d values, %d available" % (t[2] + 1, len(v))), tr
                    else:
                        yield v[t[2]], tr
                elif isinstance(v, tuple) and v and v[0] == "error":
                    yield v, tr
                else:
                    raise Unmodelled("component of %r" % (v,))
            return
        if k == "sub" and t[2][0] == "slice":
            lo, hi, st = t[2][1:4]
            if lo is None and st is None and hi is not None and hi[0] == "unary" and hi[1] == "-" and hi[2][0] == "call" \
                    and hi[2][1] == ("global", "len") and len(hi[2][2]) == 1:
                for s, tr in self._ev(t[1], trail):
                    for x, tr2 in self._ev(hi[2][2][0], tr):
                        if not (isinstance(s, AStr) and isinstance(x, AStr) and x.is_concrete()):
                            raise Unmodelled("slice %s" % T.show(t)[:80])
                        yield _strip_suffix(s, x.text()), tr2
                return
            # s[:-len(x) - k]: the suffix x and k more characters (a separator) are cut off
            if lo is None and st is None and hi is not None and hi[0] == "binop" and hi[1] == "-" and hi[3][0] == "const" \
                    and isinstance(hi[3][1], int) and 0 < hi[3][1] <= 2 and hi[2][0] == "unary" and hi[2][1] == "-" \
                    and hi[2][2][0] == "call" and hi[2][2][1] == ("global", "len") and len(hi[2][2][2]) == 1:
                for s, tr in self._ev(t[1], trail):
                    for x, tr2 in self._ev(hi[2][2][2][0], tr):
                        if not (isinstance(s, AStr) and isinstance(x, AStr) and x.is_concrete()):
                            raise Unmodelled("slice %s" % T.show(t)[:80])
                        r = _strip_suffix(s, x.text())
                        for _ in range(hi[3][1]):
                            if not r:
                                break
                            a = r[-1]
                            if a[0] == "lit" or (a[0] == "txt" and len(a[1]) == 1):
                                r = AStr(r[:-1])
                            elif a[0] == "txt":
                                r = AStr(r[:-1] + ((a[0], a[1][:-1]),))
                            else:
                                # one character cut off an arbitrary segment: some other (possibly empty) segment
                                r = AStr(r[:-1] + (("sym", a[1] + "~"),))
                        yield r, tr2
                return
            raise Unmodelled("slice %s" % T.show(t)[:80])
        if k == "sub" and t[2][0] == "const" and isinstance(t[2][1], int):
            for v, tr in self._ev(t[1], trail):
                if isinstance(v, list) and -len(v) <= t[2][1] < len(v):
                    yield v[t[2][1]], tr
                else:
                    raise Unmodelled("subscript %s" % T.show(t)[:80])
            return
        if k == "call" and t[1][0] == "attr":
            recv, meth = t[1][1], t[1][2]
            args = t[2]
            if meth == "count" and len(args) == 1 and args[0][0] == "const" and args[0][1] in SEPS:
                for s, tr in self._ev(recv, trail):
                    if not isinstance(s, AStr):
                        raise Unmodelled("count on %r" % (s,))
                    yield sum(1 for a in s if a == ("lit", args[0][1])), tr
                return
            if meth in ("split", "rsplit") and 1 <= len(args) <= 2 and args[0][0] == "const" and not t[3]:
                n = None
                if len(args) == 2:
                    if args[1][0] != "const" or not isinstance(args[1][1], int):
                        raise Unmodelled("maxsplit %s" % T.show(args[1]))
                    n = args[1][1]
                for s, tr in self._ev(recv, trail):
                    if not isinstance(s, AStr):
                        raise Unmodelled("split on %r" % (s,))
                    yield _split(s, args[0][1], n, meth == "rsplit"), tr
                return
            if meth in ("rstrip",) and len(args) == 1 and not t[3]:
                # characters of a *set* stripped from the end (not a suffix!): literal text loses them; a symbolic segment loses
                # whatever of its own end is in the set - if the set holds anything a segment can end in, the segment that is
                # left is some other (possibly empty) one
                for s, tr in self._ev(recv, trail):
                    for x, tr2 in self._ev(args[0], tr):
                        if not (isinstance(s, AStr) and isinstance(x, AStr) and x.is_concrete()):
                            raise Unmodelled("rstrip %s" % T.show(t)[:80])
                        chars = set(x.text())
                        r = AStr(tuple(s))
                        while r:
                            a = r[-1]
                            if a[0] == "lit":
                                if a[1] in chars:
                                    r = AStr(r[:-1])
                                    continue
                                break
                            if a[0] == "txt":
                                left = a[1].rstrip("".join(chars))
                                if not left:
                                    r = AStr(r[:-1])
                                    continue
                                if left != a[1]:
                                    r = AStr(r[:-1] + (("txt", left),))
                                break
                            if chars - set(SEPS):
                                r = AStr(r[:-1] + (("sym", a[1] + "~"),))
                            break
                        yield r, tr2
                return
            if meth in ("endswith",) and len(args) == 1:
                for s, tr in self._ev(recv, trail):
                    for x, tr2 in self._ev(args[0], tr):
                        r = _endswith(s, x)
                        if isinstance(r, tuple):
                            # depends on what the symbolic segment stands for
                            if (r[1], r[2], r[3]) in self.negs:
                                yield False, tr2
                            else:
                                raise Fork(r[1], r[2], r[3])
                        else:
                            yield r, tr2
                return
            raise Unmodelled("method %s" % meth)
        if k == "fmt":
            # string building: the pieces concatenated
            def rec_f(parts, tr, acc):
                if not parts:
                    yield AStr.of(*acc), tr
                    return
                for v, tr2 in self._ev(parts[0], tr):
                    if not isinstance(v, AStr):
                        raise Unmodelled("formatting of %r" % (v,))
                    for r in rec_f(parts[1:], tr2, acc + [v]):
                        yield r
            for r in rec_f(list(t[1]), trail, []):
                yield r
            return
        if k == "tuple":
            def rec_t(elts, tr, acc):
                if not elts:
                    yield list(acc), tr
                    return
                for v, tr2 in self._ev(elts[0], tr):
                    for r in rec_t(elts[1:], tr2, acc + [v]):
                        yield r
            for r in rec_t(list(t[1]), trail, []):
                yield r
            return
        if k == "phi":
            # the value after a 'first element of TABLE satisfying <test>, else <default>' loop
            elems = [a for a in t[1] if a[0] == "elem" and a[2] in self.firsts]
            others = [a for a in t[1] if a not in elems]
            if len(elems) == 1 and len(others) == 1:
                lid = elems[0][2]
                table, test = self.firsts[lid]
                for r in self._first(table, test, elems[0], others[0], 0, trail):
                    yield r
                return
            raise Unmodelled("merge %s" % T.show(t)[:80])
        if k == "call" and t[1] == ("global", "next") and len(t[2]) == 2 and t[2][0][0] == "comp" and len(t[2][0][3]) == 1:
            comp = t[2][0]
            names, it, conds = comp[3][0]
            var = ("bound", names[1])
            if it[0] == "global" and comp[2] == var and len(conds) == 1:
                for r in self._first(it[1], conds[0], var, t[2][1], 0, trail):
                    yield r
                return
            if it[0] == "global" and len(conds) == 1:
                # what is handed out is computed from the first matching row: that computation, on that row
                for r in self._first(it[1], conds[0], var, t[2][1], 0, trail, elt=comp[2]):
                    yield r
                return
            raise Unmodelled("next() over %s" % T.show(comp)[:80])
        if k == "call" and t[1] == ("global", "len") and len(t[2]) == 1 and not t[3]:
            # number of pieces of a split, or of characters of a known text
            for v, tr in self._ev(t[2][0], trail):
                if isinstance(v, list):
                    yield len(v), tr
                elif isinstance(v, AStr) and v.is_concrete():
                    yield len(v.text()), tr
                else:
                    raise Unmodelled("len of %r" % (v,))
            return
        raise Unmodelled("term %s" % T.show(t)[:80])

    def _first(self, table, test, var, default, i, trail, elt=None):
        rows = self.tables(table)
        if i >= len(rows):
            for r in self._ev(default, trail):
                yield r
            return
        row = rows[i]
        if not isinstance(row, str):
            raise Unmodelled("table %s holds non-strings" % table)
        val = AStr.concrete(row)
        env2 = dict(self.env)
        env2[var] = val
        sub = Interp(env2, self.tables, self.firsts, self.negs)
        for c, tr in sub._ev(test, trail):
            if self._truth(c):
                if elt is None:
                    yield val, tr
                else:
                    for r in sub._ev(elt, tr):
                        yield r
            else:
                for r in self._first(table, test, var, default, i + 1, tr, elt=elt):
                    yield r
