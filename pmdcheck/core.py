# -*- coding: utf-8 -*-
"""
E5 -- obligations, reports, evidence, known findings.

A *check* (one per property) evaluates *rules*; every rule instance it evaluates is recorded
as an Obligation (rule id, semantic construct key, site, verdict, facts).  Nothing in here looks
at the repository; see model.py / terms.py / walker.py / rx.py for the analyses.
"""
from __future__ import annotations

import json
import os
import time


class AnalysisError(Exception):
    """The analysis itself cannot be carried out (anchor vanished, idiom not understood,
    vacuity floor not met).  Exit code 2; never a VIOLATION and never a pass."""


class Obligation(object):
    __slots__ = ("rule", "construct", "site", "ok", "msg", "facts", "trivial")

    def __init__(self, rule, construct, ok, site="", msg="", facts=None, trivial=False):
        self.rule = rule
        self.construct = construct
        self.ok = bool(ok)
        self.site = site
        self.msg = msg
        self.facts = facts
        self.trivial = trivial

    @property
    def key(self):
        return "%s|%s" % (self.rule, self.construct)

    def as_dict(self):
        d = {"rule": self.rule, "construct": self.construct, "site": self.site,
             "verdict": "ok" if self.ok else "FAILED"}
        if self.msg:
            d["msg"] = self.msg
        if self.facts is not None:
            d["facts"] = self.facts
        return d


class Report(object):
    def __init__(self, property_id, tier):
        self.property_id = property_id
        self.tier = tier
        self.obligations = []
        self.notes = []
        self.analysed = {}
        self.not_decided = []
        self.assumptions = []
        self.explanation = ""
        self.extra = {}
        self.rule_counts = {}
        self.t0 = time.time()

    # -- recording -----------------------------------------------------------------------------
    def ob(self, rule, construct, ok, site="", msg="", facts=None, trivial=False):
        o = Obligation(rule, construct, ok, site, msg, facts, trivial)
        self.obligations.append(o)
        self.rule_counts[rule] = self.rule_counts.get(rule, 0) + 1
        return o.ok

    def note(self, text):
        self.notes.append(text)

    def count(self, what, n):
        self.analysed[what] = self.analysed.get(what, 0) + n

    def floor(self, rule, floor, what="instances"):
        """Vacuity guard: a rule that matched fewer instances than were confirmed by hand on the
        pinned tree cannot be trusted to have looked at the right thing."""
        n = self.rule_counts.get(rule, 0)
        if n < floor:
            raise AnalysisError("vacuity guard: rule %s matched %d %s, floor is %d"
                                % (rule, n, what, floor))

    # -- verdict -------------------------------------------------------------------------------
    def failed(self):
        return [o for o in self.obligations if not o.ok]


class KnownFindings(object):
    def __init__(self, path):
        self.path = path
        self.findings = []
        self.fixed = []
        if os.path.exists(path):
            with open(path) as f:
                data = json.load(f)
            self.findings = data.get("findings", [])
            self.fixed = data.get("fixed", [])

    def match(self, property_id, ob):
        for f in self.findings:
            if f.get("property") == property_id and f.get("rule") == ob.rule and f.get("construct") == ob.construct:
                return f
        return None


def write_evidence(report, path, violations, known, seed, level="other"):
    obs = report.obligations
    nontrivial = set(o.key for o in obs if not o.trivial)
    failed = report.failed()
    samples = []
    seen_rules = set()
    # one sample per rule first (so a reader sees what each rule's obligations look like), then failures
    for o in obs:
        if o.rule not in seen_rules:
            seen_rules.add(o.rule)
            samples.append(o.as_dict())
    for o in failed:
        d = o.as_dict()
        if d not in samples:
            samples.append(d)
    coverage = {
        "explanation": report.explanation,
        "evaluations": len(obs),
        "distinct_nontrivial": len(nontrivial),
        "rule": "one evaluation = one rule instance (obligation) evaluated on a construct of /repo's current "
                "source; distinct = distinct (rule, construct) keys; non-trivial = the rule instance matched a "
                "real construct of the tree (embedded self-test examples and bookkeeping obligations are "
                "flagged trivial and not counted)",
        "samples": samples[:60],
        "obligations": len(obs),
        "discharged": len(obs) - len(failed),
        "per_rule": dict(sorted(report.rule_counts.items())),
        "analysed": report.analysed,
        "not_decided": report.not_decided,
        "notes": report.notes,
        "known_findings_reported": [k.get("construct") for k in known],
        "exhaustive": False,
    }
    coverage.update(report.extra)
    ev = {
        "property_id": report.property_id,
        "tier": report.tier,
        "seed": int(seed),
        "level": level,
        "coverage": coverage,
        "assumptions": report.assumptions,
        "wall_s": round(time.time() - report.t0, 3),
        "violations": len(violations),
    }
    tmp = path + ".tmp"
    os.makedirs(os.path.dirname(path), exist_ok=True)
    with open(tmp, "w") as f:
        json.dump(ev, f, indent=1, sort_keys=True, default=str)
    os.replace(tmp, path)
    return ev
