# -*- coding: utf-8 -*-
"""
E3 -- fact extractors shared by the rules: per-function term context, validator tables, output
aliases, version-gate sites, regex inventory, writer/reader key tables.
"""
from __future__ import annotations

import ast

from . import known_imports
from . import terms as T
from .core import AnalysisError
from .model import NotConst, RegexConst, TypeMarker, dotted, FuncRef


class FCtx(object):
    """term-level view of one function"""
    _cache = {}

    def __init__(self, model, fref):
        self.model = model
        self.fref = fref
        self.node = fref.node
        self.cls = fref.cls
        self.module = fref.module
        def resolver(name, m=fref.module):
            from .known_consts import KNOWN_CONSTS
            r = model.resolve_name(m, name)
            if not r or r[0] != "const":
                return None
            if "%s.%s" % (r[2].name, r[1]) in KNOWN_CONSTS or any(q.split(".", 1)[1] == r[1] for q in KNOWN_CONSTS):
                return None          # tables of the pinned tree stay loops (the rules know them as such), wherever they now live
            try:
                return model._module_const(r[2], r[1])
            except Exception:
                return None
        self_consts = None
        if fref.cls is not None and fref.node.args.args and fref.node.name not in fref.cls.staticmethods:
            def class_const(name, cls=fref.cls):
                # a class-level constant read through self (a declarative attribute a base-class method is driven by)
                if not any(name in c.class_consts for c in cls.mro()):
                    return None
                try:
                    v = cls.class_const(model, name)
                except Exception:
                    return None
                if isinstance(v, (str, int, float, bool, type(None))):
                    return ("const", v)
                if isinstance(v, (tuple, list)) and all(isinstance(x, (str, int, float, bool, type(None))) for x in v):
                    return ("tuple" if isinstance(v, tuple) else "list", tuple(("const", x) for x in v))
                return None
            self_consts = (fref.node.args.args[0].arg, class_const)
        self.ex = T.extract(fref.node, inliner=self._make_inliner(model, fref), const_resolver=resolver, self_consts=self_consts,
                            attr_renames=dict(getattr(model, "attr_renames", None) or {},
                                              **dict(("<global>" + k, v) for k, v in (getattr(model, "func_renames", None) or {}).items())) or None,
                            gspell=known_imports.speller(fref.module, model.modules), sigs=self._make_sigs(model, fref))
        self.events = self.ex.events
        self.inlined = list(self.ex.inlined)
        # spelling-independent forms (string building, sort keys) for every term the rules look at
        # conditions are (test, polarity) pairs whose test never starts with ``not``: ``if not c:`` taken is (c, False), and so is
        # the rest of a block after ``if c: return`` - a guard clause and the nested if it replaces give the same conditions
        # ... and whose comparison is spelled with the positive operator: ``a != b`` taken is (a == b, False), ``x not in t`` is
        # (x in t, False) - however the source spells it (operator, ``not``, guard clause, swapped branches)
        def npair(g):
            t, pol = T.strip_not(g[0], g[1])
            if t[0] == "cmp" and len(t[1]) == 1 and t[1][0] in ("!=", "not in", "is not"):
                t, pol = ("cmp", ({"!=": "==", "not in": "in", "is not": "is"}[t[1][0]],), t[2]), not pol
            return (t, pol) + tuple(g[2:])
        for ev in self.events:
            ev.guards = tuple(npair(g) for g in ev.guards)
        self.ex.loop_guards = dict((k, tuple(npair(g) for g in v)) for k, v in self.ex.loop_guards.items())
        self._fold_local_dicts()
        self._fold_patched_mappings()
        # Event.raw/raw_target/raw_guards keep the gated (path-sensitive) merges of if statements for T.select(); the default
        # view has them flattened to phi
        for ev in self.events:
            ev.raw = T.canon(ev.value) if ev.value is not None else None
            ev.raw_target = T.canon(ev.target) if ev.target is not None else None
            ev.raw_guards = tuple((T.canon(g[0]), g[1]) for g in ev.guards)
            ev.value = T.degate(ev.raw) if ev.raw is not None else None
            ev.target = T.degate(ev.raw_target) if ev.raw_target is not None else None
            ev.guards = tuple((T.degate(g[0]), g[1]) for g in ev.raw_guards)
            ev.loops = tuple((l[0], T.degate(T.canon(l[1]))) for l in ev.loops)
        self.ex.loop_guards = dict((k, tuple((T.degate(T.canon(g[0])), g[1]) for g in v)) for k, v in self.ex.loop_guards.items())
        # conditions that folded to a literal (a flag argument of an inlined helper, ``getattr(os, "fspath", None) is None``):
        # events under a condition that cannot hold are dead, conditions that always hold are no conditions
        def const_guard(g):
            return g[0][0] == "const" and isinstance(g[0][1], (bool, type(None), int))
        live = []
        for ev in self.events:
            if ev.kind == "call" and (ev.value is None or ev.value[0] != "call"):
                continue          # a call that was folded away (os.fspath(p), hasattr(p, "__fspath__") ...)
            if any(const_guard(g) and bool(g[0][1]) != g[1] for g in ev.guards):
                continue
            if any(const_guard(g) for g in ev.guards):
                keep = [i for i, g in enumerate(ev.guards) if not const_guard(g)]
                ev.guards = tuple(ev.guards[i] for i in keep)
                ev.raw_guards = tuple(ev.raw_guards[i] for i in keep if i < len(ev.raw_guards))
            live.append(ev)
        if len(live) != len(self.events):
            self.events[:] = live
        self.ex.loop_guards = dict((k, tuple(g for g in v if not const_guard(g))) for k, v in self.ex.loop_guards.items())
        self._apply_shims()
        self._fold_local_dict_builds()
        self._alias_stored_locals()
        self._canon_regex_calls(model)
        self._fold_version_operands(model)
        for ev in self.events:
            if ev.kind == "unsupported":
                raise AnalysisError("unsupported statement %s in %s (line %s)" % (ev.value[1], fref.qname, ev.lineno))
        args = fref.node.args.args
        self.selfname = None
        if fref.cls is not None and args and fref.node.name not in fref.cls.staticmethods:
            self.selfname = args[0].arg
        self.params = [a.arg for a in args]

    def _fold_version_operands(self, model):
        """``version_tuple < VERSION``: a module constant compared with a version is its value"""
        module = self.module
        cls_, sname = self.cls, None
        if cls_ is not None and self.node.args.args and self.node.name not in cls_.staticmethods:
            sname = self.node.args.args[0].arg

        def fn(x):
            if x[0] == "boolop":
                return T.simplify_boolop(x)
            if x[0] == "cmp" and len(x[1]) == 1 and len(x[2]) == 2 and x[1][0] in ("is", "is not") and ("const", None) in x[2] and sname:
                o = [y for y in x[2] if y != ("const", None)]
                if len(o) == 1 and o[0][0] == "attr" and o[0][1] == ("param", sname) and cls_.lookup(o[0][2]) is not None \
                        and o[0][2] not in cls_.lookup(o[0][2])[0].properties:
                    return ("const", x[1][0] == "is not")        # a bound method is not None
            if x[0] == "cmp" and len(x[1]) == 1 and len(x[2]) == 2:
                a, b = x[2]
                for i, (p_, q_) in enumerate(((a, b), (b, a))):
                    if p_[0] == "attr" and p_[2] == "version_tuple" and q_[0] == "global":
                        r = model.resolve_name(module, q_[1])
                        if not (r and r[0] == "const"):
                            # the comparison came from an inlined helper of another module: the one constant of that name
                            owners = [mm for mm in model.modules.values() if q_[1] in mm.assigns]
                            r = ("const", q_[1], owners[0]) if len(owners) == 1 else None
                        if r and r[0] == "const":
                            try:
                                v = model._module_const(r[2], r[1])
                            except Exception:
                                return None
                            if isinstance(v, tuple) and all(isinstance(y, int) for y in v):
                                lit = ("tuple", tuple(("const", y) for y in v))
                                return ("cmp", x[1], (a, lit) if i == 0 else (lit, b))
            return None
        for ev in self.events:
            for fld in ("value", "target", "raw", "raw_target"):
                v = getattr(ev, fld)
                if v is not None:
                    setattr(ev, fld, T.subst(v, fn))
            ev.guards = tuple((T.subst(g[0], fn), g[1]) for g in ev.guards)
            ev.raw_guards = tuple((T.subst(g[0], fn), g[1]) for g in ev.raw_guards)
        self.ex.loop_guards = dict((k, tuple((T.subst(g[0], fn), g[1]) for g in v)) for k, v in self.ex.loop_guards.items())

    def _canon_regex_calls(self, model):
        """applying a compiled pattern is applying its text: CONST_RE.match(x) and re.compile(p).match(x) read re.match(p, x)
        (also search/fullmatch), so that precompiling a pattern into a module constant changes nothing the rules see"""
        from .model import RegexConst
        METHS = ("match", "search", "fullmatch")
        module = self.module

        def fn(x):
            if x[0] != "call" or x[3]:
                return None
            f = x[1]
            pat = None
            if f[0] == "global" and "." in f[1] and f[1].rsplit(".", 1)[1] in METHS and not f[1].startswith("re."):
                try:
                    v = model._module_const(module, f[1].rsplit(".", 1)[0]) if "." not in f[1].rsplit(".", 1)[0] else None
                except Exception:
                    v = None
                if isinstance(v, RegexConst):
                    pat, meth = v.pattern, f[1].rsplit(".", 1)[1]
            elif f[0] == "attr" and f[2] in METHS:
                r = T.unwrap(f[1])
                if r[0] == "call" and r[1] == ("global", "re.compile") and len(r[2]) == 1 and r[2][0][0] == "const" and not r[3]:
                    pat, meth = r[2][0][1], f[2]
            if pat is None:
                return None
            return ("call", ("global", "re." + meth), (("const", pat),) + tuple(x[2]), ())
        for ev in self.events:
            for fld in ("value", "target", "raw", "raw_target"):
                v = getattr(ev, fld)
                if v is not None:
                    setattr(ev, fld, T.subst(v, fn))
            ev.guards = tuple((T.subst(g[0], fn), g[1]) for g in ev.guards)
            ev.raw_guards = tuple((T.subst(g[0], fn), g[1]) for g in ev.raw_guards)
        self.ex.loop_guards = dict((k, tuple((T.subst(g[0], fn), g[1]) for g in v)) for k, v in self.ex.loop_guards.items())

    def _apply_shims(self):
        """``stand_in(self.<attr>, x)`` is ``self.<method>(x)`` for a known method that was turned into a module-level function"""
        shims = getattr(self.cls, "shims", None) if self.cls is not None else None
        if not shims or self.node.name in shims or not self.node.args.args:
            return
        S = ("param", self.node.args.args[0].arg)

        def fn(x):
            if x[0] == "call" and x[1][0] == "global" and len(x[2]) == 2 and not x[3]:
                for m_, (fname, attr) in shims.items():
                    if x[1][1] == fname and x[2][0] == ("attr", S, attr):
                        return ("call", ("attr", S, m_), (x[2][1],), ())
            return None
        for ev in self.events:
            for fld in ("value", "target", "raw", "raw_target"):
                v = getattr(ev, fld)
                if v is not None:
                    setattr(ev, fld, T.subst(v, fn))
            ev.guards = tuple((T.subst(g[0], fn), g[1]) for g in ev.guards)
            ev.raw_guards = tuple((T.subst(g[0], fn), g[1]) for g in ev.raw_guards)

    def _fold_patched_mappings(self):
        """a local mapping obtained from a call (``result = match.groupdict()``) that is only read with literal keys and
        patched by ``result[<literal>] = v`` stores: every read ``result[k]`` becomes the value it denotes at that point - the
        mapping's own entry, overridden by the stores of that key executed before (conditional stores give conditional
        expressions).  Any other use of the local leaves it alone."""
        locs = {}
        for ev in self.events:
            if ev.kind == "bind" and ev.value is not None and ev.value[0] == "call" and ev.value[1][0] == "attr" \
                    and ev.value[1][2] == "groupdict" and not ev.value[2] and not ev.value[3] and not ev.loops:
                locs.setdefault(ev.value, (ev.value, ev))
        for key, (L, b) in locs.items():
            init = L

            def is_L(x):
                return x == key

            def lookup(x):
                return x[0] == "sub" and is_L(x[1]) and x[2][0] == "const"

            def other_use(t):
                if lookup(t):
                    return False
                if is_L(t):
                    return True
                return any(other_use(c) for c in T.children(t))
            stores, ok = [], True
            for ev in self.events:
                if ev is b or ev.seq <= b.seq:
                    continue
                if ev.kind == "call" and ev.value == init:
                    continue
                if ev.kind == "store" and ev.target is not None and lookup(ev.target):
                    if other_use(ev.value) or ev.loops or any(g[0][0] == "exc" for g in ev.guards):
                        ok = False
                    stores.append(ev)
                    continue
                for t in [ev.value, ev.target] + [g[0] for g in ev.guards] + [l[1] for l in ev.loops]:
                    if t is not None and other_use(t):
                        ok = False
            if not ok or not stores:
                continue

            orig = dict((id(ev), tuple(ev.guards)) for ev in self.events)

            def make(reader):
                rg = orig[id(reader)]

                def fn(x):
                    if not lookup(x):
                        return None
                    val = ("call", ("attr", init[1][1], "group"), (x[2],), ())        # m.groupdict()["k"] is m.group("k")
                    handler = [i for i, g in enumerate(rg) if g[0][0] == "exc"]
                    for st in stores:
                        if st.seq >= reader.seq or st.target[2] != x[2]:
                            continue
                        sg = orig[id(st)]
                        if handler and tuple(sg) == tuple(rg[:handler[0]]):
                            continue        # a store of the try body whose exception is being handled: it may not have happened
                        # conditions of the store beyond those the reader itself is under
                        n = 0
                        while n < len(sg) and n < len(rg) and sg[n] == rg[n]:
                            n += 1
                        if n < len(sg) and n < len(rg) and sg[n][0] == rg[n][0] and sg[n][1] != rg[n][1]:
                            continue        # the other branch of a test the reader is under: not on the reader's path
                        conds = tuple(g[0] if g[1] else ("unary", "not", g[0]) for g in st.guards[n:])
                        val = st.value if not conds else ("ifexp", conds[0] if len(conds) == 1 else ("boolop", "and", conds), st.value, val)
                    return val
                return fn
            for ev in self.events:        # in execution order: a store's own value and conditions read the mapping as it was
                if ev.seq <= b.seq:
                    continue
                fn = make(ev)
                if ev.value is not None:
                    ev.value = T.subst(ev.value, fn)
                if ev.target is not None and ev not in stores:
                    ev.target = T.subst(ev.target, fn)
                ev.guards = tuple((T.subst(g[0], fn),) + tuple(g[1:]) for g in ev.guards)

    def _fold_local_dicts(self):
        """lookups with a literal key in a local dict that starts as a constant table and is only ever changed by
        ``d[<literal>] = v`` stores: ``d.get(k)`` / ``d[k]`` become the value they denote (a conditional expression when the one
        store of that key is conditional).  Any other use of the local (passed on, updated, iterated ...) leaves it alone."""
        simple = (str, int, float, bool, type(None))
        locs = {}
        for ev in self.events:
            for t in (ev.value, ev.target):
                if t is None:
                    continue
                for x in T.walk(t):
                    if x[0] == "local" and len(x) > 3 and isinstance(x[3], tuple) and x[3] and x[3][0] in ("call", "dict") \
                            and x[1:3] not in locs:
                        locs[x[1:3]] = x
        for key, L in locs.items():
            init = L[3]
            if init[0] == "call" and init[1] == ("global", "dict") and len(init[2]) == 1 and not init[3]:
                init = init[2][0]
            elif init[0] == "call" and init[1][0] == "attr" and init[1][2] == "copy" and not init[2]:
                init = init[1][1]
            try:
                table = self.const_of(init)
            except Exception:
                continue
            if not isinstance(table, dict) or not all(isinstance(k, simple) for k in table):
                continue
            stores, ok = [], True

            def is_L(x):
                return x[0] == "local" and x[1:3] == key

            def lookup(x):
                if x[0] == "call" and x[1][0] == "attr" and x[1][2] == "get" and is_L(x[1][1]) and 1 <= len(x[2]) <= 2 \
                        and not x[3] and x[2][0][0] == "const":
                    return "get"
                if x[0] == "sub" and is_L(x[1]) and x[2][0] == "const":
                    return "sub"
                if x[0] == "cmp" and x[1] in (("in",), ("not in",)) and is_L(x[2][1]) and x[2][0][0] == "const":
                    return "in"
                return None

            def other_use(t, top=True):
                """is the local used in ``t`` in any way but a literal-key lookup?"""
                if lookup(t):
                    return any(other_use(c, False) for c in (t[2] if t[0] == "call" else ()))
                if is_L(t):
                    return True
                return any(other_use(c, False) for c in T.children(t))
            for ev in self.events:
                if ev.kind == "bind" and ev.value is not None and is_L(ev.value):
                    continue        # the binding of the local itself
                if ev.kind == "call" and ev.value == L[3]:
                    continue
                if ev.kind == "store" and ev.target is not None and lookup(ev.target) == "sub":
                    stores.append(ev)
                    if other_use(ev.value):
                        ok = False
                    continue
                for t in [ev.value, ev.target] + [g[0] for g in ev.guards] + [l[1] for l in ev.loops]:
                    if t is not None and other_use(t):
                        ok = False
            if not ok or any(st.loops for st in stores):
                continue

            def const_term(v):
                return ("const", v) if isinstance(v, simple) else None

            def make(seq):
                def fn(x):
                    how = lookup(x)
                    if not how:
                        return None
                    k = (x[2][0] if how in ("get", "in") else x[2])[1]
                    mine = [st for st in stores if st.target[2] == ("const", k)]
                    if how == "in":
                        if k in table or not mine:
                            return ("const", (k in table) == (x[1] == ("in",)))
                        if len(mine) == 1 and mine[0].seq < seq and all(g[0][0] != "exc" for g in mine[0].guards):
                            # present exactly when the one store of that key was executed
                            tests = tuple(g[0] if g[1] else ("unary", "not", g[0]) for g in mine[0].guards)
                            t_ = ("const", True) if not tests else tests[0] if len(tests) == 1 else ("boolop", "and", tests)
                            return t_ if x[1] == ("in",) else ("unary", "not", t_)
                        return None
                    if how == "get":
                        base = const_term(table[k]) if k in table else (x[2][1] if len(x[2]) == 2 else ("const", None))
                    else:
                        base = const_term(table[k]) if k in table else None
                    if not mine:
                        return base
                    if len(mine) != 1 or mine[0].seq >= seq:
                        return None
                    st = mine[0]
                    if base is None:
                        # d[k] for a key that only the one (conditional) store provides: the stored value, or a KeyError -
                        # which is a refusal, never another value
                        return st.value if all(g[0][0] != "exc" for g in st.guards) else None
                    conds = [g for g in st.guards if g[0][0] != "exc"]
                    if len(conds) != len(st.guards):
                        return None
                    if not conds:
                        return st.value
                    tests = tuple(g[0] if g[1] else ("unary", "not", g[0]) for g in conds)
                    return ("ifexp", tests[0] if len(tests) == 1 else ("boolop", "and", tests), st.value, base)
                return fn
            for ev in self.events:
                if ev in stores:
                    continue
                fn = make(ev.seq)
                for fld in ("value", "target"):
                    v = getattr(ev, fld)
                    if v is not None:
                        setattr(ev, fld, T.subst(v, fn))
                ev.guards = tuple((T.subst(g[0], fn),) + tuple(g[1:]) for g in ev.guards)
            self.ex.loop_guards = dict((k, tuple((T.subst(g[0], make(1 << 30)),) + tuple(g[1:]) for g in v))
                                       for k, v in self.ex.loop_guards.items())

    def _fold_local_dict_builds(self):
        """a local dict filled step by step before it is used (``d = {..}; d["k"] = v; d.update(pairs)`` - all under the
        conditions of its creation, none after its first use as a value) is the dict literal it adds up to"""
        def pairs_of(t):
            if t[0] == "dict" and all(k[0] == "const" and k[1] != "**" for k, _ in t[1]):
                return list(t[1])
            if t[0] in ("list", "tuple") and all(e[0] == "tuple" and len(e[1]) == 2 and e[1][0][0] == "const" for e in t[1]):
                return [(e[1][0], e[1][1]) for e in t[1]]
            if t[0] == "call" and t[1] == ("global", "dict") and not t[2] and not t[3]:
                return []
            return None
        for b in list(self.events):
            if b.kind != "bind" or b.value is None or b.value[0] != "local" or len(b.value) < 4 or not isinstance(b.value[3], tuple):
                continue
            L = b.value
            init = pairs_of(L[3]) if L[3] else None
            if init is None:
                continue

            def is_L(x, L=L):
                return x[0] == "local" and x[1:3] == L[1:3]

            def mentions(ev):
                return any(t is not None and T.contains(t, is_L) for t in
                           [ev.value, ev.target] + [g[0] for g in ev.guards] + [l[1] for l in ev.loops])
            bg = own_guards(self, b)
            muts, escaped, ok = [], False, True
            for ev in self.events:
                if ev.seq <= b.seq or not mentions(ev):
                    continue
                add = None
                if ev.kind == "store" and ev.target[0] == "sub" and is_L(ev.target[1]) and ev.target[2][0] == "const" \
                        and not T.contains(ev.value, is_L):
                    add = [(ev.target[2], ev.value)]
                elif ev.kind == "call" and ev.value[0] == "call" and ev.value[1][0] == "attr" and is_L(ev.value[1][1]) \
                        and ev.value[1][2] == "update" and not any(T.contains(a, is_L) for a in ev.value[2]):
                    if len(ev.value[2]) == 1 and not ev.value[3]:
                        add = pairs_of(ev.value[2][0])
                    elif not ev.value[2] and ev.value[3] and all(k != "**" for k, _ in ev.value[3]):
                        add = [(("const", k), v) for k, v in ev.value[3]]
                if add is not None:
                    if escaped or ev.loops != b.loops or own_guards(self, ev) != bg:
                        ok = False
                        break
                    muts.append((ev, add))
                else:
                    escaped = True
            if not ok or not muts or not escaped:
                continue
            merged = list(init)
            for ev, add in muts:
                for k, v in add:
                    hit = [i for i, (k2, _) in enumerate(merged) if k2 == k]
                    if hit:
                        merged[hit[0]] = (k, v)
                    else:
                        merged.append((k, v))
            lit = ("dict", tuple(merged))
            gone = set(id(ev) for ev, _ in muts)
            last = max(ev.seq for ev, _ in muts)

            def fn(x):
                return lit if is_L(x) else None
            for ev in self.events:
                if ev.seq <= last or id(ev) in gone:
                    continue
                for fld in ("value", "target", "raw", "raw_target"):
                    v = getattr(ev, fld)
                    if v is not None:
                        setattr(ev, fld, T.subst(v, fn))
                ev.guards = tuple((T.subst(g[0], fn), g[1]) for g in ev.guards)
                ev.raw_guards = tuple((T.subst(g[0], fn), g[1]) for g in ev.raw_guards)
            self.events[:] = [ev for ev in self.events if id(ev) not in gone]

    def _alias_stored_locals(self):
        """``cell = self.table[key] = {}`` (or ``cell = {}; self.table[key] = cell``): from the store on, the local *is* the
        attribute path it was stored under; later uses of the local are rewritten to that path so that both spellings of
        ``self.table[key][k] = v`` look the same"""
        for st in list(self.events):
            if st.kind != "store" or st.value is None or st.value[0] != "local" or st.extra:
                continue
            root = T.root_of(st.target)
            if root is None or root[0] != "param":
                continue
            loc, path = st.value, st.target

            def fn(x, loc=loc, path=path):
                if x[0] == "local" and T.same_local(x, loc):
                    return path
                return None
            for ev in self.events:
                if ev.seq <= st.seq:
                    # built first, stored afterwards: what was put into the local before it was stored ends up under that path
                    # just the same (``section = {}; section["id"] = ...; data["compose"] = section``)
                    if ev is not st and ev.kind == "store" and ev.target is not None and ev.target[0] == "sub" \
                            and T.root_of(ev.target) is not None and T.same_local(T.root_of(ev.target), loc) \
                            and not T.contains(ev.value, lambda x: x[0] == "local" and T.same_local(x, loc)) and ev.loops == st.loops:
                        ev.target = T.subst(ev.target, fn)
                        if ev.raw_target is not None:
                            ev.raw_target = T.subst(ev.raw_target, fn)
                    continue
                for fld in ("value", "target", "raw", "raw_target"):
                    v = getattr(ev, fld)
                    if v is not None:
                        setattr(ev, fld, T.subst(v, fn))
                ev.guards = tuple((T.subst(g[0], fn), g[1]) for g in ev.guards)
                ev.raw_guards = tuple((T.subst(g[0], fn), g[1]) for g in ev.raw_guards)
                ev.loops = tuple((l[0], T.subst(l[1], fn)) for l in ev.loops)

    @staticmethod
    def _make_sigs(model, fref):
        """callee term -> positional parameter names of the package function/method/class it names (None when it is not one, or
        cannot be told): ``self.m(...)`` through the class of the analysed method, module-level names through the imports, any
        other ``x.m(...)`` only when every definition of ``m`` in the package has the same parameters and no built-in container,
        string or parser has a method of that name"""
        def params_of(fn, drop_first):
            a = fn.args
            if a.posonlyargs:
                return None
            ps = [x.arg for x in a.args]
            return tuple(ps[1:] if drop_first else ps)
        by_name = {}
        for c in model.classes.values():
            for n, fn in c.methods.items():
                if n in c.properties:
                    continue
                by_name.setdefault(n, set()).add(params_of(fn, n not in c.staticmethods))
        foreign = set()
        import configparser
        import io
        for ty in (dict, list, set, str, tuple, frozenset, configparser.ConfigParser, bytes, io.TextIOWrapper):
            foreign |= set(dir(ty))
        selfname = fref.node.args.args[0].arg if fref.cls is not None and fref.node.args.args \
            and fref.node.name not in fref.cls.staticmethods else None

        def sigs(func):
            if func[0] == "attr":
                name = func[2]
                if selfname is not None and func[1] == ("param", selfname):
                    lk = fref.cls.lookup(name)
                    if lk is None or name in lk[0].properties:
                        return None
                    return params_of(lk[1], name not in lk[0].staticmethods)
                if name in foreign or name.startswith("__"):
                    return None
                alts = by_name.get(name)
                if alts and len(alts) == 1:
                    return list(alts)[0]
                return None
            if func[0] == "global":
                try:
                    r = model.resolve_name(fref.module, func[1])
                except Exception:
                    return None
                if r is None:
                    return None
                if r[0] == "func":
                    f_ = r[1]
                    return params_of(f_.node, f_.cls is not None and f_.node.name not in f_.cls.staticmethods)
                if r[0] == "class":
                    lk = r[1].lookup("__init__")
                    return params_of(lk[1], True) if lk else None
            return None
        return sigs

    @staticmethod
    def _make_inliner(model, fref):
        """calls to repo functions that the rules do not know (helpers introduced by a refactoring) are inlined"""
        from .known_funcs import KNOWN_FUNCS
        selfname = None
        if fref.cls is not None and fref.node.args.args and fref.node.name not in fref.cls.staticmethods:
            selfname = fref.node.args.args[0].arg

        def bind(fn, args, kws, first=None):
            params = [a.arg for a in fn.args.args]
            if fn.args.kwarg or fn.args.kwonlyargs or any(a[0] == "starred" for a in args) or any(k == "**" for k, v in kws):
                return None
            env = {}
            if first is not None:
                if not params:
                    return None
                env[params[0]] = first
                params = params[1:]
            if fn.args.vararg:
                # def f(a, b, *rest): the surplus positional arguments as a tuple
                env[fn.args.vararg.arg] = ("tuple", tuple(args[len(params):]))
                args = args[:len(params)]
            if len(args) > len(params):
                return None
            for p_, a in zip(params, args):
                env[p_] = a
            for k, v in kws:
                if k not in params or k in env:
                    return None
                env[k] = v
            defaults = fn.args.defaults
            dparams = params[len(params) - len(defaults):] if defaults else []
            for p_, d in zip(dparams, defaults):
                if p_ not in env:
                    if isinstance(d, ast.Constant):
                        env[p_] = ("const", d.value)
                    else:
                        return None
            if set(params) - set(env):
                return None
            return env

        def generator(fn):
            return any(isinstance(n, (ast.Yield, ast.YieldFrom)) for n in ast.walk(fn))

        def yield_parents(fn):
            out = []
            for n in ast.walk(fn):
                for c in ast.iter_child_nodes(n):
                    if isinstance(c, (ast.Yield, ast.YieldFrom)):
                        out.append(n if isinstance(c, ast.Yield) else None)
            return out

        def class_of(t):
            """static class of a term: self, self.<attribute holding an instance>, a back-pointer attribute with one class"""
            if selfname is not None and t == ("param", selfname):
                return fref.cls
            if t[0] == "attr":
                c = class_of(t[1])
                if c is None:
                    return None
                ia = c.init_attrs(model).get(t[2])
                if ia is None:
                    return None
                k = ia.kind(model)
                if isinstance(k, tuple) and k[0] == "instance":
                    return k[1]
                if k == "param":
                    cs = model.param_attr_classes(c, t[2])
                    if len(cs) == 1:
                        return list(cs)[0]
            return None

        def renamer(mod):
            """module-level names used in a body taken from another module, spelled the way the function it is inlined into
            spells the same object (its own import alias, else the dotted path)"""
            home = fref.module
            if mod is home:
                return None

            def spell(target):
                for alias, tgt in home.imports.items():
                    if tgt == target:
                        return alias
                return target

            def ren(name):
                if name in mod.functions or name in mod.classes or name in mod.assigns:
                    return spell("productmd.%s.%s" % (mod.name, name))
                if name in mod.imports:
                    return spell(mod.imports[name])
                return name
            return ren

        def want_gen_probe(func):
            return False

        def inliner(func, args, kws):
            if func[0] == "property":
                # attribute access that is a property the rules do not know
                c = class_of(func[1])
                if c is None:
                    return None
                lk = c.lookup(func[2])
                if lk is None or func[2] not in lk[0].properties:
                    return None
                tq = "%s.%s" % (lk[0].qname, func[2])
                if tq in KNOWN_FUNCS or lk[1] is fref.node or generator(lk[1]) or len(lk[1].args.args) != 1:
                    return None
                if any(func[2] in k_.methods and k_ is not lk[0] for k_ in model.subclasses(c)):
                    return None
                return lk[1], {lk[1].args.args[0].arg: func[1]}, tq, renamer(lk[0].module)
            target = None
            first = None
            if func[0] == "global" and fref.cls is not None and fref.node.name not in getattr(fref.cls, "shims", {}) \
                    and any(func[1] == sh[0] for sh in getattr(fref.cls, "shims", {}).values()):
                return None          # the stand-in of a known method: kept as a call (rewritten to the method by the post-pass)
            want_gen = func[0] == "generator"
            if want_gen:
                func = func[1]
            if func[0] == "attr" and func[1][0] == "obj" and func[1][1] in model.classes:
                # a method of a record of a constant table, called on that record
                oc = model.classes[func[1][1]]
                lk = oc.lookup(func[2])
                if lk and func[2] not in lk[0].properties and func[2] not in lk[0].staticmethods:
                    target = FuncRef(lk[0].module, lk[0], lk[1])
                    first = func[1]
            if func[0] == "global":
                r = model.resolve_name(fref.module, func[1])
                if r and r[0] == "func" and r[1].cls is None:
                    target = r[1]
                    if not want_gen and "%s.%s" % (r[1].module.name, func[1].split(".")[-1]) in KNOWN_FUNCS:
                        return None          # a known function (possibly under a new name, model.func_renames)
            elif func[0] == "attr" and selfname is not None and func[1] == ("param", selfname) and fref.cls is not None:
                lk = fref.cls.lookup(func[2])
                if lk and lk[0] is not fref.cls and "%s.%s" % (fref.cls.qname, func[2]) in KNOWN_FUNCS:
                    return None          # a method the rules know on this class, now inherited from a base class / mixin
                if lk and "%s.%s" % (lk[0].qname, func[2]) in KNOWN_FUNCS and not want_gen_probe(func):
                    return None          # a known method under a new name (model.attr_renames): still the known method
                if lk and func[2] not in lk[0].properties:
                    target = FuncRef(lk[0].module, lk[0], lk[1])
                    if func[2] not in lk[0].staticmethods:
                        first = func[1]
                    # a method overridden in a subclass is dispatched dynamically: do not inline
                    # (unless the analysis is about instances of exactly this class: FuncRef.exact)
                    if any(func[2] in c.methods and c is not lk[0] for c in model.subclasses(fref.cls)) and not getattr(fref, "exact", False):
                        target = None
            via_super = False
            if func[0] == "attr" and func[1][0] == "call" and func[1][1] == ("global", "super") and fref.cls is not None \
                    and func[2] != "__init__" and selfname is not None:
                # super(K, self).m(...): the next definition of m along the MRO -- a delegation, inlined whether known or not
                mro = fref.cls.mro()
                start = fref.cls
                sargs = func[1][2]
                if sargs and sargs[0][0] == "global":
                    r0 = model.resolve_name(fref.module, sargs[0][1])
                    if r0 and r0[0] == "class":
                        start = r0[1]
                if start in mro:
                    for c in mro[mro.index(start) + 1:]:
                        if func[2] in c.methods and func[2] not in c.properties:
                            target = FuncRef(c.module, c, c.methods[func[2]])
                            first = ("param", selfname)
                            via_super = True
                            break
            if target is not None and target.cls is None and not via_super \
                    and any(q.count(".") == 1 and q.split(".")[1] == target.node.name for q in KNOWN_FUNCS):
                return None          # a module-level function the rules know, moved to another module
            if target is None or (target.qname in KNOWN_FUNCS and not via_super) or target.node is fref.node \
                    or generator(target.node) != want_gen:
                return None
            if want_gen and not all(isinstance(p_, ast.Expr) for p_ in yield_parents(target.node)):
                return None          # only generators whose yields are plain statements
            if target.node.decorator_list and any(not _transparent_decorator(d, target.node) for d in target.node.decorator_list):
                return None
            env = bind(target.node, list(args), list(kws), first)
            if env is None:
                return None
            return target.node, env, target.qname, renamer(target.module)
        return inliner

    @classmethod
    def get(cls, model, fref):
        # (kept on the model: a long-lived process analysing many trees must not keep every tree it ever saw)
        cache = model.__dict__.setdefault("_fctx_cache", {})
        key = (fref, bool(getattr(fref, "exact", False)))
        if key not in cache:
            cache[key] = FCtx(model, fref)
        return cache[key]

    @property
    def qname(self):
        return self.fref.qname

    def site(self, node_or_line):
        line = node_or_line if isinstance(node_or_line, int) else getattr(node_or_line, "lineno", "?")
        return "%s:%s" % (self.module.rel(), line)

    # -- term predicates ------------------------------------------------------------------------------
    def is_self(self, t):
        return self.selfname is not None and t == ("param", self.selfname)

    def self_attr(self, t):
        """'x' if t is self.x"""
        if isinstance(t, tuple) and t and t[0] == "attr" and self.is_self(t[1]):
            return t[2]
        return None

    def self_attrs_in(self, t):
        """names X of all ``self.X`` occurrences (first attribute of chains rooted at self)"""
        out = []
        for x in T.walk(t):
            a = self.self_attr(x)
            if a is not None and a not in out:
                out.append(a)
        return out

    def const_of(self, t):
        """fold a term to a Python constant if possible: ('const', v), self._section, module constants"""
        if t[0] == "const":
            return t[1]
        if t[0] == "local":
            return self.const_of(t[3])
        a = self.self_attr(t)
        if a is not None and self.cls is not None and a not in self.cls.properties:
            try:
                return self.model.class_attr_const(self.cls, a)
            except NotConst:
                raise
        if t[0] == "global":
            r = self.model.resolve_name(self.module, t[1])
            if r and r[0] == "const":
                return self.model._module_const(r[2], r[1])
            if t[1].startswith("six."):
                return self.model.fold(ast.parse(t[1], mode="eval").body, self.module)
            if t[1] in ("str", "int", "float", "bool", "dict", "list", "set", "tuple", "object", "bytes", "frozenset", "complex",
                        "bytearray"):
                return TypeMarker(t[1])
            raise NotConst("global %s" % t[1])
        if t[0] in ("list", "tuple", "set"):
            vals = [self.const_of(x) for x in t[1]]
            return {"list": list, "tuple": tuple, "set": set}[t[0]](vals)
        if t[0] == "binop" and t[1] in ("+", "%"):
            l, r = self.const_of(t[2]), self.const_of(t[3])
            try:
                return l + r if t[1] == "+" else l % r
            except Exception as e:
                raise NotConst(str(e))
        if t[0] == "call" and t[1][0] == "global":
            fn = t[1][1]
            args = [self.const_of(a) for a in t[2]]
            if fn == "list" and len(args) == 1:
                return list(args[0])
            if fn == "sorted" and len(args) == 1:
                return sorted(args[0])
            if fn == "set" and len(args) <= 1:
                return set(args[0]) if args else set()
            if fn == "tuple" and len(args) == 1:
                return tuple(args[0])
            if fn == "type" and len(args) == 1 and args[0] is None:
                return TypeMarker("NoneType")
            if fn == "re.compile" and len(args) == 1 and isinstance(args[0], str):
                return RegexConst(args[0])
            if fn == "re.escape" and len(args) == 1 and isinstance(args[0], str):
                import re as _re
                return _re.escape(args[0])
            if fn in ("len", "str", "int", "min", "max", "sum", "frozenset", "dict") and len(args) == 1:
                try:
                    return {"len": len, "str": str, "int": int, "min": min, "max": max, "sum": sum, "frozenset": frozenset,
                            "dict": dict}[fn](args[0])
                except Exception as e:
                    raise NotConst(str(e))
        if t[0] == "fmt":
            # string building from constant pieces
            out = []
            for piece in t[1]:
                v = self.const_of(piece[2]) if piece[0] == "spec" else self.const_of(piece)
                if piece[0] == "spec":
                    try:
                        v = format(v, piece[1][1:]) if piece[1].startswith(":") else repr(v)
                    except Exception as e:
                        raise NotConst(str(e))
                if isinstance(v, RegexConst) or not isinstance(v, (str, int, float, bool, type(None))):
                    raise NotConst("piece %s of a built string is not a plain constant" % T.show(piece)[:40])
                out.append(str(v))
            return "".join(out)
        if t[0] == "call" and t[1][0] == "attr" and not t[3]:
            # pure string/mapping methods on constants: ', '.join(TABLE), TABLE.keys() ...
            meth = t[1][2]
            if meth in ("join", "keys", "values", "items", "lower", "upper", "strip", "split", "replace", "format", "get"):
                recv = self.const_of(t[1][1])
                args = [self.const_of(a) for a in t[2]]
                if isinstance(recv, (str, dict)):
                    try:
                        r = getattr(recv, meth)(*args)
                    except Exception as e:
                        raise NotConst(str(e))
                    return list(r) if meth in ("keys", "values", "items") else r
        if t[0] == "comp" and len(t[3]) == 1:
            # a comprehension over a constant table: evaluated row by row
            names, it, conds = t[3][0]
            rows = self.const_of(it)
            var = ("bound", names[1])

            def inst(term, row):
                def fn(x):
                    if x == var:
                        return ("const", row)
                    if x[0] == "idx" and x[1] == ("const", row) and isinstance(row, (tuple, list)) and x[2] < len(row):
                        return ("const", row[x[2]])
                    if x[0] == "sub" and x[2] == ("const", row) and x[1] == it:
                        try:
                            return ("const", rows[row])
                        except Exception:
                            return None
                    return None
                return T.subst(term, fn)
            out = []
            for row in (sorted(rows) if isinstance(rows, (set, frozenset)) else list(rows)):
                if all(self.const_of(inst(c, row)) for c in conds):
                    out.append(self.const_of(inst(t[2], row)))
            if t[1] == "set":
                return set(out)
            if t[1] == "dict":
                return dict(out)
            return out
        raise NotConst("term %s is not constant" % T.show(t))

    def try_const(self, t, default=None):
        try:
            return self.const_of(t)
        except NotConst:
            return default

    def norm(self, t):
        """replace self.<constant private attr> (``_section``) by its value"""
        def fn(x):
            a = self.self_attr(x)
            if a is not None and a.startswith("_") and self.cls is not None and a not in self.cls.properties:
                try:
                    v = self.model.class_attr_const(self.cls, a)
                except NotConst:
                    return None
                if isinstance(v, (str, int)):
                    return ("const", v)
            return None
        return T.subst(t, fn)

    def calls(self, name=None, on_self=None):
        """call events, optionally filtered by method/function name"""
        out = []
        for ev in self.events:
            if ev.kind != "call":
                continue
            f = ev.value[1]
            if name is not None:
                if f[0] == "attr" and f[2] == name:
                    pass
                elif f[0] == "global" and (f[1] == name or f[1].endswith("." + name)):
                    pass
                else:
                    continue
            if on_self is True and not (f[0] == "attr" and self.is_self(f[1])):
                continue
            out.append(ev)
        return out


def fctx(model, fref):
    return FCtx.get(model, fref)


# ---------------------------------------------------------------------------------------------------------
# metadata classes
# ---------------------------------------------------------------------------------------------------------
def metadata_classes(model):
    base = model.cls("common.MetadataBase")
    return [c for c in sorted(model.classes.values(), key=lambda c: c.qname) if base in c.mro() and c is not base]


def validator_methods(cls):
    """(defining ClassInfo, FunctionDef) of every _validate* method visible on cls (MRO, subclass wins)"""
    out = {}
    for c in reversed(cls.mro()):
        for name, fn in c.methods.items():
            if name.startswith("_validate"):
                out[name] = (c, fn)
    return out


# ---------------------------------------------------------------------------------------------------------
# validator table
# ---------------------------------------------------------------------------------------------------------
class Assertion(object):
    __slots__ = ("cls", "method", "field", "kind", "arg", "guards", "lineno", "defcls")

    def __init__(self, cls, defcls, method, field, kind, arg, guards, lineno):
        self.cls = cls
        self.defcls = defcls
        self.method = method
        self.field = field
        self.kind = kind
        self.arg = arg
        self.guards = guards
        self.lineno = lineno

    def __repr__(self):
        return "<%s.%s %s %s %r guards=%s>" % (self.cls.name, self.method, self.field, self.kind, self.arg,
                                                [(T.show(g[0]), g[1]) for g in self.guards])


ASSERT_HELPERS = {"_assert_type": "type", "_assert_value": "value", "_assert_not_blank": "not_blank",
                  "_assert_matches_re": "re"}


def _type_names(v):
    out = set()
    for x in (v if isinstance(v, (list, tuple, set)) else [v]):
        if isinstance(x, TypeMarker):
            out.add(x.name)
        elif isinstance(x, (list, tuple)):
            out |= _type_names(x)
        else:
            out.add(repr(x))
    return out


def _patterns(v):
    out = []
    for x in v:
        if isinstance(x, RegexConst):
            out.append(x.pattern)
        elif isinstance(x, str):
            out.append(x)
        else:
            raise NotConst("pattern list element %r" % (x,))
    return tuple(out)


def assertions_of(model, cls):
    """all assertions performed by validate() on an instance of cls"""
    out = []
    for name, (defcls, fn) in sorted(validator_methods(cls).items()):
        fref = FuncRef(defcls.module, defcls, fn)
        cx = fctx(model, fref)
        body_has_effect = False
        for ev in cx.events:
            if ev.kind == "call":
                f = ev.value[1]
                if f[0] == "attr" and cx.is_self(f[1]) and f[2] in ASSERT_HELPERS:
                    args = ev.value[2]
                    if not args or args[0][0] != "const":
                        raise AnalysisError("%s: %s() with a non-literal field name (line %s)" % (cx.qname, f[2], ev.lineno))
                    field = args[0][1]
                    kind = ASSERT_HELPERS[f[2]]
                    arg = None
                    try:
                        if kind == "type":
                            arg = frozenset(_type_names(cx.const_of(args[1])))
                        elif kind == "value":
                            arg = tuple(cx.const_of(args[1]))
                        elif kind == "re":
                            arg = _patterns(cx.const_of(args[1]))
                    except NotConst as e:
                        raise AnalysisError("%s: argument of %s(%r) cannot be folded: %s" % (cx.qname, f[2], field, e))
                    out.append(Assertion(cls, defcls, name, field, kind, arg, tuple(own_guards(cx, ev, kinds=("raise",))), ev.lineno))
                    body_has_effect = True
                elif f[0] == "global":
                    # a module-level checker applied to a field: verify_label(self.label)
                    r = model.resolve_name(defcls.module, f[1])
                    if r and r[0] == "func" and model.may_raise_validation(r[1]):
                        fields = []
                        for a in ev.value[2]:
                            fields.extend(cx.self_attrs_in(a))
                        for fld in fields:
                            out.append(Assertion(cls, defcls, name, fld, "call", r[1].qname, ev.guards, ev.lineno))
            elif ev.kind == "raise":
                exc = ev.value
                excname = None
                if exc[0] == "call" and exc[1][0] == "global":
                    excname = exc[1][1]
                fields = []
                guards_x = tuple(x for g_ in own_guards(cx, ev, kinds=("raise",)) for x in expand_exists_guard(g_))
                for g, pol in ev.guards:
                    for a in cx.self_attrs_in(g):
                        if a not in fields:
                            fields.append(a)
                for l in ev.loops:
                    for a in cx.self_attrs_in(l[1]):
                        if a not in fields:
                            fields.append(a)
                for fld in fields or ["<none>"]:
                    out.append(Assertion(cls, defcls, name, fld, "raise", excname, guards_x, ev.lineno))
                # explicit form of _assert_value:  if self.f not in TABLE: raise ValueError
                conds = [g for g in ev.guards if g[0][0] != "exc"]
                if conds and excname == "ValueError":
                    t, pol = T.strip_not(conds[-1][0], conds[-1][1])
                    if t[0] == "cmp" and len(t[1]) == 1 and ((t[1][0] == "not in" and pol) or (t[1][0] == "in" and not pol)):
                        fld = cx.self_attr(t[2][0])
                        if fld is not None:
                            try:
                                table = tuple(cx.const_of(t[2][1]))
                                out.append(Assertion(cls, defcls, name, fld, "value", table, tuple(conds[:-1]), ev.lineno))
                            except (NotConst, TypeError):
                                pass
    return out


# ---------------------------------------------------------------------------------------------------------
# output aliases of a writer (names through which the output container is reached)
# ---------------------------------------------------------------------------------------------------------
def _root_name(e):
    while isinstance(e, (ast.Attribute, ast.Subscript, ast.Call)):
        e = e.func if isinstance(e, ast.Call) else e.value
    return e.id if isinstance(e, ast.Name) else None


def rooted_aliases(func_node, roots):
    """names bound (anywhere in the function) to expressions rooted at one of ``roots``; fixpoint"""
    aliases = set(roots)
    changed = True
    while changed:
        changed = False
        for node in ast.walk(func_node):
            if isinstance(node, ast.Assign) and len(node.targets) == 1 and isinstance(node.targets[0], ast.Name):
                if _root_name(node.value) in aliases and node.targets[0].id not in aliases:
                    aliases.add(node.targets[0].id)
                    changed = True
    return aliases


# ---------------------------------------------------------------------------------------------------------
# version gates
# ---------------------------------------------------------------------------------------------------------
class GateSite(object):
    def __init__(self, fref, node, op, version, recv):
        self.fref = fref
        self.node = node          # ast.Compare
        self.op = op
        self.version = version
        self.recv = recv          # text of the receiver of .version_tuple

    @property
    def lineno(self):
        return self.node.lineno


CMP_FUNCS = {
    ast.Eq: lambda a, b: a == b, ast.NotEq: lambda a, b: a != b, ast.Lt: lambda a, b: a < b,
    ast.LtE: lambda a, b: a <= b, ast.Gt: lambda a, b: a > b, ast.GtE: lambda a, b: a >= b,
}
CMP_MIRROR = {ast.Lt: ast.Gt, ast.Gt: ast.Lt, ast.LtE: ast.GtE, ast.GtE: ast.LtE, ast.Eq: ast.Eq, ast.NotEq: ast.NotEq}


def gate_compare(node):
    """if ``node`` is ``<x>.version_tuple <op> (a, b)`` (either side) -> (recv_text, op_type, (a, b)) else None"""
    if not (isinstance(node, ast.Compare) and len(node.ops) == 1):
        return None
    l, r = node.left, node.comparators[0]
    op = type(node.ops[0])
    if isinstance(r, ast.Attribute) and r.attr == "version_tuple":
        l, r = r, l
        op = CMP_MIRROR.get(op)
    if not (isinstance(l, ast.Attribute) and l.attr == "version_tuple") or op not in CMP_FUNCS:
        return None
    try:
        v = ast.literal_eval(r)
    except Exception:
        return None
    if not (isinstance(v, tuple) and all(isinstance(x, int) for x in v)):
        return None
    return ast.unparse(l.value), op, v


def gate_sites(model):
    out = []
    for f in model.all_functions():
        for node in ast.walk(f.node):
            g = gate_compare(node)
            if g:
                out.append(GateSite(f, node, g[1], g[2], g[0]))
    return out


def eval_gate_test(test, version):
    """evaluate a boolean expression made of version_tuple comparisons for a concrete version.
    -> True/False, or None if the expression contains anything else"""
    g = gate_compare(test)
    if g:
        return CMP_FUNCS[g[1]](version, g[2])
    if isinstance(test, ast.BoolOp):
        vals = [eval_gate_test(v, version) for v in test.values]
        if any(v is None for v in vals):
            return None
        return all(vals) if isinstance(test.op, ast.And) else any(vals)
    if isinstance(test, ast.UnaryOp) and isinstance(test.op, ast.Not):
        v = eval_gate_test(test.operand, version)
        return None if v is None else (not v)
    return None


def version_grid(tier):
    minors = range(0, 10) if tier == "thorough" else range(0, 6)
    return [(a, b) for a in (0, 1, 2) for b in minors]


# ---------------------------------------------------------------------------------------------------------
# regex inventory
# ---------------------------------------------------------------------------------------------------------
def _fold_with_escapes(model, node, module):
    """fold a pattern expression in which every non-constant part is re.escape(<anything>): the escaped part is a
    literal string at run time, represented by the literal 'x'.  None if some other part is not constant."""
    class R(ast.NodeTransformer):
        def visit_Call(self, n):
            if dotted(n.func) == "re.escape":
                return ast.copy_location(ast.Constant("x"), n)
            return self.generic_visit(n)
    import copy
    n2 = R().visit(copy.deepcopy(node))
    ast.fix_missing_locations(n2)
    try:
        v = model.fold(n2, module)
    except NotConst:
        return None
    return v if isinstance(v, str) else None


def _transparent_decorator(dec, fn):
    """a decorator under which a call still means the function's body: staticmethod; and memoisation (functools.lru_cache / cache)
    of a function whose every result is immutable (a tuple built on the spot, a string, a number, a truth value) and which has no
    global statement - the cache is keyed by the arguments, so a hit returns what the body would compute"""
    d = dotted(dec.func if isinstance(dec, ast.Call) else dec) or ""
    if d == "staticmethod":
        return True
    if d in ("lru_cache", "functools.lru_cache", "cache", "functools.cache"):
        if any(isinstance(n, (ast.Global, ast.Nonlocal)) for n in ast.walk(fn)):
            return False
        rets = [n for n in ast.walk(fn) if isinstance(n, ast.Return)]
        def immutable(v):
            if v is None or isinstance(v, (ast.Constant, ast.JoinedStr, ast.Compare)):
                return True
            if isinstance(v, ast.Call) and dotted(v.func) in ("tuple", "str", "int", "bool", "float", "frozenset"):
                return True
            if isinstance(v, ast.Tuple):
                return all(immutable(e) for e in v.elts)
            return False
        return bool(rets) and all(immutable(r.value) for r in rets)
    return False


class RegexSite(object):
    dynamic = None

    def __init__(self, pattern, where, lineno, how, name=None, module=None):
        self.pattern = pattern
        self.where = where
        self.lineno = lineno
        self.how = how
        self.name = name
        self.module = module

    @property
    def site(self):
        return "productmd/%s.py:%s" % (self.module, self.lineno)

    @property
    def key(self):
        return "%s:%s" % (self.where, self.name or self.pattern)


RE_FUNCS = ("compile", "match", "search", "fullmatch", "split", "sub", "subn", "findall", "finditer")


def regex_sites(model):
    """every pattern handed to the re module, folded to a constant.  A pattern that cannot be folded is an
    AnalysisError, except inside the generic helper MetadataBase._assert_matches_re whose call sites are folded
    instead (their pattern lists are constants: checked by assertions_of)."""
    out = []
    seen_nodes = set()
    # module level: NAME = re.compile(...), and the LABEL_RE_LIST loop
    for m in model.modules.values():
        for name, assigns in m.assigns.items():
            try:
                v = model._module_const(m, name)
            except NotConst:
                continue
            items = v if isinstance(v, list) else [v]
            if items and all(isinstance(x, RegexConst) for x in items):
                for i, x in enumerate(items):
                    out.append(RegexSite(x.pattern, "%s.%s" % (m.name, name), assigns[-1].lineno, "compile",
                                         name=name if len(items) == 1 else "%s[%d]" % (name, i), module=m.name))
        for node in m.toplevel:
            if isinstance(node, (ast.FunctionDef, ast.ClassDef)):
                continue
            for sub in ast.walk(node):
                if isinstance(sub, ast.Call) and (dotted(sub.func) or "").startswith("re."):
                    seen_nodes.add(id(sub))
    # class bodies: a pattern bound to a class attribute is applied by whoever reads the attribute - a base class of the
    # standard library included (ConfigParser matches every line of a file against OPTCRE / SECTCRE of its subclass)
    for m in model.modules.values():
        for c in m.classes.values():
            for item in c.node.body:
                if isinstance(item, (ast.FunctionDef, ast.ClassDef)):
                    continue
                for sub in ast.walk(item):
                    if isinstance(sub, ast.Call) and (dotted(sub.func) or "").startswith("re.") and (dotted(sub.func) or "")[3:] in RE_FUNCS:
                        seen_nodes.add(id(sub))
                        if not sub.args:
                            raise AnalysisError("regex call without pattern at %s" % m.site(sub))
                        tname = None
                        if isinstance(item, ast.Assign) and len(item.targets) == 1 and isinstance(item.targets[0], ast.Name):
                            tname = item.targets[0].id
                        try:
                            pat = model.fold(sub, m) if dotted(sub.func) == "re.compile" else model.fold(sub.args[0], m)
                        except NotConst:
                            site = RegexSite(ast.unparse(sub.args[0]), c.qname, sub.lineno, "class attribute", name=tname, module=m.name)
                            site.dynamic = "unescaped"
                            out.append(site)
                            continue
                        if isinstance(pat, RegexConst):
                            pat = pat.pattern
                        if not isinstance(pat, str):
                            raise AnalysisError("regex pattern at %s is not a string" % m.site(sub))
                        out.append(RegexSite(pat, c.qname, sub.lineno, "class attribute", name=tname, module=m.name))
    # inside functions
    for f in model.all_functions():
        for node in ast.walk(f.node):
            if not isinstance(node, ast.Call) or id(node) in seen_nodes:
                continue
            d = dotted(node.func) or ""
            if d.startswith("re.") and d[3:] in RE_FUNCS:
                if not node.args:
                    raise AnalysisError("regex call without pattern at %s" % f.module.site(node))
                try:
                    pat = model.fold(node.args[0], f.module)
                except NotConst as e:
                    if f.qname == "common.MetadataBase._assert_matches_re":
                        continue
                    # a pattern that is a parameter of a helper (or drawn from one): every call site must pass constants, or pass
                    # on its own parameter, ending at _assert_matches_re (whose call sites are folded by assertions_of)
                    pd = _param_derived(f, node.args[0])
                    extra = []
                    if pd is not None and _pattern_param_flows(model, f, pd, 0, extra):
                        for (pat_, g_, ln_) in extra:
                            out.append(RegexSite(pat_, g_.qname, ln_, "passed to %s(%s)" % (f.node.name, d[3:]), module=g_.module.name))
                        continue
                    # a pattern built from run-time data: try again with every re.escape(<expr>) replaced by a literal
                    esc = _fold_with_escapes(model, node.args[0], f.module)
                    site = RegexSite(esc if esc is not None else ast.unparse(node.args[0]), f.qname, node.lineno, d[3:], module=f.module.name)
                    site.dynamic = "escaped" if esc is not None else "unescaped"
                    out.append(site)
                    continue
                if isinstance(pat, RegexConst):
                    pat = pat.pattern
                if not isinstance(pat, str):
                    raise AnalysisError("regex pattern at %s is not a string" % f.module.site(node))
                if len(node.args) > 2 and d[3:] in ("compile",) or any(k.arg == "flags" for k in node.keywords):
                    raise AnalysisError("regex flags at %s are not supported" % f.module.site(node))
                out.append(RegexSite(pat, f.qname, node.lineno, d[3:], module=f.module.name))
    # patterns given to _assert_matches_re
    for cls in metadata_classes(model):
        for a in assertions_of(model, cls):
            if a.kind == "re" and a.defcls is cls:
                for p in a.arg:
                    out.append(RegexSite(p, "%s.%s" % (cls.qname, a.method), a.lineno, "assert_matches_re(match)",
                                         module=cls.module.name))
    # de-duplicate identical (where, pattern)
    uniq = {}
    for s in out:
        uniq.setdefault((s.where, s.pattern, s.how), s)
    return sorted(uniq.values(), key=lambda s: (s.module, s.lineno, s.pattern))


def _param_derived(f, node):
    """the parameter of ``f`` the expression is (or is drawn from by a for loop): its name, else None"""
    if not isinstance(node, ast.Name):
        return None
    params = [a.arg for a in f.node.args.args + f.node.args.kwonlyargs]
    if node.id in params:
        # not reassigned in the function
        for n in ast.walk(f.node):
            if isinstance(n, ast.Name) and n.id == node.id and isinstance(n.ctx, ast.Store):
                return None
        return node.id
    srcs = set()
    for n in ast.walk(f.node):
        if isinstance(n, ast.Name) and n.id == node.id and isinstance(n.ctx, ast.Store):
            srcs.add(None)
    loops = [n for n in ast.walk(f.node) if isinstance(n, (ast.For, ast.comprehension)) and isinstance(n.target, ast.Name)
             and n.target.id == node.id]
    if len(loops) == 1 and len(srcs) == 1 and isinstance(loops[0].iter, ast.Name) and loops[0].iter.id in params:
        return loops[0].iter.id
    return None


def _pattern_param_flows(model, f, param, depth, found):
    if f.qname == "common.MetadataBase._assert_matches_re":
        return True
    if depth > 3:
        return False
    name = f.node.name
    params = [a.arg for a in f.node.args.args]
    is_method = f.cls is not None and name not in f.cls.staticmethods
    idx = params.index(param) - (1 if is_method else 0) if param in params else None
    sites = []
    for g in model.all_functions():
        for n in ast.walk(g.node):
            if isinstance(n, ast.Call) and ((isinstance(n.func, ast.Attribute) and n.func.attr == name)
                                            or (isinstance(n.func, ast.Name) and n.func.id == name)):
                sites.append((g, n))
    if not sites:
        return False
    for g, n in sites:
        arg = None
        for k in n.keywords:
            if k.arg == param:
                arg = k.value
        if arg is None and idx is not None and 0 <= idx < len(n.args) and not any(isinstance(a, ast.Starred) for a in n.args):
            arg = n.args[idx]
        if arg is None:
            return False
        try:
            v = model.fold(arg, g.module)
            items = v if isinstance(v, (list, tuple)) else [v]
            for x in items:
                if isinstance(x, RegexConst):
                    x = x.pattern
                if not isinstance(x, str):
                    return False
                found.append((x, g, n.lineno))
            continue
        except NotConst:
            pass
        pd = _param_derived(g, arg)
        if pd is None or not _pattern_param_flows(model, g, pd, depth + 1, found):
            return False
    return True


def module_regex(model, modname, name):
    v = model.const(modname, name)
    if not isinstance(v, RegexConst):
        raise AnalysisError("%s.%s is not a compiled regular expression" % (modname, name))
    return v.pattern


def function_regexes(model, fref):
    """patterns compiled/matched inside one function: [(pattern, how, lineno)]"""
    out = []
    for node in ast.walk(fref.node):
        if isinstance(node, ast.Call):
            d = dotted(node.func) or ""
            if d.startswith("re.") and d[3:] in RE_FUNCS and node.args:
                try:
                    pat = model.fold(node.args[0], fref.module)
                except NotConst:
                    continue
                if isinstance(pat, RegexConst):
                    pat = pat.pattern
                out.append((pat, d[3:], node.lineno))
    return out


# ---------------------------------------------------------------------------------------------------------
# writer / reader key tables
# ---------------------------------------------------------------------------------------------------------
def gate_term_value(t, version):
    """evaluate a condition *term* made of version_tuple comparisons at a concrete version; None if it is not one"""
    if t[0] == "cmp" and len(t[1]) == 1:
        l, r = t[2]
        op = t[1][0]
        mirror = {"<": ">", ">": "<", "<=": ">=", ">=": "<=", "==": "==", "!=": "!="}
        if r[0] == "attr" and r[2] == "version_tuple":
            l, r = r, l
            op = mirror.get(op)
        if l[0] == "attr" and l[2] == "version_tuple" and r[0] == "tuple" and all(x[0] == "const" for x in r[1]):
            v = tuple(x[1] for x in r[1])
            f = {"<": lambda a, b: a < b, ">": lambda a, b: a > b, "<=": lambda a, b: a <= b,
                 ">=": lambda a, b: a >= b, "==": lambda a, b: a == b, "!=": lambda a, b: a != b}.get(op)
            if f:
                return f(version, v)
    if t[0] == "unary" and t[1] == "not":
        v = gate_term_value(t[2], version)
        return None if v is None else (not v)
    if t[0] == "boolop":
        # three-valued: a version comparison conjoined with another condition is decided where the comparison decides it
        vals = [gate_term_value(x, version) for x in t[2]]
        if t[1] == "and":
            if any(v is False for v in vals):
                return False
            return True if all(v is True for v in vals) else None
        if any(v is True for v in vals):
            return True
        return False if all(v is False for v in vals) else None
    return None


_PROBE_VERSIONS = ((0, 0), (0, 3), (1, 0), (1, 1), (1, 2), (2, 0))


def is_pure_gate(t):
    """a condition made of version comparisons only"""
    return all(gate_term_value(t, v) is not None for v in _PROBE_VERSIONS)


def mentions_version(t):
    return T.contains(t, lambda x: x[0] == "attr" and x[2] == "version_tuple")


def active_at(ev, version):
    """False if some version gate guarding the event does not hold at ``version``"""
    for g, pol in ev.guards:
        if g[0] == "exc":
            continue
        v = simplify_at_version(g, version)
        if v[0] == "const" and bool(v[1]) != pol:
            return False
    return True


def pick_at_version(t, version):
    """``t`` with every conditional whose test is decided by the format version replaced by the branch taken at ``version``"""
    def pick(x):
        if x[0] in ("ifexp", "gate"):
            v = gate_term_value(x[1], version)
            if v is not None:
                return T.subst(x[2] if v else x[3], pick)
        return None
    return T.subst(t, pick)


def simplify_at_version(t, version):
    """a condition with its version comparisons evaluated at ``version`` (truth value only)"""
    v = gate_term_value(t, version)
    if v is not None:
        return ("const", bool(v))
    if t[0] == "unary" and t[1] == "not":
        x = simplify_at_version(t[2], version)
        return ("const", not x[1]) if x[0] == "const" else ("unary", "not", x)
    if t[0] == "boolop":
        absorbing = t[1] == "or"
        items = []
        for x in t[2]:
            x = simplify_at_version(x, version)
            if x[0] == "const":
                if bool(x[1]) == absorbing:
                    return ("const", absorbing)
                continue
            items.append(x)
        if not items:
            return ("const", not absorbing)
        return items[0] if len(items) == 1 else ("boolop", t[1], tuple(items))
    if t[0] in ("ifexp", "gate"):
        c = simplify_at_version(t[1], version)
        if c[0] == "const":
            return simplify_at_version(t[2] if c[1] else t[3], version)
    return t


def guards_at_version(ev, version):
    """the conditions of an event for a document of format ``version``: version comparisons evaluated, conditions that then hold
    trivially dropped; None when the event cannot happen at that version"""
    out = []
    for g in ev.guards:
        if g[0][0] == "exc":
            continue
        t = simplify_at_version(g[0], version)
        if t[0] == "const":
            if bool(t[1]) != g[1]:
                return None
            continue
        t, pol = T.strip_not(t, g[1])
        out.append((t, pol))
    return out


def non_gate_guards(ev):
    return [g for g in ev.guards if g[0][0] != "exc" and not is_pure_gate(g[0])]


def access_path(t, root):
    """keys leading from ``root`` to t through subscripts and setdefault() calls; None if t is not such a path"""
    path = []
    while True:
        if t == root:
            return list(reversed(path))
        if t[0] == "sub":
            path.append(t[2])
            t = t[1]
        elif t[0] == "call" and t[1][0] == "attr" and t[1][2] == "setdefault" and len(t[2]) == 2:
            path.append(t[2][0])
            t = t[1][1]
        else:
            return None


class Emit(object):
    __slots__ = ("path", "value", "guards", "loops", "ev", "kind")

    def __init__(self, path, value, guards, loops, ev, kind="store"):
        self.path = path
        self.value = value
        self.guards = guards
        self.loops = loops
        self.ev = ev
        self.kind = kind

    def key(self):
        return tuple(T.show(p) for p in self.path)

    def __repr__(self):
        return "<emit %s %s := %s |%s>" % (self.kind, "/".join(T.show(p) for p in self.path), T.show(self.value)[:100],
                                           [(T.show(g[0])[:60], g[1]) for g in self.guards])


def emit_raw(e):
    """the gated (path-sensitive) form of the value an Emit writes, for Scenario.term(); None when it is not a single term"""
    if e.kind == "set" and e.ev.kind == "call" and len(e.ev.raw[2]) >= 3:
        return e.ev.raw[2][2]
    if e.kind == "store" and e.ev.kind == "store":
        return e.ev.raw
    if e.kind == "append" and e.ev.kind == "call" and e.ev.raw[2]:
        return e.ev.raw[2][0]
    return None


def writer_emits(model, fref, out_index=1):
    """everything a writer puts into its output parameter: [Emit]"""
    if fref.cls is not None and not getattr(fref, "exact", False):
        # "the writer of class K": calls on self dispatch to what K sees (a hook method a subclass overrides is K's own here)
        fref = FuncRef(fref.module, fref.cls, fref.node, exact=True)
    cx = fctx(model, fref)
    if len(cx.params) <= out_index:
        raise AnalysisError("%s has no output parameter" % fref.qname)
    OUT = ("param", cx.params[out_index])
    emits = []
    local_items = {}      # (name, alloc) -> [(keypath, value, guards, loops, ev)]
    attach = []           # (local term, path, guards, loops, ev)

    def add_local_init(loc, prefix, guards, loops, ev):
        init = loc[3]
        if init[0] == "dict":
            for k, v in init[1]:
                local_items.setdefault(loc[1:3], []).append((prefix + [k], v, guards, loops, ev))

    def local_path(t):
        """(local, keys) if t is an access path rooted at a local container"""
        path = []
        while True:
            if t[0] == "local":
                return t, list(reversed(path))
            if t[0] == "sub":
                path.append(t[2])
                t = t[1]
            elif t[0] == "call" and t[1][0] == "attr" and t[1][2] == "setdefault" and len(t[2]) == 2:
                path.append(t[2][0])
                t = t[1][1]
            else:
                return None, None
    seen_init = set()
    for ev in cx.events:
        if ev.kind == "bind" and ev.value[0] == "local" and ev.value[1:3] not in seen_init:
            seen_init.add(ev.value[1:3])
            add_local_init(ev.value, [], ev.guards, ev.loops, ev)
    for ev in cx.events:
        if ev.kind == "store":
            p = access_path(ev.target, OUT)
            if p is not None:
                if ev.value[0] == "local":
                    attach.append((ev.value, p, ev.guards, ev.loops, ev))
                    emits.append(Emit([cx.norm(x) for x in p], ("dict", ()) if T.unwrap(ev.value) == ("dict", ()) else cx.norm(ev.value),
                                      ev.guards, ev.loops, ev))
                elif ev.value[0] == "dict" and ev.value[1] and all(k[0] == "const" and k[1] != "**" for k, _ in ev.value[1]):
                    # out[section] = {"k": v, ...}: the section, and each key in it
                    emits.append(Emit([cx.norm(x) for x in p], ("dict", ()), ev.guards, ev.loops, ev))
                    for k, v in ev.value[1]:
                        emits.append(Emit([cx.norm(x) for x in p] + [k], cx.norm(v), ev.guards, ev.loops, ev))
                else:
                    emits.append(Emit([cx.norm(x) for x in p], cx.norm(ev.value), ev.guards, ev.loops, ev))
                continue
            loc, keys = local_path(ev.target)
            if loc is not None:
                local_items.setdefault(loc[1:3], []).append((keys, ev.value, ev.guards, ev.loops, ev))
        elif ev.kind == "call":
            f = ev.value[1]
            if f[0] != "attr":
                continue
            recv, meth = f[1], f[2]
            args = ev.value[2]
            rp = access_path(recv, OUT)
            if rp is not None:
                if meth == "set" and len(args) == 3:
                    emits.append(Emit([cx.norm(args[0]), cx.norm(args[1])], cx.norm(args[2]), ev.guards, ev.loops, ev, "set"))
                elif meth == "add_section" and len(args) == 1:
                    emits.append(Emit([cx.norm(args[0])], ("dict", ()), ev.guards, ev.loops, ev, "section"))
                elif meth == "append" and len(args) == 1:
                    if args[0][0] == "local":
                        attach.append((args[0], rp + [("const", "[]")], ev.guards, ev.loops, ev))
                    else:
                        emits.append(Emit([cx.norm(x) for x in rp] + [("const", "[]")], cx.norm(args[0]), ev.guards, ev.loops, ev, "append"))
                elif meth == "setdefault" and len(args) == 2 and args[1][0] == "local":
                    attach.append((args[1], rp + [args[0]], ev.guards, ev.loops, ev))
            # nested writers:  x.serialize(<something reaching OUT or a local>)
            if meth == "serialize" and args:
                ap = access_path(args[0], OUT)
                if ap is not None:
                    emits.append(Emit([cx.norm(x) for x in ap], ("call", f, (), ()), ev.guards, ev.loops, ev, "nested"))
                else:
                    loc, keys = local_path(args[0])
                    if loc is not None:
                        local_items.setdefault(loc[1:3], []).append((keys, ("call", f, (), ()), ev.guards, ev.loops, ev, "nested"))
    for loc, path, guards, loops, ev in attach:
        for item in local_items.get(loc[1:3], []):
            keys, value, g2, l2, ev2 = item[:5]
            kind = item[5] if len(item) > 5 else "store"
            emits.append(Emit([cx.norm(x) for x in path + keys], cx.norm(value), tuple(g2), tuple(l2), ev2, kind))
    # ``section = {}; <keys put into section, some in a loop over a field table, some under a condition>; out[name] = section``:
    # the keys were lifted to out[name][k] above; the store of the local itself is then the creation of the (so far empty) section
    for e in emits:
        if e.kind == "store" and e.value is not None and e.value[0] == "local" and any(
                o is not e and len(o.path) == len(e.path) + 1 and o.path[:len(e.path)] == e.path for o in emits):
            init = e.value[3] if len(e.value) > 3 else None
            if init is None or init == ("dict", ()) or (isinstance(init, tuple) and init and init[0] == "dict"):
                e.value = ("dict", ())
    S_ = ("param", cx.selfname) if cx.selfname else None
    for e in emits:
        v = e.value
        if e.kind == "store" and v is not None and v[0] == "call" and v[1][0] == "attr" and v[1][1] == S_ and fref.cls is not None \
                and any(v[1][2] in c.methods for c in model.subclasses(fref.cls)):
            # a whole section handed over by a hook method that subclasses override (template method): which body runs depends on
            # the receiver's class, which this extraction does not specialise - undecided, not a verdict
            raise AnalysisError("%s stores the result of self.%s(), which subclasses override: the section's keys are not followed "
                                "through the dynamic dispatch" % (fref.qname, v[1][2]))
    return cx, emits


class Read(object):
    __slots__ = ("attr", "value", "sources", "guards", "loops", "ev", "via")

    def __init__(self, attr, value, sources, guards, loops, ev, via):
        self.attr = attr
        self.value = value
        self.sources = sources      # [(path, access, default, term)]
        self.guards = guards
        self.loops = loops
        self.ev = ev
        self.via = via              # qualified name of the function containing the store

    def __repr__(self):
        return "<read self.%s := %s from %s |%s>" % (self.attr, T.show(self.value)[:100],
                                                    [("/".join(T.show(p) for p in s[0]), s[1]) for s in self.sources],
                                                    [(T.show(g[0])[:50], g[1]) for g in self.guards])


INI_GETTERS = ("get", "getint", "getfloat", "getboolean")


def source_accesses(cx, t, IN):
    """accesses of the input document inside term t: [(path, access, default, term)]
    access: 'hard' (KeyError / NoOptionError when missing) | 'soft' (default)"""
    out = []
    ini = cx.module.name == "treeinfo"      # the input is a ConfigParser, not a dict

    def visit(x):
        if not isinstance(x, tuple) or not x or x[0] == "const":
            return
        # JSON soft:  <path>.get(key, default)
        if x[0] == "call" and x[1][0] == "attr" and x[1][2] == "get":
            base = access_path(x[1][1], IN)
            if base is not None and 1 <= len(x[2]) <= 2 and (x[1][1] != IN or not ini):
                default = x[2][1] if len(x[2]) == 2 else ("const", None)
                out.append(([cx.norm(p) for p in base] + [cx.norm(x[2][0])], "soft", default, cx.norm(x)))
                return
            # nested soft:  <soft>.get(key, default)
            inner = []
            sub_src = source_accesses(cx, x[1][1], IN)
            if sub_src and x[1][1][0] == "call" and 1 <= len(x[2]) <= 2:
                p0 = sub_src[0]
                default = x[2][1] if len(x[2]) == 2 else ("const", None)
                out.append((p0[0] + [cx.norm(x[2][0])], "soft", default, cx.norm(x)))
                return
        # INI:  parser.get*(section, key)
        if ini and x[0] == "call" and x[1][0] == "attr" and x[1][1] == IN and x[1][2] in INI_GETTERS and len(x[2]) == 2:
            out.append(([cx.norm(x[2][0]), cx.norm(x[2][1])], "hard", None, cx.norm(x)))
            return
        if x[0] == "call" and x[1][0] == "attr" and x[1][1] == IN and x[1][2] == "option_lookup":
            out.append(([("const", "<lookup>")], "soft", x[2][1] if len(x[2]) > 1 else ("const", None), cx.norm(x)))
            return
        # JSON hard:  IN[a][b]
        if x[0] == "sub":
            p = access_path(x, IN)
            if p is not None and p:
                out.append(([cx.norm(k) for k in p], "hard", None, cx.norm(x)))
                return
        for c in T.children(x):
            visit(c)
    visit(t)
    return out


def reader_reads(model, fref, in_index=1, version=None, inline=True, _depth=0):
    """stores into fields of self made by a reader (and by the self.deserialize_* helpers it calls that are active at
    ``version``): [Read]"""
    cx = fctx(model, fref)
    if len(cx.params) <= in_index:
        raise AnalysisError("%s has no input parameter" % fref.qname)
    IN = ("param", cx.params[in_index])
    reads = []
    for ev in cx.events:
        if version is not None and not active_at(ev, version):
            continue
        if ev.kind == "store":
            attr = cx.self_attr(ev.target)
            tgt = ev.target
            if attr is None:
                # self.x[...] = v / self.x[...][...] = v
                base = tgt
                while base[0] == "sub":
                    base = base[1]
                attr = cx.self_attr(base)
                if attr is None:
                    continue
            val = ev.value
            # entry-by-entry copy of a mapping of the document:  for k in D: self.x[k] = D[k]   ==   self.x = dict(D)
            if tgt[0] == "sub" and cx.self_attr(tgt[1]) is not None and ev.loops and tgt[2] == ("elem", ev.loops[-1][1], ev.loops[-1][0]) \
                    and val == ("sub", T.unwrap(ev.loops[-1][1]), tgt[2]) and not own_guards(cx, ev):
                D = T.unwrap(ev.loops[-1][1])
                reset = [e2 for e2 in cx.events if e2.kind == "store" and e2.target == tgt[1] and e2.seq < ev.seq
                         and T.unwrap(e2.value) == ("dict", ())]
                if reset and source_accesses(cx, D, IN):
                    reads[:] = [r for r in reads if r.ev is not reset[-1]]
                    reads.append(Read(attr, cx.norm(D), source_accesses(cx, D, IN), non_gate_guards(ev), ev.loops[:-1], ev, fref.qname))
                    continue
            raw = getattr(ev, "raw", None)
            if val[0] == "ifexp" or (raw is not None and raw[0] == "gate"):
                # x = A if test else B   ==   if test: x = A  else: x = B   (and so is a value merged from two branches)
                split = val if val[0] == "ifexp" else raw
                test = T.degate(split[1])
                for branch, pol in ((T.degate(split[2]), True), (T.degate(split[3]), False)):
                    if version is not None and gate_term_value(test, version) not in (None, pol):
                        continue
                    src = source_accesses(cx, branch, IN)
                    extra_g = [] if is_pure_gate(test) else [(test, pol)]
                    reads.append(Read(attr, cx.norm(branch), src, non_gate_guards(ev) + extra_g, ev.loops, ev, fref.qname))
                continue
            src = source_accesses(cx, val, IN)
            reads.append(Read(attr, cx.norm(val), src, non_gate_guards(ev), ev.loops, ev, fref.qname))
        elif ev.kind == "call":
            f = ev.value[1]
            if f == ("global", "setattr") and len(ev.value[2]) == 3 and cx.is_self(ev.value[2][0]):
                src = source_accesses(cx, ev.value[2][2], IN)
                reads.append(Read(ev.value[2][1], cx.norm(ev.value[2][2]), src, non_gate_guards(ev), ev.loops, ev, fref.qname))
            elif inline and f[0] == "attr" and cx.is_self(f[1]) and f[2].startswith("deserialize_") and _depth < 2:
                lk = fref.cls.lookup(f[2]) if fref.cls else None
                if lk:
                    sub = FuncRef(lk[0].module, lk[0], lk[1])
                    reads.extend(reader_reads(model, sub, in_index, version, inline, _depth + 1))
    return reads


# ---------------------------------------------------------------------------------------------------------
# canonical guards / small folding (so that equivalent spellings of a condition compare equal)
# ---------------------------------------------------------------------------------------------------------
_POS = {"not in": "in", "is not": "is", "!=": "=="}


def canon_guard(g):
    """(test, polarity) with negations stripped and negative comparison operators turned positive"""
    t, pol = T.strip_not(g[0], g[1])
    if t[0] == "cmp" and len(t[1]) == 1 and t[1][0] in _POS:
        t = ("cmp", (_POS[t[1][0]],), t[2])
        pol = not pol
    if t[0] == "cmp" and len(t[1]) == 1 and t[1][0] in ("==", "is"):
        # symmetric operators: order the operands
        a, b = t[2]
        if T.show(b) < T.show(a):
            t = ("cmp", t[1], (b, a))
    return (t, pol)


def canon_guards(guards, drop_exc=True):
    return frozenset(canon_guard(g) for g in guards if not (drop_exc and g[0][0] == "exc"))


def has_guard(ev, test, pol):
    """the event is guarded by ``test`` with polarity ``pol`` (modulo spelling)"""
    return canon_guard((test, pol)) in canon_guards(ev.guards)


def fold_small(t):
    """constant value of small arithmetic terms: -4, -len('.rpm'), len('images-') ...; None if not constant"""
    if t is None:
        return None
    if t[0] == "const":
        return t[1]
    if t[0] == "unary" and t[1] == "-":
        v = fold_small(t[2])
        return -v if isinstance(v, (int, float)) else None
    if t[0] == "call" and t[1] == ("global", "len") and len(t[2]) == 1:
        v = fold_small(t[2][0])
        return len(v) if isinstance(v, (str, list, tuple)) else None
    if t[0] == "binop" and t[1] in ("+", "-", "*", "**", "//", "<<"):
        a, b = fold_small(t[2]), fold_small(t[3])
        if isinstance(a, int) and isinstance(b, int) and t[1] in ("*", "**", "//", "<<") and not isinstance(a, bool):
            if t[1] == "*":
                return a * b
            if t[1] == "**" and 0 <= b <= 64 and abs(a) <= 1 << 32:
                return a ** b
            if t[1] == "//" and b != 0:
                return a // b
            if t[1] == "<<" and 0 <= b <= 64:
                return a << b
            return None
        if isinstance(a, (int, float)) and isinstance(b, (int, float)) and t[1] in ("+", "-"):
            return a + b if t[1] == "+" else a - b
        if isinstance(a, str) and isinstance(b, str) and t[1] == "+":
            return a + b
    return None


def flat_atoms(guards):
    """the guards of an event as a flat conjunction of (term, polarity) atoms: `if a and b` and `if a: if b` alike"""
    out = []
    for g in guards:
        t, pol = T.strip_not(g[0], g[1])
        if pol and t[0] == "boolop" and t[1] == "and":
            for x in t[2]:
                out.append(T.strip_not(x, True))
        elif not pol and t[0] == "boolop" and t[1] == "or":
            for x in t[2]:
                out.append(T.strip_not(x, False))
        else:
            out.append((t, pol))
    return out


def canon_guard_pair(g):
    """(term, polarity) with negations stripped and negative comparison operators turned positive"""
    t, pol = T.strip_not(g[0], g[1])
    if t[0] == "cmp" and len(t[1]) == 1 and t[1][0] in _POS:
        t, pol = ("cmp", (_POS[t[1][0]],), t[2]), not pol
    return t, pol


def arg_of(call, name, pos):
    """the argument a call passes for parameter ``name`` (position ``pos`` among the positional ones, self not counted), by
    keyword or by position; None when it passes none"""
    kws = dict(call[3])
    if name in kws:
        return kws[name]
    return call[2][pos] if len(call[2]) > pos and call[2][pos][0] != "starred" else None


def own_guards(cx, ev, kinds=("raise", "return", "continue", "break")):
    """guards of an event that are real conditions of it, i.e. not merely the negation of an earlier early exit
    (``if bad: raise`` / ``if done: return`` / ``continue``) in the same block.  ``kinds`` restricts which early exits count
    (in a validator only an earlier *raise* is harmless: the value is refused anyway; an earlier return skips checks)"""
    out = []
    exits = [e for e in cx.events if e.kind in kinds]
    for i, g in enumerate(ev.guards):
        if g[0][0] == "exc":
            continue
        neg = (g[0], not g[1])
        early = False
        for e in exits:
            if e.seq < ev.seq and len(e.guards) > i and tuple(e.guards[:i]) == tuple(ev.guards[:i]) and e.guards[i] == neg:
                early = True
                break
        if not early and not g[1] and g[0][0] == "boolop" and g[0][1] == "and":
            # the exit sits deeper (``if a: if b: raise`` / the last else of a ladder): the conjunction of all its conditions
            want = frozenset(canon_guard(a) for a in flat_atoms([(g[0], True)]))
            for e in exits:
                if e.seq < ev.seq and len(e.guards) > i and tuple(e.guards[:i]) == tuple(ev.guards[:i]) \
                        and frozenset(canon_guard(a) for a in flat_atoms(x for x in e.guards[i:] if x[0][0] != "exc")) == want:
                    early = True
                    break
        if not early:
            out.append(g)
    return out


# ---- "search a collection, raise when nothing matches" in any of its spellings ---------------------------------------------
class Search(object):
    """``raise_ev`` is raised exactly when no element ``elem`` of ``coll`` satisfies ``test`` (a term over ``elem``)"""
    def __init__(self, coll, elem, test, raise_ev, form, found_ev=None):
        self.coll, self.elem, self.test, self.raise_ev, self.form, self.found_ev = coll, elem, test, raise_ev, form, found_ev

    def __repr__(self):
        return "<Search %s over %s: %s>" % (self.form, T.show(self.coll), T.show(self.test))


def _rel_guards(cx, ev, lid):
    """guards of an event inside loop ``lid`` relative to the loop statement (None if they do not extend the loop's guards)"""
    base = tuple(cx.ex.loop_guards.get(lid, ()))
    gs = tuple(g for g in ev.guards)
    if gs[:len(base)] != base:
        return None
    return gs[len(base):]


def searches(cx):
    """recognise: (a) flag + break + ``if not flag: raise``; (b) ``return`` inside the loop + ``raise`` after it; (c) for/else
    (desugared to (a) by the extractor); (d) ``if not any(<test> for x in coll): raise``.  Only loops at the outermost
    level of the function are considered."""
    out = []
    raises = [ev for ev in cx.events if ev.kind == "raise" and not ev.loops]
    loops = {}
    for ev in cx.events:
        if len(ev.loops) == 1:
            loops.setdefault(ev.loops[0][0], ev.loops[0][1])
    for r in raises:
        own = own_guards(cx, r)
        # (d) any(...): ``if not any(..): raise``, or ``if any(..): return`` followed by the raise
        own_d, form_d = own, "any"
        if not own:
            own_d = own_guards(cx, r, kinds=("raise", "continue", "break"))
            form_d = "return"
            early = [e for e in cx.events if e.kind == "return" and e.seq < r.seq and len(own_d) == 1 and len(e.guards) == len(r.guards)
                     and e.guards[:-1] == r.guards[:-1] and e.guards[-1] == (r.guards[-1][0], not r.guards[-1][1])]
            if len(own_d) != 1 or not early or any(e.value != ("const", None) for e in early):
                own_d = []
        if own_d:
            t, pol = T.strip_not(own_d[-1][0], own_d[-1][1])
            if not pol and t[0] == "call" and t[1] == ("global", "any") and len(t[2]) == 1 and t[2][0][0] == "comp" \
                    and len(t[2][0][3]) == 1 and not t[2][0][3][0][2] and len(t[2][0][3][0][0]) == 2 and len(own_d) == 1:
                comp = t[2][0]
                name = comp[3][0][0][1]
                elem = ("elem", comp[3][0][1], "any")
                test = T.bool_form(T.subst(comp[2], lambda x: elem if x == ("bound", name) else None))
                out.append(Search(comp[3][0][1], elem, test, r, form_d))
                continue
        # (e) ``v = next((f(x) for x in coll if test(x)), None)`` and ``if v is None: raise``
        if len(own) == 1:
            t, pol = canon_guard_pair(own[0])
            if pol and t[0] == "cmp" and t[1] == ("is",) and ("const", None) in t[2]:
                v = [y for y in t[2] if y != ("const", None)]
                if len(v) == 1 and v[0][0] == "call" and v[0][1] == ("global", "next") and len(v[0][2]) == 2 and v[0][2][1] == ("const", None) \
                        and v[0][2][0][0] == "comp" and v[0][2][0][1] == "gen" and len(v[0][2][0][3]) == 1:
                    comp = v[0][2][0]
                    name = comp[3][0][0][1]
                    elem = ("elem", comp[3][0][1], "next")
                    put = lambda z: T.subst(z, lambda x: elem if x == ("bound", name) else None)
                    conds = tuple(put(c) for c in comp[3][0][2])
                    test = ("const", True) if not conds else conds[0] if len(conds) == 1 else ("boolop", "and", conds)
                    sr = Search(comp[3][0][1], elem, test, r, "next")
                    sr.value, sr.term = put(comp[2]), v[0]
                    out.append(sr)
                    continue
        for lid, coll in loops.items():
            base = tuple(cx.ex.loop_guards.get(lid, ()))
            in_loop = [ev for ev in cx.events if ev.loops and ev.loops[0][0] == lid]
            if not in_loop or in_loop[-1].seq > r.seq:
                continue
            elem = ("elem", coll, lid)
            # (b) return in the loop, raise after it under the same guards as the loop
            rets = [ev for ev in in_loop if ev.kind == "return" and len(ev.loops) == 1]
            if rets and canon_guards(own) == canon_guards(own_guards(cx, _FakeEv(base, r.seq))):
                if len(rets) == 1:
                    rel = _rel_guards(cx, rets[0], lid)
                    if rel is not None and len(rel) == 1 and rel[0][1] is True:
                        out.append(Search(coll, elem, rel[0][0], r, "return", rets[0]))
                        continue
                else:
                    # several returns: found when any of their conditions holds
                    tests = []
                    for rt in rets:
                        rel = _rel_guards(cx, rt, lid)
                        if rel is None or not rel:
                            tests = None
                            break
                        conds = tuple(t if pol else ("unary", "not", t) for t, pol in rel)
                        tests.append(conds[0] if len(conds) == 1 else ("boolop", "and", conds))
                    if tests:
                        out.append(Search(coll, elem, ("boolop", "or", tuple(tests)), r, "return", rets[0]))
                        continue
            # (a)/(c) flag set in the loop (with or without break), raise guarded by the flag
            if own:
                t, pol = T.strip_not(own[-1][0], own[-1][1])
                if t[0] == "phi" and all(a in (("const", True), ("const", False)) or a[0] == "carried" for a in t[1]) \
                        and canon_guards(own[:-1]) == canon_guards(own_guards(cx, _FakeEv(base, r.seq))):
                    sets = [ev for ev in in_loop if ev.kind == "bind" and ev.value in (("const", True), ("const", False))
                            and len(ev.loops) == 1]
                    # the value that lets the raise happen is the flag's initial ("nothing found yet") value
                    sets = [ev for ev in sets if ev.value == ("const", not pol)]
                    if len(sets) == 1 and ("const", pol) in t[1]:
                        rel = _rel_guards(cx, sets[0], lid)
                        if rel is not None and len(rel) == 1 and rel[0][1] is True:
                            out.append(Search(coll, elem, rel[0][0], r, "flag", sets[0]))
                            continue
    return out


class _FakeEv(object):
    def __init__(self, guards, seq):
        self.guards, self.seq = tuple(guards), seq


def bool_reduce(t, assign):
    """evaluate a truth-valued term under a partial assignment of atoms (dict term -> bool); returns True / False / a residual
    term.  and/or/not/ifexp are interpreted, everything else is an atom."""
    if t in assign:
        return assign[t]
    k = t[0]
    if k == "const":
        return bool(t[1])
    if k == "unary" and t[1] == "not":
        v = bool_reduce(t[2], assign)
        return (not v) if isinstance(v, bool) else ("unary", "not", v)
    if k == "boolop":
        rest = []
        for x in t[2]:
            v = bool_reduce(x, assign)
            if isinstance(v, bool):
                if t[1] == "and" and not v:
                    return False
                if t[1] == "or" and v:
                    return True
                continue
            if v not in rest:
                rest.append(v)
        if not rest:
            return t[1] == "and"
        return rest[0] if len(rest) == 1 else ("boolop", t[1], tuple(rest))
    if k == "ifexp":
        c = bool_reduce(t[1], assign)
        if isinstance(c, bool):
            return bool_reduce(t[2] if c else t[3], assign)
        return ("ifexp", c, bool_reduce(t[2], assign), bool_reduce(t[3], assign))
    return t


# ---- a collection built from loops, whatever the spelling ------------------------------------------------------------------
class Collect(object):
    """{ elt : for el_1 in it_1 for el_2 in it_2 ... if conds }  -- from a comprehension or from a local container filled by
    .add/.append in (nested) loops.  ``els`` are the element terms the rule can use to state what ``elt`` must be."""
    def __init__(self, kind, elt, gens, conds, ev=None):
        self.kind, self.elt, self.gens, self.conds, self.ev = kind, elt, gens, conds, ev

    @property
    def els(self):
        return [g[0] for g in self.gens]

    @property
    def its(self):
        return [g[1] for g in self.gens]

    def __repr__(self):
        return "<Collect %s %s %s if %s>" % (self.kind, T.show(self.elt), [(T.show(a), T.show(b)) for a, b in self.gens],
                                           [T.show(c) for c in self.conds])


def collections_of(cx, term):
    """every way ``term`` is filled, as Collect objects; [] when the term is not a recognisable collection.  A container that is
    also cut short (break/return inside the filling loop) is reported with a ('cut',) condition."""
    out = []
    u = T.unwrap(term)
    # set(<comp>) / list(<comp>) / sorted(<comp>)
    while u[0] == "call" and u[1] in (("global", "set"), ("global", "list"), ("global", "sorted"), ("global", "frozenset"),
                                      ("global", "tuple")) and len(u[2]) == 1 and not u[3]:
        u = T.unwrap(u[2][0])
    if u[0] == "comp":
        gens = [(("bound", g[0][1]), g[1]) for g in u[3]]
        conds = [c for g in u[3] for c in g[2]]
        out.append(Collect(u[1], u[2], gens, conds))
    if term[0] == "local":
        for ev in cx.events:
            if ev.kind == "call" and ev.value[1][0] == "attr" and ev.value[1][2] in ("add", "append") \
                    and ev.value[1][1][0] == "local" and T.same_local(ev.value[1][1], term) and len(ev.value[2]) == 1:
                gens = [(("elem", l[1], l[0]), l[1]) for l in ev.loops]
                conds = [g[0] if g[1] else ("unary", "not", g[0]) for g in own_guards(cx, ev)]
                lids = set(l[0] for l in ev.loops)
                if [e for e in cx.events if e.kind in ("break", "return") and set(l[0] for l in e.loops) & lids]:
                    conds.append(("unknown", "cut"))
                out.append(Collect(ev.value[1][2], ev.value[2][0], gens, conds, ev))
    return out


def value_under(cx, decide, past_refusals=False):
    """the values the function can return on the paths described by ``decide`` (see T.truth): return statements whose guards
    contradict the scenario are dropped, gates and conditional expressions with a decided test are resolved.  With
    ``past_refusals`` the conditions that are merely the negation of an earlier ``raise`` are not held against a return (the
    question is what is returned when nothing was refused)"""
    out = []
    for ev in cx.events:
        if ev.kind != "return":
            continue
        keep = set(range(len(ev.raw_guards)))
        if past_refusals:
            real = own_guards(cx, ev, kinds=("raise",))
            keep = set(i for i, g in enumerate(ev.guards) if g in real)
        if any(T.truth(g[0], decide) is (not g[1]) for i, g in enumerate(ev.raw_guards) if i in keep):
            continue
        v = _resolve_joins(cx, T.select(ev.raw, decide), decide, ev.seq)
        if v not in out:
            out.append(v)
    return out


def _resolve_joins(cx, t, decide, at_seq):
    """sep.join(<local list built from a literal and unconditional-or-decided appends>) -> the string it builds"""
    def fn(x):
        if not (x[0] == "call" and x[1][0] == "attr" and x[1][2] == "join" and x[1][1][0] == "const" and isinstance(x[1][1][1], str)
                and len(x[2]) == 1 and x[2][0][0] == "local" and x[2][0][3][0] == "list"):
            return None
        loc = x[2][0]
        items = [T.select(i, decide) for i in loc[3][1]]
        for ev in cx.events:
            if ev.seq >= at_seq:
                break
            touches = (ev.kind == "call" and ev.value[1][0] == "attr" and ev.value[1][1][0] == "local" and T.same_local(ev.value[1][1], loc)) \
                or (ev.kind in ("store", "del") and ev.target is not None and T.contains(ev.target, lambda y: y[0] == "local" and T.same_local(y, loc)))
            if not touches:
                continue
            if ev.kind != "call" or ev.value[1][2] != "append" or ev.loops or len(ev.value[2]) != 1:
                return None
            truths = [T.truth(g[0], decide) for g in ev.raw_guards]
            if any(v is None for v in truths):
                return None
            if all(v is g[1] for v, g in zip(truths, ev.raw_guards)):
                items.append(T.select(ev.raw[2][0], decide))
        parts = []
        for i, it in enumerate(items):
            if i:
                parts.append(x[1][1][1])
            parts.append(it)
        return T.fmt(*parts)
    return T.canon(T.subst(t, fn))


def atoms_decider(table, default=None):
    """decide() for T.truth / T.select from a table {atom term: bool}; structural terms (not/and/or/conditionals) are left to be
    interpreted; other atoms get ``default``"""
    def decide(t):
        if t in table:
            return table[t]
        if t[0] in ("unary", "boolop", "ifexp", "gate", "const"):
            return None
        if t[0] == "cmp" and len(t[1]) == 1 and t[1][0] in ("is not", "!=", "not in"):
            return None
        return default
    return decide


# ---- scenario evaluation: what the function does on the paths selected by an assumption ------------------------------------
class Scenario(object):
    """An assumption about one call: truth values for atomic conditions (``atoms``: {term: bool}, other atoms: ``default``) and
    concrete values for some terms (``subst``: {term: ('const', v)}).  Terms are evaluated by substituting, folding lookups in
    module-level constant tables and comparisons of constants, and resolving gates / conditional expressions whose test is
    decided.  This is constant folding over the def-use terms -- nothing of the repository is executed."""

    def __init__(self, cx, atoms=None, default=None, subst=None):
        self.cx = cx
        self.atoms = dict(atoms or {})
        for k, v in list(self.atoms.items()):
            self.atoms[canon_guard((k, True))[0]] = v if canon_guard((k, True))[1] else (not v)
        self.default = default
        self.map = dict(subst or {})
        # the same atoms after constant folding (len('.rpm') -> 4 ...), since conditions are looked up folded
        for k, v in list(self.atoms.items()):
            fk = self._fold(k)
            if fk != k:
                self.atoms[fk] = v
                c, pol = canon_guard((fk, True))
                self.atoms[c] = v if pol else (not v)

    def assume_context(self, ev):
        """additionally assume every not yet decided condition under which ``ev`` happens (its enclosing context)"""
        for g in ev.raw_guards:
            if g[0][0] == "exc":
                continue
            if self.truth(g[0]) is None:
                c, pol = canon_guard((self._fold(g[0]), g[1]))
                self.atoms[c] = pol
        return self

    def _decide(self, t):
        if t in self.atoms:
            return self.atoms[t]
        if t[0] == "const":
            return bool(t[1])
        if t[0] in ("unary", "boolop", "ifexp", "gate"):
            return None
        if t[0] == "cmp" and len(t[1]) == 1:
            c, pol = canon_guard((t, True))
            if c in self.atoms:
                return self.atoms[c] if pol else (not self.atoms[c])
            if t[1][0] in ("is not", "!=", "not in"):
                return None
        return self.default

    def _fold(self, t):
        cx = self.cx

        def table(g):
            try:
                return cx.const_of(g)
            except Exception:
                return None

        def fn(x):
            if x in self.map:
                return self.map[x]
            k = x[0]
            if k == "call" and x[1][0] == "global" and x[1][1].endswith(".get") and len(x[2]) in (1, 2) and x[2][0][0] == "const" and not x[3]:
                tab = table(("global", x[1][1][:-4]))
                if isinstance(tab, dict):
                    if x[2][0][1] in tab:
                        v = tab[x[2][0][1]]
                        return ("const", v) if isinstance(v, (str, int, float, bool, type(None))) else None
                    return x[2][1] if len(x[2]) == 2 else ("const", None)
            if k == "sub" and x[1][0] == "global" and x[2][0] == "const":
                tab = table(x[1])
                try:
                    v = tab[x[2][1]]
                except Exception:
                    return None
                return ("const", v) if isinstance(v, (str, int, float, bool, type(None))) else None
            if k == "call" and x[1] == ("global", "len") and len(x[2]) == 1 and x[2][0][0] == "const" and isinstance(x[2][0][1], (str, tuple, list)):
                return ("const", len(x[2][0][1]))
            if k == "cmp" and len(x[1]) == 1:
                a, b = x[2]
                bv = None
                if b[0] == "global" and x[1][0] in ("in", "not in"):
                    tab = table(b)
                    if isinstance(tab, (list, tuple, set, frozenset, dict, str)):
                        bv = ("const", tab)
                elif b[0] in ("list", "tuple", "set") and all(e[0] == "const" for e in b[1]):
                    bv = ("const", tuple(e[1] for e in b[1]))
                elif b[0] == "const":
                    bv = b
                if a[0] == "const" and bv is not None:
                    import operator as op
                    f = {"==": op.eq, "!=": op.ne, "<": op.lt, "<=": op.le, ">": op.gt, ">=": op.ge, "is": op.is_, "is not": op.is_not,
                         "in": lambda p, q: p in q, "not in": lambda p, q: p not in q}.get(x[1][0])
                    try:
                        return ("const", bool(f(a[1], bv[1])))
                    except Exception:
                        return None
            return None
        return T.subst(t, fn)

    def truth(self, t):
        t = self._fold(t)
        if T.contains(t, lambda x: x[0] == "gate"):
            # a value merged from two branches: the branch this scenario takes
            t = self._fold(T.select(t, self._decide))
        return T.truth(t, self._decide)

    def term(self, raw):
        """the value of a (raw, gated) term in this scenario"""
        t = self._fold(raw)
        t = T.select(t, self._decide)
        t = self._fold(t)
        return _resolve_joins(self.cx, t, self._decide, 10 ** 9)

    def holds(self, ev):
        """True: the event happens in this scenario; False: it cannot; None: it depends on undecided conditions"""
        res = True
        for g in ev.raw_guards:
            if g[0][0] == "exc":
                res = None if res else res
                continue
            v = self.truth(g[0])
            if v is None:
                res = None if res is not False else False
            elif v is not g[1]:
                return False
        return res

    def returns(self):
        out = []
        for ev in self.cx.events:
            if ev.kind == "return" and self.holds(ev) is not False:
                v = _resolve_joins(self.cx, self.term(ev.raw), self._decide, ev.seq)
                if v not in out:
                    out.append(v)
        return out

    def events(self, kind=None):
        """(event, holds) for the events that can happen in this scenario"""
        out = []
        for ev in self.cx.events:
            if kind is not None and ev.kind != kind:
                continue
            h = self.holds(ev)
            if h is not False:
                out.append((ev, h))
        return out


def version_terms(cx):
    """the distinct terms that read a header's version_tuple in this function"""
    out = []
    for ev in cx.events:
        for t in [ev.raw, ev.raw_target] + [g[0] for g in ev.raw_guards]:
            if t is None:
                continue
            for x in T.walk(t):
                if x[0] == "attr" and x[2] == "version_tuple" and x not in out:
                    out.append(x)
    return out


def at_version(cx, version, **kw):
    """the scenario 'the document has format version <version>'"""
    return Scenario(cx, subst=dict((t, ("const", tuple(version))) for t in version_terms(cx)), **kw)


# ---- reaching definitions with their path conditions -------------------------------------------------------------------------
class Cand(object):
    """one value that can be stored by ``store`` together with the conditions under which that value was chosen"""
    def __init__(self, value, guards, loops, store, src, terminal):
        self.value, self.guards, self.loops, self.store, self.src, self.terminal = value, guards, loops, store, src, terminal

    def __repr__(self):
        return "<cand %s | %s | loops=%d%s>" % (T.show(self.value)[:80], [(T.show(g[0])[:50], g[1]) for g in self.guards], len(self.loops),
                                               " terminal" if self.terminal else "")


def flows_to(cx, store):
    """the alternatives of the value written by ``store`` (a store event), each with the guards and loops of the assignment that
    produced it (a bind of a local, or a ``return`` of an inlined helper) joined with those of the store itself.  Guards of the
    store that merely test the merged value (``if found is not None``) are dropped for the alternatives they admit."""
    v = T.phi_form(store.value)
    alts = list(v[1]) if v[0] == "phi" else [v]
    out = []
    for a in alts:
        own = []
        skip = False
        for g in store.guards:
            g = (T.phi_form(g[0]), g[1])
            if v[0] == "phi" and T.contains(g[0], lambda x: x == v):
                # a test of the merged value: decide it for this alternative when it is a None/truth test
                t, pol = canon_guard(g)
                if t == canon_guard((("cmp", ("is",), (v, ("const", None))), True))[0]:
                    if (a == ("const", None)) != pol:
                        skip = True
                    continue
                if t == v:
                    if a[0] == "const" and bool(a[1]) != pol:
                        skip = True
                    continue
            own.append(g)
        if skip:
            continue
        binds = [ev for ev in cx.events if ev.kind == "bind" and ev.value == a and ev.seq < store.seq and v[0] == "phi"]
        srcs = [ev for ev in binds if ev.extra == "inlined-return"] or binds[-1:]
        if not srcs:
            out.append(Cand(a, tuple(own), store.loops, store, None, False))
            continue
        for b in srcs:
            gs = tuple(b.guards) + tuple(g for g in own if g not in b.guards)
            out.append(Cand(a, gs, b.loops if len(b.loops) >= len(store.loops) else store.loops, store, b,
                            b.extra == "inlined-return"))
    return out


def guard_atoms(guards):
    """the conjunction of guards as a set of canonical atomic conditions: positive ``a and b`` and negated ``a or b`` are split,
    negations and negative operators are normalised (see canon_guard)"""
    out = set()

    def add(t, pol):
        t, pol = T.strip_not(t, pol)
        if t[0] == "boolop" and ((t[1] == "and" and pol) or (t[1] == "or" and not pol)):
            for x in t[2]:
                add(x, pol)
            return
        out.add(canon_guard((t, pol)))
    for g in guards:
        if g[0][0] == "exc":
            continue
        add(g[0], g[1])
    return out


def expand_exists_guard(g):
    """``next((x for x in C if test(x)), None) is not None`` and ``any(test(x) for x in C)`` are 'some element of C satisfies
    test': -> [(test over ('elem', C, 'exists'), True)] so that such a condition reads like the guard of a raise inside a loop over
    C; any other guard is returned unchanged as [g]"""
    t, pol = canon_guard(g)
    comp = None
    if t[0] == "cmp" and t[1] == ("is",) and not pol and ("const", None) in t[2]:
        other = [x for x in t[2] if x != ("const", None)]
        if other and other[0][0] == "call" and other[0][1] == ("global", "next") and len(other[0][2]) == 2 \
                and other[0][2][1] == ("const", None) and other[0][2][0][0] == "comp":
            comp = other[0][2][0]
            if len(comp[3]) == 1 and comp[2] == ("bound", comp[3][0][0][1]) and comp[3][0][2]:
                tests = list(comp[3][0][2])
            else:
                comp = None
    elif t[0] == "call" and t[1] == ("global", "any") and pol and len(t[2]) == 1 and t[2][0][0] == "comp" and len(t[2][0][3]) == 1:
        comp = t[2][0]
        tests = list(comp[3][0][2]) + [comp[2]]
    if comp is None:
        return [g]
    name = comp[3][0][0][1]
    elem = ("elem", comp[3][0][1], "exists")
    return [(T.subst(x, lambda y: elem if y == ("bound", name) else None), True) for x in tests]


def param_values(model, f, param, depth=0):
    """the constant values call sites pass for ``param`` of ``f`` (following parameters passed on, depth <= 3); unfoldable
    arguments are reported as the marker NotConst"""
    out = []
    if depth > 3:
        return [NotConst]
    name = f.node.name
    params = [a.arg for a in f.node.args.args]
    is_method = f.cls is not None and name not in f.cls.staticmethods
    idx = params.index(param) - (1 if is_method else 0) if param in params else None
    for g in model.all_functions():
        for n in ast.walk(g.node):
            if isinstance(n, ast.Call) and ((isinstance(n.func, ast.Attribute) and n.func.attr == name)
                                            or (isinstance(n.func, ast.Name) and n.func.id == name)):
                arg = None
                for k in n.keywords:
                    if k.arg == param:
                        arg = k.value
                if arg is None and idx is not None and 0 <= idx < len(n.args):
                    arg = n.args[idx]
                if arg is None:
                    continue
                try:
                    out.append(model.fold(arg, g.module))
                    continue
                except NotConst:
                    pass
                pd = _param_derived(g, arg)
                if pd is not None:
                    out.extend(param_values(model, g, pd, depth + 1))
                else:
                    out.append(NotConst)
    return out


def tuple_in_percent(model, f):
    """``"... %s ..." % name`` where ``name`` is a parameter that receives a tuple from some call site: the formatting itself
    raises TypeError (or silently unpacks) -- [(lineno, name)]"""
    bad = []
    params = [a.arg for a in f.node.args.args]
    for n in ast.walk(f.node):
        if isinstance(n, ast.BinOp) and isinstance(n.op, ast.Mod) and isinstance(n.left, ast.Constant) and isinstance(n.left.value, str) \
                and isinstance(n.right, ast.Name) and n.right.id in params:
            vals = param_values(model, f, n.right.id)
            if any(isinstance(v, tuple) for v in vals):
                bad.append((n.lineno, n.right.id))
    return bad
