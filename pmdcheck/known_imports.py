"""
The from-imports of the pinned tree: per module, local alias -> what it names.

Module-level names are compared in the spelling the pinned tree uses for them (``Header`` in composeinfo.py,
``productmd.common.MetadataBase`` everywhere).  Whatever import style a module uses today - ``import productmd.common``,
``from productmd import common as c``, ``from productmd.common import MetadataBase`` - a name is first resolved to what it names
through the module's current imports and then spelled as below (an alias listed here, else the full dotted path).
"""

ALIASES = {
    "common": {"ConfigParser": "six.moves.configparser.ConfigParser"},
    "compose": {"_file_exists": "productmd.common._file_exists"},
    "composeinfo": {"Header": "productmd.common.Header", "RELEASE_VERSION_RE": "productmd.common.RELEASE_VERSION_RE"},
    "discinfo": {},
    "extra_files": {"Header": "productmd.common.Header", "RPM_ARCHES": "productmd.common.RPM_ARCHES",
                    "Compose": "productmd.composeinfo.Compose"},
    "images": {"Header": "productmd.common.Header", "Compose": "productmd.composeinfo.Compose",
               "namedtuple": "collections.namedtuple", "chain": "itertools.chain"},
    "modules": {"Header": "productmd.common.Header", "RPM_ARCHES": "productmd.common.RPM_ARCHES",
                "Compose": "productmd.composeinfo.Compose", "SUPPORTED_CATEGORIES": "productmd.rpms.SUPPORTED_CATEGORIES"},
    "rpms": {"Header": "productmd.common.Header", "Compose": "productmd.composeinfo.Compose"},
    "treeinfo": {},
}


# module-level names each pinned module defines itself (functions, classes, tables)
OWN = {
    'common': {
        'Header', 'MetadataBase', 'RELEASE_SHORT_RE', 'RELEASE_TYPES', 'RELEASE_TYPE_RE', 'RELEASE_VERSION_RE',
        'RPM_ARCHES', 'RPM_NVRA_RE', 'SortedConfigParser', 'SortedDict', 'VERSION', '_file_exists',
        '_parse_release_id_part', '_urlopen', 'create_release_id', 'get_major_version', 'get_minor_version',
        'is_valid_release_short', 'is_valid_release_type', 'is_valid_release_version', 'open_file_obj', 'parse_nvra',
        'parse_release_id', 'split_version'
    },
    'compose': {
        'Compose'
    },
    'composeinfo': {
        'BaseProduct', 'COMPOSE_TYPES', 'COMPOSE_TYPE_SUFFIXES', 'Compose', 'ComposeInfo', 'LABEL_NAMES', 'LABEL_RE_LIST',
        'Release', 'SUPPORTED_MILESTONES', 'VARIANT_TYPES', 'Variant', 'VariantBase', 'VariantPaths', 'Variants', '_invert',
        'cmp', 'cmp_label', 'get_date_type_respin', 'verify_label'
    },
    'discinfo': {
        'DiscInfo'
    },
    'extra_files': {
        'ExtraFiles', '_relative_to'
    },
    'images': {
        'IMAGE_TYPE_FORMAT_MAPPING', 'Image', 'Images', 'SUPPORTED_IMAGE_FORMATS', 'SUPPORTED_IMAGE_TYPES',
        'UNIQUE_IMAGE_ATTRIBUTES', 'UniqueImage', 'identify_image'
    },
    'modules': {
        'Modules'
    },
    'rpms': {
        'Rpms', 'SUPPORTED_CATEGORIES'
    },
    'treeinfo': {
        'BaseProduct', 'Checksums', 'General', 'Header', 'Images', 'Media', 'Release', 'Stage2', 'Tree', 'TreeInfo',
        'VARIANT_TYPES', 'Variant', 'VariantPaths', 'Variants', 'compute_checksum'
    },
}

def speller(module, modules=None):
    """-> f(dotted name as spelled in ``module``) = the pinned spelling of the same object.  ``modules``: every module of the
    package by name (to see through re-exports of modules the pinned tree does not have)"""
    imports = module.imports
    pinned = sorted(ALIASES.get(module.name, {}).items(), key=lambda kv: -len(kv[1]))
    own = set(module.functions) | set(module.classes) | set(module.assigns)

    def home_of(target):
        """an object living in a module the pinned tree does not have (split out of a pinned module and imported back there) is
        named through the pinned module that re-exports it"""
        if len(target) >= 3 and target[0] == "productmd" and target[1] not in ALIASES and modules:
            tgt = ".".join(target[:3])
            for m in sorted(modules.values(), key=lambda m_: m_.name):
                if m.name in ALIASES:
                    for alias, t in sorted(m.imports.items()):
                        if t == tgt:
                            return ["productmd", m.name, alias] + target[3:]
        return target

    def spell(name):
        parts = name.split(".")
        head = parts[0]
        if head in own or (head not in imports and head != "productmd"):
            return name
        target = home_of((imports[head].split(".") if head in imports else [head]) + parts[1:])
        if len(target) >= 3 and target[:2] == ["productmd", module.name]:
            return ".".join(target[2:])          # one of this module's own names (re-exported from where it was moved to)
        if len(target) >= 3 and target[0] == "productmd" and target[2] in OWN.get(module.name, ()) and target[2] not in OWN.get(target[1], ()):
            return ".".join(target[2:])          # one of this module's own names, moved to another pinned module and imported back
        dotted = ".".join(target)
        for alias, tgt in pinned:
            if dotted == tgt or dotted.startswith(tgt + "."):
                return alias + dotted[len(tgt):]
        return dotted
    return spell
