"""
Parameter names of the private functions and methods of the pinned tree (leading underscore: no caller outside the package,
so renaming a parameter changes nothing).  A private function whose parameters were renamed is read with the pinned names
(model.Module), so that rules can keep speaking about ``nevra`` or ``field``.
"""

PARAMS = {
    'common.MetadataBase._assert_matches_re': ['self', 'field', 'expected_patterns'],
    'common.MetadataBase._assert_not_blank': ['self', 'field'],
    'common.MetadataBase._assert_type': ['self', 'field', 'expected_types'],
    'common.MetadataBase._assert_value': ['self', 'field', 'expected_values'],
    'common._file_exists': ['path'],
    'common._parse_release_id_part': ['release_id', 'prefix'],
    'common._urlopen': ['path'],
    'compose.Compose._find_metadata_file': ['self', 'paths'],
    'compose.Compose._load_metadata': ['self', 'paths', 'cls'],
    'composeinfo._invert': ['d'],
    'discinfo.DiscInfo._validate_timestamp': ['self', 'value'],
    'extra_files._relative_to': ['path', 'root'],
    'images.Images._add_1_1': ['self', 'data', 'variant', 'arch', 'image'],
    'modules.Modules._check_uid': ['self', 'uid'],
    'rpms.Rpms._check_nevra': ['self', 'nevra'],
    'treeinfo.Checksums._fix_path': ['self', 'path'],
    'treeinfo.Images._fix_path': ['self', 'path'],
    'treeinfo.Stage2._fix_path': ['self', 'path'],
}
