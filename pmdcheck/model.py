# -*- coding: utf-8 -*-
"""
E1 -- program model of /repo/productmd built from the syntax trees only (nothing is imported).

 * modules, module-level constants folded by a small constant folder
 * classes with resolved bases, linear MRO, method lookup, attribute tables from __init__
 * call resolution (exact where the receiver's class is known, by-name class-hierarchy fallback)
 * transitive summaries (may raise a validation error, calls validate())
"""
from __future__ import annotations

import ast
import glob
import os

from .core import AnalysisError


class NotConst(Exception):
    pass


class TypeMarker(object):
    """Stands for a Python type object in folded constants (``str``, ``type(None)``, ...)."""
    def __init__(self, name):
        self.name = name

    def __repr__(self):
        return "<type %s>" % self.name

    def __eq__(self, other):
        return isinstance(other, TypeMarker) and other.name == self.name

    def __hash__(self):
        return hash(("TypeMarker", self.name))


def strip_verbose(pat):
    """a re.VERBOSE pattern as the equivalent plain pattern: unescaped whitespace and #-comments outside character classes are
    removed (as the re module does)"""
    out, i, in_class = [], 0, False
    while i < len(pat):
        c = pat[i]
        if c == "\\" and i + 1 < len(pat):
            out.append(pat[i:i + 2])
            i += 2
            continue
        if in_class:
            out.append(c)
            if c == "]":
                in_class = False
            i += 1
            continue
        if c == "[":
            in_class = True
            out.append(c)
            i += 1
            # a leading ] (or ^]) is literal
            if i < len(pat) and pat[i] == "^":
                out.append("^")
                i += 1
            if i < len(pat) and pat[i] == "]":
                out.append("]")
                i += 1
            continue
        if c in " \t\n\r\f\v":
            i += 1
            continue
        if c == "#":
            while i < len(pat) and pat[i] != "\n":
                i += 1
            continue
        out.append(c)
        i += 1
    return "".join(out)


def body_digest(fn):
    import hashlib
    src = ast.dump(ast.Module(body=fn.body, type_ignores=[]), annotate_fields=False)
    src = src.replace("'%s'" % fn.name, "'<self>'")
    return hashlib.md5((str(len(fn.args.args)) + src).encode()).hexdigest()[:12]


class ObjConst(object):
    """an instance of a plain record class of the package built in a constant table: its class and its attribute values"""
    def __init__(self, qname, attrs):
        self.qname = qname
        self.attrs = attrs

    def __repr__(self):
        return "%s(%s)" % (self.qname, ", ".join("%s=%r" % kv for kv in sorted(self.attrs.items())))

    def __eq__(self, other):
        return isinstance(other, ObjConst) and (other.qname, other.attrs) == (self.qname, self.attrs)

    def __hash__(self):
        return hash(("ObjConst", self.qname, repr(sorted(self.attrs.items(), key=lambda kv: kv[0]))))


class LambdaConst(object):
    """an argument-less lambda stored in a constant table (a default factory): its source"""
    def __init__(self, src):
        self.src = src

    def __repr__(self):
        return self.src

    def __eq__(self, other):
        return isinstance(other, LambdaConst) and other.src == self.src

    def __hash__(self):
        return hash(("LambdaConst", self.src))


class RegexConst(object):
    def __init__(self, pattern, flags=0):
        self.pattern = pattern
        self.flags = flags

    def __repr__(self):
        return "re.compile(%r)" % (self.pattern,)

    def __eq__(self, other):
        return isinstance(other, RegexConst) and (other.pattern, other.flags) == (self.pattern, self.flags)

    def __hash__(self):
        return hash(("RegexConst", self.pattern, self.flags))


_TYPE_BUILTINS = ("str", "int", "float", "bool", "dict", "list", "set", "tuple", "object", "bytes", "frozenset", "complex",
                  "bytearray")
_SIX = {
    "string_types": (TypeMarker("str"),),
    "integer_types": (TypeMarker("int"),),
    "text_type": TypeMarker("str"),
    "binary_type": TypeMarker("bytes"),
    "PY3": True,
    "PY2": False,
}


def dotted(node):
    """a.b.c -> 'a.b.c' for Name/Attribute chains, else None"""
    parts = []
    while isinstance(node, ast.Attribute):
        parts.append(node.attr)
        node = node.value
    if isinstance(node, ast.Name):
        parts.append(node.id)
        return ".".join(reversed(parts))
    return None


class InitAttr(object):
    def __init__(self, name, value, lineno, cls):
        self.name = name
        self.value = value      # ast node (or None for setattr-in-loop with non-const value)
        self.lineno = lineno
        self.cls = cls          # ClassInfo of the class whose __init__ assigns it

    def kind(self, model):
        """'None' | 'bool' | 'dict' | 'set' | 'list' | 'str' | 'int' | 'param' | ('instance', ClassInfo) | 'other'"""
        v = self.value
        if v is None:
            return "other"
        if isinstance(v, ast.Constant):
            if v.value is None:
                return "None"
            if isinstance(v.value, bool):
                return "bool"
            if isinstance(v.value, str):
                return "str"
            if isinstance(v.value, (int, float)):
                return "int"
        if isinstance(v, ast.Dict):
            return "dict"
        if isinstance(v, ast.List):
            return "list"
        if isinstance(v, ast.Set):
            return "set"
        if isinstance(v, ast.Call):
            d = dotted(v.func)
            if d == "set":
                return "set"
            if d == "dict":
                return "dict"
            if d == "list":
                return "list"
            if d:
                r = model.resolve_name(self.cls.module, d)
                if r and r[0] == "class":
                    return ("instance", r[1])
        if isinstance(v, ast.Name):
            return "param"
        return "other"


class ClassInfo(object):
    def __init__(self, module, node):
        self.module = module
        self.node = node
        self.name = node.name
        self.qname = "%s.%s" % (module.name, node.name)
        self.methods = {}
        self.properties = set()
        self.staticmethods = set()
        self.base_names = [dotted(b) for b in node.bases]
        self.bases = []          # resolved ClassInfo (repo classes only)
        self.class_consts = {}
        for item in node.body:
            if isinstance(item, ast.Assign) and len(item.targets) == 1 and isinstance(item.targets[0], ast.Name):
                self.class_consts[item.targets[0].id] = item.value
            if isinstance(item, ast.FunctionDef):
                self.methods[item.name] = item
                for dec in item.decorator_list:
                    d = dotted(dec)
                    if d == "property":
                        self.properties.add(item.name)
                    if d == "staticmethod":
                        self.staticmethods.add(item.name)
        self._init_attrs = None

    def __repr__(self):
        return "<class %s>" % self.qname

    def mro(self):
        out = [self]
        for b in self.bases:
            for c in b.mro():
                if c not in out:
                    out.append(c)
        return out

    def class_const(self, model, name):
        """the folded value of a class-level constant ``name`` as an instance of this class sees it (first definition along the
        MRO), provided no method of the package ever assigns that attribute on an object; raises NotConst otherwise"""
        for c in self.mro():
            if name in c.class_consts:
                for k in model.classes.values():
                    if not (k in self.mro() or self in k.mro() or c in k.mro()):
                        continue          # (an unrelated class using the same attribute name for something else)
                    for fn in k.methods.values():
                        for n in ast.walk(fn):
                            if isinstance(n, ast.Attribute) and n.attr == name and isinstance(n.ctx, (ast.Store, ast.Del)):
                                raise NotConst("attribute %s is assigned on instances" % name)
                return model.fold(c.class_consts[name], c.module)
        raise NotConst("no class-level constant %s" % name)

    def is_subclass_of(self, other):
        return other in self.mro()

    def lookup(self, name):
        """(ClassInfo, FunctionDef) of the method found first along the MRO, or None"""
        for c in self.mro():
            if name in c.methods:
                return c, c.methods[name]
        return None

    def all_method_names(self):
        names = []
        for c in self.mro():
            for n in c.methods:
                if n not in names:
                    names.append(n)
        return names

    def own_init_attrs(self, model):
        """attributes assigned on self by this class's own __init__ (name -> InitAttr), in order"""
        if self._init_attrs is not None:
            return self._init_attrs
        out = {}
        init = self.methods.get("__init__")
        # immutable defaults bound in the class body (``name = None``, ``_section = "release"``) are what an instance shows until
        # __init__ or a reader assigns the attribute: the same table entry as ``self.name = None`` in __init__
        for item in self.node.body:
            if isinstance(item, ast.Assign) and len(item.targets) == 1 and isinstance(item.targets[0], ast.Name) \
                    and isinstance(item.value, ast.Constant) and item.targets[0].id not in self.methods \
                    and not item.targets[0].id.startswith("__"):
                out[item.targets[0].id] = InitAttr(item.targets[0].id, item.value, item.lineno, self)
        self._init_attrs = out      # partial table visible to the folds below (self._fields)
        if init is not None:
            selfname = init.args.args[0].arg if init.args.args else "self"
            for node in ast.walk(init):
                if isinstance(node, ast.Assign):
                    for t in node.targets:
                        if isinstance(t, ast.Attribute) and isinstance(t.value, ast.Name) and t.value.id == selfname:
                            out[t.attr] = InitAttr(t.attr, node.value, node.lineno, self)
            for node in ast.walk(init):
                # for name in self._fields: setattr(self, name, <value>)
                if isinstance(node, ast.For) and isinstance(node.target, ast.Name):
                    for sub in ast.walk(node):
                        if (isinstance(sub, ast.Call) and dotted(sub.func) == "setattr" and len(sub.args) == 3
                                and isinstance(sub.args[0], ast.Name) and sub.args[0].id == selfname
                                and isinstance(sub.args[1], ast.Name) and sub.args[1].id == node.target.id):
                            try:
                                names = model.fold_in_method(self, init, node.iter)
                            except NotConst:
                                names = None
                            if names:
                                for n in names:
                                    out[n] = InitAttr(n, sub.args[2], sub.lineno, self)
        self._init_attrs = out
        return out

    def init_attrs(self, model):
        """attribute table along the MRO (base first, subclass overrides)"""
        out = {}
        for c in reversed(self.mro()):
            # a class without own __init__ inherits; a class with own __init__ that calls super gets both
            out.update(c.own_init_attrs(model))
        # an attribute a base-class __init__ stores from one of its parameters (``self._section = section``) holds, in a
        # subclass, what that subclass passes up: super().__init__(metadata, "compose")
        mro = self.mro()
        for i, d in enumerate(mro):
            init = d.methods.get("__init__")
            if init is None:
                continue
            base = next((b for b in mro[i + 1:] if "__init__" in b.methods), None)
            if base is None:
                continue
            call = None
            for node in ast.walk(init):
                if isinstance(node, ast.Call) and isinstance(node.func, ast.Attribute) and node.func.attr == "__init__":
                    v = node.func.value
                    if isinstance(v, ast.Call) and dotted(v.func) == "super":
                        call = (node, 0)
                    elif dotted(v) and model.resolve_name(d.module, dotted(v)) == ("class", base):
                        call = (node, 1)
            if call is None:
                continue
            node, skip = call
            bparams = [a.arg for a in base.methods["__init__"].args.args][1:]
            bound = dict(zip(bparams, node.args[skip:]))
            for k in node.keywords:
                if k.arg:
                    bound[k.arg] = k.value
            for a, ia in list(out.items()):
                if ia.cls is base and isinstance(ia.value, ast.Name) and ia.value.id in bound and not isinstance(bound[ia.value.id], ast.Name):
                    out[a] = InitAttr(a, bound[ia.value.id], node.lineno, d)
        for new_, old_ in getattr(model, "attr_renames", {}).items():
            if new_ in out and old_ not in out:
                out[old_] = out[new_]        # (the terms speak of the renamed back-pointer under its pinned name)
        return out

    def attr_class(self, model, attr):
        ia = self.init_attrs(model).get(attr)
        if ia is None:
            return None
        k = ia.kind(model)
        if isinstance(k, tuple) and k[0] == "instance":
            return k[1]
        if k == "param":
            cs = model.param_attr_classes(self, attr)
            if len(cs) == 1:
                return list(cs)[0]
        return None


def _without_annotations(tree):
    """type annotations do not change what the code does: ``x: T = v`` is ``x = v``, a bare ``x: T`` is nothing, parameter and
    return annotations are dropped - every analysis then sees the plain statements"""
    class Strip(ast.NodeTransformer):
        def visit_AnnAssign(self, node):
            self.generic_visit(node)
            if node.value is None:
                return ast.copy_location(ast.Pass(), node)
            return ast.copy_location(ast.Assign(targets=[node.target], value=node.value, type_comment=None), node)

        def visit_FunctionDef(self, node):
            self.generic_visit(node)
            node.returns = None
            for a in node.args.posonlyargs + node.args.args + node.args.kwonlyargs:
                a.annotation = None
            if node.args.vararg:
                node.args.vararg.annotation = None
            if node.args.kwarg:
                node.args.kwarg.annotation = None
            return node
        visit_AsyncFunctionDef = visit_FunctionDef

        def visit_Compare(self, node):
            # ``<literal> == x`` is ``x == <literal>`` (also !=, is, is not; the order comparisons mirrored): one operand order
            self.generic_visit(node)
            mirror = {ast.Eq: ast.Eq, ast.NotEq: ast.NotEq, ast.Is: ast.Is, ast.IsNot: ast.IsNot, ast.Lt: ast.Gt, ast.Gt: ast.Lt,
                      ast.LtE: ast.GtE, ast.GtE: ast.LtE}
            if len(node.ops) == 1 and type(node.ops[0]) in mirror and isinstance(node.left, ast.Constant) \
                    and not isinstance(node.comparators[0], ast.Constant):
                return ast.copy_location(ast.Compare(left=node.comparators[0], ops=[mirror[type(node.ops[0])]()],
                                                     comparators=[node.left]), node)
            return node
    tree = Strip().visit(tree)
    ast.fix_missing_locations(tree)
    return tree


class Module(object):
    def __init__(self, name, path):
        self.name = name
        self.path = path
        with open(path, "rb") as f:
            self.source = f.read().decode("utf-8")
        try:
            self.tree = _without_annotations(ast.parse(self.source, filename=path))
        except SyntaxError as e:
            raise AnalysisError("cannot parse %s: %s" % (path, e))
        self.classes = {}
        self.functions = {}
        self.imports = {}        # local name -> dotted target ("productmd.common", "productmd.common.Header", "six")
        self.assigns = {}        # name -> [ast.Assign, ...] (module level, py3 branch folded)
        self.toplevel = self._fold_py3(self.tree.body)
        self._const_cache = {}
        self._const_busy = set()
        for node in self.toplevel:
            if isinstance(node, ast.ClassDef):
                self.classes[node.name] = ClassInfo(self, node)
            elif isinstance(node, ast.FunctionDef):
                self.functions[node.name] = node
            elif isinstance(node, ast.Import):
                for a in node.names:
                    if a.asname:
                        self.imports[a.asname] = a.name
                    else:
                        self.imports[a.name.split(".")[0]] = a.name.split(".")[0]
            elif isinstance(node, ast.ImportFrom):
                base = node.module or ""
                if node.level:
                    base = "productmd" + ("." + base if base else "")
                for a in node.names:
                    self.imports[a.asname or a.name] = "%s.%s" % (base, a.name)
            elif isinstance(node, ast.Assign):
                for t in node.targets:
                    if isinstance(t, ast.Name):
                        self.assigns.setdefault(t.id, []).append(node)

    @staticmethod
    def _fold_py3(body):
        """Module-level ``if six.PY3:`` / ``if sys.version_info...`` are folded for Python 3."""
        out = []
        for node in body:
            if isinstance(node, ast.If):
                v = py3_test_value(node.test)
                if v is True:
                    out.extend(Module._fold_py3(node.body))
                    continue
                if v is False:
                    out.extend(Module._fold_py3(node.orelse))
                    continue
            out.append(node)
        return out

    def rel(self):
        return "productmd/%s.py" % self.name

    def site(self, node):
        return "%s:%s" % (self.rel(), getattr(node, "lineno", "?"))


def py3_test_value(test):
    """True/False if the test is a Python-version test that is constant under Python 3, else None"""
    d = dotted(test)
    if d == "six.PY3":
        return True
    if d == "six.PY2":
        return False
    if isinstance(test, ast.Compare) and len(test.ops) == 1:
        left = test.left
        # sys.version_info[0] == 2 / sys.version_info[:2] >= (2, 6)
        if isinstance(left, ast.Subscript) and dotted(left.value) == "sys.version_info":
            try:
                rhs = ast.literal_eval(test.comparators[0])
            except Exception:
                return None
            sl = left.slice
            cur = (3, 12)
            if isinstance(sl, ast.Constant) and sl.value == 0:
                lhs = 3
            elif isinstance(sl, ast.Slice) and sl.lower is None and isinstance(sl.upper, ast.Constant):
                lhs = cur[:sl.upper.value]
            else:
                return None
            op = test.ops[0]
            try:
                if isinstance(op, ast.Eq):
                    return lhs == rhs
                if isinstance(op, ast.NotEq):
                    return lhs != rhs
                if isinstance(op, ast.GtE):
                    return lhs >= rhs
                if isinstance(op, ast.Gt):
                    return lhs > rhs
                if isinstance(op, ast.LtE):
                    return lhs <= rhs
                if isinstance(op, ast.Lt):
                    return lhs < rhs
            except TypeError:
                return None
    return None


class FuncRef(object):
    """A function or method of the repo."""
    __slots__ = ("module", "cls", "node", "exact")

    def __init__(self, module, cls, node, exact=False):
        self.module = module
        self.cls = cls
        self.node = node
        # ``cls`` is the class of the receiver itself (a rule analysing "serialize() of a Release"), not merely the class the
        # method is looked up from: calls on self then dispatch to what *this* class sees, whatever subclasses override
        self.exact = exact

    @property
    def qname(self):
        if self.cls is not None:
            return "%s.%s" % (self.cls.qname, self.node.name)
        return "%s.%s" % (self.module.name, self.node.name)

    def __eq__(self, other):
        return isinstance(other, FuncRef) and other.node is self.node and other.cls is self.cls

    def __hash__(self):
        return hash((id(self.node), id(self.cls)))

    def __repr__(self):
        return "<func %s>" % self.qname


class Model(object):
    def __init__(self, repo="/repo"):
        self.repo = repo
        self.pkgdir = os.path.join(repo, "productmd")
        paths = sorted(glob.glob(os.path.join(self.pkgdir, "*.py")))
        if not paths:
            raise AnalysisError("no modules found under %s" % self.pkgdir)
        self.modules = {}
        for p in paths:
            name = os.path.basename(p)[:-3]
            self.modules[name] = Module(name, p)
        self.classes = {}
        for m in self.modules.values():
            for c in m.classes.values():
                self.classes[c.qname] = c
        # a class of the pinned tree moved into another module of the package and imported back under its name: it keeps its
        # pinned qualified name (the rules and the table of known functions speak of it under that name)
        from .known_funcs import KNOWN_FUNCS
        pinned_classes = set(q.rsplit(".", 1)[0] for q in KNOWN_FUNCS if q.count(".") == 2)
        for pq in sorted(pinned_classes):
            if pq in self.classes:
                continue
            mname, cname = pq.split(".")
            home = self.modules.get(mname)
            if home is None or cname not in home.imports:
                continue
            target = home.imports[cname].split(".")
            if len(target) == 3 and target[0] == "productmd" and target[1] in self.modules and target[2] == cname \
                    and cname in self.modules[target[1]].classes:
                c = self.modules[target[1]].classes[cname]
                del self.classes[c.qname]
                c.qname = pq
                self.classes[pq] = c
        for c in self.classes.values():
            for bn in c.base_names:
                if bn is None:
                    continue
                r = self.resolve_name(c.module, bn)
                if r and r[0] == "class":
                    c.bases.append(r[1])
        self._summ = None
        for c in self.classes.values():
            self._expand_property_factories(c)
        for c in self.classes.values():
            self._shim_vanished_methods(c)
        self.attr_renames = self._compute_attr_renames()
        self.func_renames = self._compute_func_renames()
        self._restore_private_params()

    def _restore_private_params(self):
        """the parameters of a private function or method (no caller outside the package) renamed: read under the pinned names
        (known_params), the keyword arguments of its call sites included"""
        from .known_params import PARAMS
        renamed = {}        # function name -> {current parameter name: pinned name}

        def fix(fn, q):
            want = PARAMS.get(q)
            if not want:
                return
            cur = [a.arg for a in fn.args.args]
            if len(cur) != len(want) or cur == want or fn.args.vararg or fn.args.kwarg or fn.args.kwonlyargs:
                return
            m = dict((c_, w_) for c_, w_ in zip(cur, want) if c_ != w_)
            names = set(n.id for n in ast.walk(fn) if isinstance(n, ast.Name)) | set(cur)
            if any(w_ in names for w_ in m.values()) or any(isinstance(n, (ast.FunctionDef, ast.Lambda, ast.ClassDef)) and n is not fn
                                                             for n in ast.walk(fn)):
                return
            for a in fn.args.args:
                a.arg = m.get(a.arg, a.arg)
            for n in ast.walk(fn):
                if isinstance(n, ast.Name) and n.id in m:
                    n.id = m[n.id]
            renamed.setdefault(fn.name, {}).update(m)
        for c in self.classes.values():
            for name, fn in c.methods.items():
                fix(fn, "%s.%s" % (c.qname, name))
        for m_ in self.modules.values():
            for name, fn in m_.functions.items():
                fix(fn, "%s.%s" % (m_.name, self.func_renames.get(name, name)))
        if not renamed:
            return
        for m_ in self.modules.values():
            for n in ast.walk(m_.tree):
                if isinstance(n, ast.Call):
                    name = n.func.attr if isinstance(n.func, ast.Attribute) else (n.func.id if isinstance(n.func, ast.Name) else None)
                    if name in renamed:
                        for k in n.keywords:
                            if k.arg in renamed[name]:
                                k.arg = renamed[name][k.arg]

    def _compute_func_renames(self):
        """module-level private functions of the pinned tree renamed: per module, the one known private function that is gone and
        the one new private function of the same arity -> {new name: old name}; the old name is made to resolve again"""
        from .known_funcs import KNOWN_FUNCS
        known_base = set(q.rsplit(".", 1)[1] for q in KNOWN_FUNCS)
        out = {}
        for m in self.modules.values():
            known = [q.split(".", 1)[1] for q in KNOWN_FUNCS if q.count(".") == 1 and q.split(".", 1)[0] == m.name]
            known = [n for n in known if n.startswith("_") and not n.startswith("__")]
            missing = [n for n in known if n not in m.functions and n not in m.imports]
            extra = [n for n in m.functions if n.startswith("_") and not n.startswith("__") and n not in known_base]
            pairs = []
            if len(missing) == 1 and len(extra) == 1:
                pairs = [(missing[0], extra[0])]
            elif missing and extra:
                # several at once: paired by the digest of the (unchanged) body
                from .known_bodies import BODIES
                for old_ in missing:
                    same = [n for n in extra if body_digest(m.functions[n]) == BODIES.get("%s.%s" % (m.name, old_))]
                    if len(same) == 1:
                        pairs.append((old_, same[0]))
            for old_, new_ in pairs:
                m.functions[old_] = m.functions[new_]
                out[new_] = old_
        return out

    def _compute_attr_renames(self):
        """a back-pointer attribute of the pinned tree renamed consistently (``_metadata`` -> ``_owner``): {new name: old name},
        found per class as "the one pinned back-pointer that is gone / the one new attribute holding a constructor parameter";
        used only when every class agrees and the new name is nobody's pinned attribute"""
        from .known_backptrs import BACKPTRS
        pinned_names = set(n for v in BACKPTRS.values() for n in v)
        votes = {}
        for q, pinned in BACKPTRS.items():
            c = self.classes.get(q)
            if c is None:
                continue
            try:
                own = c.own_init_attrs(self)
                cur = {}
                for a, ia in own.items():
                    k = ia.kind(self)
                    if a.startswith("_") or k == "param":
                        cur[a] = k if isinstance(k, str) else "instance"
            except Exception:
                continue
            for kind in set(pinned.values()):
                missing = [a for a, k in pinned.items() if k == kind and a not in own]
                extra = [a for a, k in cur.items() if k == kind and a not in pinned and a not in pinned_names]
                if len(missing) == 1 and len(extra) == 1:
                    votes.setdefault(extra[0], set()).add(missing[0])
        # private methods / properties of the pinned tree renamed (``_fix_path`` -> ``_strip_build_root``): per class, the one
        # known private method that is gone and the one new private method, of the same arity and kind
        from .known_funcs import KNOWN_FUNCS
        known_names = set(q.rsplit(".", 1)[1] for q in KNOWN_FUNCS)
        for c in self.classes.values():
            known = [q.rsplit(".", 1)[1] for q in KNOWN_FUNCS if q.rsplit(".", 1)[0] == c.qname]
            # (validators are discovered by their _validate prefix at run time: for them a new name is a change of behaviour,
            # never a mere renaming)
            known = [n for n in known if n.startswith("_") and not n.startswith("__") and not n.startswith("_validate")
                     and n != "_check_checksum_paths"]
            missing = [n for n in known if n not in c.methods and c.lookup(n) is None]
            extra = [n for n in c.methods if n.startswith("_") and not n.startswith("__") and not n.startswith("_validate")
                     and n not in known and n not in known_names]
            mpairs = []
            if len(missing) == 1 and len(extra) == 1:
                mpairs = [(missing[0], extra[0])]
            elif missing and extra:
                from .known_bodies import BODIES
                for old_ in missing:
                    same = [n for n in extra if body_digest(c.methods[n]) == BODIES.get("%s.%s" % (c.qname, old_))]
                    if len(same) == 1:
                        mpairs.append((old_, same[0]))
            for old_, new_ in mpairs:
                votes.setdefault(new_, set()).add(old_)
                c.methods[old_] = c.methods[new_]
                if new_ in c.properties:
                    c.properties.add(old_)
                if new_ in c.staticmethods:
                    c.staticmethods.add(old_)
        return dict((new, list(olds)[0]) for new, olds in votes.items() if len(olds) == 1)

    # one-argument methods the rules are anchored on, which a refactoring may turn into a module-level function that is handed
    # the object's back-pointer explicitly:  self._fix_path(p)  ->  _fix_legacy_path(self._metadata, p)
    SHIMMABLE = ("_fix_path",)

    def _shim_vanished_methods(self, c):
        from .known_funcs import KNOWN_FUNCS
        import copy
        c.shims = {}
        for mname in self.SHIMMABLE:
            if "%s.%s" % (c.qname, mname) not in KNOWN_FUNCS or c.lookup(mname) is not None:
                continue
            # the stand-in: one module-level function of the package, unknown to the rules, that the class's methods call with
            # (self.<attribute>, x) - in every call of it
            cands = {}
            for fn in c.methods.values():
                sname = fn.args.args[0].arg if fn.args.args else None
                for n in ast.walk(fn):
                    if isinstance(n, ast.Call) and isinstance(n.func, ast.Name) and (n.func.id in c.module.functions or n.func.id in c.module.imports) \
                            and len(n.args) == 2 and not n.keywords:
                        r = self.resolve_name(c.module, n.func.id)
                        if not (r and r[0] == "func" and r[1].cls is None) or r[1].qname in KNOWN_FUNCS:
                            continue
                        a0 = n.args[0]
                        if isinstance(a0, ast.Attribute) and isinstance(a0.value, ast.Name) and a0.value.id == sname:
                            cands.setdefault((n.func.id, a0.attr), 0)
                            cands[(n.func.id, a0.attr)] += 1
            if len(cands) != 1:
                continue
            (fname, attr), _ = list(cands.items())[0]
            src = "def %s(self, path):\n    return %s(self.%s, path)\n" % (mname, fname, attr)
            fn = ast.parse(src).body[0]
            for n in ast.walk(fn):
                if hasattr(n, "lineno"):
                    n.lineno = n.end_lineno = c.node.lineno
            c.methods[mname] = fn
            c.shims[mname] = (fname, attr)

    def _expand_property_factories(self, c):
        """``name = factory(<args>)`` in a class body, where ``factory`` (a function of the same module) consists of simple
        assignments, one nested ``def getter(self)`` and ``return property(getter, ...)``: the property it builds is analysed as
        the method  def name(self): <parameters bound to the arguments>; <the factory's assignments>; <getter body>  -- the
        closure written out (its variables are never rebound)"""
        import copy
        for name, value in list(c.class_consts.items()):
            if isinstance(value, ast.Call) and dotted(value.func) in ("functools.partialmethod", "partialmethod") and value.args \
                    and isinstance(value.args[0], ast.Name) and value.args[0].id in c.methods \
                    and not any(isinstance(x, ast.Starred) for x in value.args) and not any(k.arg is None for k in value.keywords):
                # name = functools.partialmethod(method, <args>):  def name(self): return self.method(<args>)
                call = ast.Call(func=ast.Attribute(value=ast.Name(id="self", ctx=ast.Load()), attr=value.args[0].id, ctx=ast.Load()),
                                args=[copy.deepcopy(x) for x in value.args[1:]], keywords=[copy.deepcopy(k) for k in value.keywords])
                fn = ast.FunctionDef(name=name, args=ast.arguments(posonlyargs=[], args=[ast.arg(arg="self")], vararg=None, kwonlyargs=[],
                                                                   kw_defaults=[], kwarg=None, defaults=[]),
                                     body=[ast.Return(value=call)], decorator_list=[], returns=None, type_comment=None)
                if hasattr(fn, "type_params"):
                    fn.type_params = []
                for n in ast.walk(fn):
                    ast.copy_location(n, value)
                ast.fix_missing_locations(fn)
                c.methods[name] = fn
                continue
            if not (isinstance(value, ast.Call) and isinstance(value.func, ast.Name) and value.func.id in c.module.functions):
                continue
            fac = c.module.functions[value.func.id]
            body = [st for st in fac.body if not (isinstance(st, ast.Expr) and isinstance(st.value, ast.Constant))]
            if not body or not isinstance(body[-1], ast.Return) or not isinstance(body[-1].value, ast.Call):
                continue
            ret = body[-1].value
            if not (isinstance(ret.func, ast.Name) and ret.func.id == "property"):
                continue
            getter = ret.args[0] if ret.args else next((k.value for k in ret.keywords if k.arg == "fget"), None)
            if not isinstance(getter, ast.Name):
                continue
            if len(ret.args) > 1 or any(k.arg in ("fset", "fdel") for k in ret.keywords):
                continue
            inner = [st for st in body[:-1] if isinstance(st, ast.FunctionDef) and st.name == getter.id]
            rest = [st for st in body[:-1] if not (isinstance(st, ast.FunctionDef) and st.name == getter.id)]
            if len(inner) != 1 or not all(isinstance(st, ast.Assign) and len(st.targets) == 1 and isinstance(st.targets[0], ast.Name)
                                          for st in rest):
                continue
            a = fac.args
            if a.vararg or a.kwarg or a.kwonlyargs or a.posonlyargs or any(isinstance(x, ast.Starred) for x in value.args) \
                    or any(k.arg is None for k in value.keywords):
                continue
            params = [x.arg for x in a.args]
            bound = {}
            for p_, x in zip(params, value.args):
                bound[p_] = x
            for k in value.keywords:
                bound[k.arg] = k.value
            for p_, d in zip(params[len(params) - len(a.defaults):], a.defaults):
                bound.setdefault(p_, d)
            if set(params) - set(bound) or len(value.args) > len(params):
                continue
            rebound = set(n.id for st in inner[0].body for n in ast.walk(st) if isinstance(n, ast.Name) and isinstance(n.ctx, ast.Store))
            if rebound & (set(params) | set(st.targets[0].id for st in rest)):
                continue
            pre = [ast.Assign(targets=[ast.Name(id=p_, ctx=ast.Store())], value=copy.deepcopy(bound[p_])) for p_ in params]
            fn = ast.FunctionDef(name=name, args=copy.deepcopy(inner[0].args), decorator_list=[], returns=None, type_comment=None,
                                 body=pre + [copy.deepcopy(st) for st in rest] + [copy.deepcopy(st) for st in inner[0].body])
            if hasattr(fn, "type_params"):
                fn.type_params = []
            for n in ast.walk(fn):
                if not hasattr(n, "lineno") or n in pre:
                    ast.copy_location(n, value)
            ast.copy_location(fn, value)
            ast.fix_missing_locations(fn)
            c.methods[name] = fn
            c.properties.add(name)

    # -- lookups ---------------------------------------------------------------------------------
    def module(self, name):
        if name not in self.modules:
            raise AnalysisError("module productmd.%s not found" % name)
        return self.modules[name]

    def cls(self, qname):
        if qname not in self.classes:
            raise AnalysisError("anchor vanished: class %s not found" % qname)
        return self.classes[qname]

    def method(self, cls_qname, name):
        c = self.cls(cls_qname)
        r = c.lookup(name)
        if r is None:
            raise AnalysisError("anchor vanished: method %s.%s not found" % (cls_qname, name))
        return FuncRef(r[0].module, r[0], r[1])

    def own_method(self, cls_qname, name):
        c = self.cls(cls_qname)
        if name not in c.methods:
            # pulled up into a base class / mixin (merged duplicates): the definition the class inherits, analysed as a method
            # of this class
            lk = c.lookup(name)
            if lk is not None and lk[0].qname != "common.MetadataBase" and name not in lk[0].properties:
                return FuncRef(lk[0].module, c, lk[1], exact=True)
            raise AnalysisError("anchor vanished: method %s.%s not found" % (cls_qname, name))
        return FuncRef(c.module, c, c.methods[name], exact=True)

    def function(self, mod, name):
        m = self.module(mod)
        if name not in m.functions:
            # moved to another module of the package and imported back under the same name
            r = self.resolve_name(m, name) if name in m.imports else None
            if r and r[0] == "func" and r[1].cls is None:
                return r[1]
            raise AnalysisError("anchor vanished: function %s.%s not found" % (mod, name))
        return FuncRef(m, None, m.functions[name])

    def subclasses(self, cls):
        return [c for c in self.classes.values() if cls in c.mro()]

    def all_functions(self):
        for m in self.modules.values():
            for f in m.functions.values():
                yield FuncRef(m, None, f)
            for c in m.classes.values():
                for f in c.methods.values():
                    yield FuncRef(m, c, f)

    def resolve_module_path(self, dotted_name):
        """'productmd.common' -> Module or None"""
        parts = dotted_name.split(".")
        if parts[0] == "productmd" and len(parts) == 2 and parts[1] in self.modules:
            return self.modules[parts[1]]
        return None

    def resolve_name(self, module, dname):
        """Resolve a dotted name used inside ``module``.
        Returns ('class', ClassInfo) | ('func', FuncRef) | ('const', name, Module) | ('module', Module) |
        ('external', dotted) | None"""
        parts = dname.split(".")
        head = parts[0]
        if head in module.classes and len(parts) == 1:
            return ("class", module.classes[head])
        if head in module.functions and len(parts) == 1:
            return ("func", FuncRef(module, None, module.functions[head]))
        if head in module.assigns and len(parts) == 1:
            return ("const", head, module)
        if head in module.imports or (head == "productmd" and len(parts) > 2 and parts[1] in self.modules):
            # (a full dotted path into the package names the same object whether or not this module imports it that way: terms
            # carry the pinned spelling of a name, known_imports)
            target = (module.imports[head].split(".") if head in module.imports else [head]) + parts[1:]
            # try longest module prefix
            for i in range(len(target), 0, -1):
                m = self.resolve_module_path(".".join(target[:i]))
                if m is not None:
                    rest = target[i:]
                    if not rest:
                        return ("module", m)
                    if len(rest) == 1:
                        if m is module and rest[0] == head:
                            return None
                        return self.resolve_name(m, rest[0])
                    if len(rest) == 2 and rest[0] in m.classes:
                        c = m.classes[rest[0]]
                        r = c.lookup(rest[1])
                        if r:
                            return ("func", FuncRef(r[0].module, r[0], r[1]))
                    return None
            return ("external", ".".join(target))
        return None

    def param_attr_classes(self, cls, attr):
        """classes of the objects stored in a back-pointer attribute ``self.<attr> = <constructor parameter>``: inferred from
        the constructor call sites  K(self)  in methods of other classes"""
        key = (cls.qname, attr)
        cache = self.__dict__.setdefault("_pac", {})
        if key in cache:
            return cache[key]
        cache[key] = set()
        out = set()
        for c in cls.mro():
            init = c.methods.get("__init__")
            if init is None:
                continue
            params = [a.arg for a in init.args.args]
            idx = None
            for node in ast.walk(init):
                if isinstance(node, ast.Assign) and isinstance(node.value, ast.Name) and node.value.id in params:
                    for t in node.targets:
                        if isinstance(t, ast.Attribute) and t.attr == attr and isinstance(t.value, ast.Name) and t.value.id == params[0]:
                            idx = params.index(node.value.id) - 1
            if idx is None:
                continue
            users = [k for k in self.classes.values() if c in k.mro()]
            for f in self.all_functions():
                if f.cls is None or not f.node.args.args:
                    continue
                selfname = f.node.args.args[0].arg
                for node in ast.walk(f.node):
                    if isinstance(node, ast.Call) and len(node.args) > idx:
                        d = dotted(node.func)
                        if not d:
                            continue
                        r = self.resolve_name(f.module, d)
                        if r and r[0] == "class" and r[1] in users:
                            a = node.args[idx]
                            if isinstance(a, ast.Name) and a.id == selfname:
                                out.add(f.cls)
                            elif isinstance(a, ast.Attribute):
                                rc = self.receiver_class(f, a)
                                if rc is not None:
                                    out.add(rc)
            break
        cache[key] = out
        return out

    # -- constant folding -------------------------------------------------------------------------
    def const(self, modname, name):
        m = self.module(modname)
        try:
            return self._module_const(m, name)
        except NotConst as e:
            raise AnalysisError("constant %s.%s cannot be folded: %s" % (modname, name, e))

    def _module_const(self, m, name):
        key = name
        if key in m._const_cache:
            return m._const_cache[key]
        if key in m._const_busy:
            raise NotConst("cyclic constant %s" % name)
        m._const_busy.add(key)
        try:
            if name in m.assigns:
                value = self.fold(m.assigns[name][-1].value, m)
                # X = []  followed by module-level  for n in CONST: X.append(expr)
                if isinstance(value, list):
                    value = list(value)
                    first = m.assigns[name][-1]
                    seen = False
                    for node in m.toplevel:
                        if node is first:
                            seen = True
                            continue
                        if not seen:
                            continue
                        if isinstance(node, ast.For) and isinstance(node.target, ast.Name):
                            appends = [s for s in node.body if isinstance(s, ast.Expr) and isinstance(s.value, ast.Call)
                                       and dotted(s.value.func) == "%s.append" % name]
                            if appends:
                                if len(node.body) != len(appends):
                                    raise NotConst("module-level loop over %s has other statements" % name)
                                for item in self.fold(node.iter, m):
                                    for s in appends:
                                        value.append(self.fold(s.value.args[0], m, {node.target.id: item}))
                        elif not isinstance(node, (ast.ClassDef, ast.FunctionDef)) and any(
                                isinstance(x, ast.Call) and (dotted(x.func) or "").startswith(name + ".")
                                and x.func.attr in ("append", "extend", "insert", "remove", "pop", "sort",
                                                    "reverse", "update", "clear", "add", "discard")
                                for x in ast.walk(node)):
                            raise NotConst("constant %s is mutated at module level in an unsupported way" % name)
            elif name in m.imports:
                r = self.resolve_name(m, name)
                if r and r[0] == "const":
                    value = self._module_const(r[2], r[1])
                else:
                    raise NotConst("imported name %s is not a constant" % name)
            else:
                raise NotConst("no module-level assignment of %s" % name)
        finally:
            m._const_busy.discard(key)
        m._const_cache[key] = value
        return value

    def fold_in_method(self, cls, func, node, extra=None):
        """fold an expression inside a method: ``self.X`` resolves to constant __init__ values"""
        env = dict(extra or {})
        env["__self_class__"] = cls
        return self.fold(node, cls.module, env)

    def class_attr_const(self, cls, attr):
        """constant value assigned to self.<attr> in __init__ along the MRO (e.g. _section, _fields)"""
        ia = cls.init_attrs(self).get(attr)
        if ia is None or ia.value is None:
            raise NotConst("no constant %s on %s" % (attr, cls.qname))
        v = self.fold(ia.value, ia.cls.module)
        if isinstance(v, list):
            # a list kept on the instance is the constant it starts as only while nothing extends it: what methods of the class
            # append to it later (``self._version_forms.append(<pattern>)`` in a legacy reader) may be in it when it is used
            extra = []
            for c in [cls] + [k for k in cls.mro() if k is not cls] + list(self.subclasses(cls)):
                for name, fn in c.methods.items():
                    if not fn.args.args:
                        continue
                    s_ = fn.args.args[0].arg
                    for n in ast.walk(fn):
                        tgt = None
                        if isinstance(n, ast.Call) and isinstance(n.func, ast.Attribute) and n.func.attr in ("append", "extend", "insert") \
                                and isinstance(n.func.value, ast.Attribute) and n.func.value.attr == attr \
                                and isinstance(n.func.value.value, ast.Name) and n.func.value.value.id == s_ and n.args:
                            arg = n.args[-1]
                            try:
                                x = self.fold(arg, c.module)
                            except NotConst:
                                raise NotConst("%s.%s is extended with a value that is not a constant (%s line %s)" % (cls.qname, attr, name, n.lineno))
                            extra.extend(x if n.func.attr == "extend" and isinstance(x, (list, tuple)) else [x])
                        elif isinstance(n, ast.AugAssign) and isinstance(n.target, ast.Attribute) and n.target.attr == attr \
                                and isinstance(n.target.value, ast.Name) and n.target.value.id == s_:
                            try:
                                x = self.fold(n.value, c.module)
                            except NotConst:
                                raise NotConst("%s.%s is extended with a value that is not a constant (%s line %s)" % (cls.qname, attr, name, n.lineno))
                            extra.extend(x if isinstance(x, (list, tuple)) else [x])
            if extra:
                v = list(v) + [x for x in extra if x not in v]
        return v

    def fold(self, node, m, env=None):
        try:
            return self._fold(node, m, env)
        except NotConst as e:
            # a pure expression over literals and constants in a form the structural folder does not know (comprehension,
            # lambda sort key, re.escape ...): evaluate it as a *constant expression* -- only whitelisted node kinds, builtins
            # and string/dict methods, names bound to already folded constants; nothing of the repository's code is called
            try:
                return self._const_eval(node, m, env or {})
            except NotConst:
                raise e

    _PURE_BUILTINS = {"sorted": sorted, "len": len, "list": list, "tuple": tuple, "set": set, "dict": dict, "str": str, "int": int,
                      "min": min, "max": max, "sum": sum, "any": any, "all": all, "zip": zip, "enumerate": enumerate, "reversed": reversed,
                      "frozenset": frozenset, "bool": bool, "abs": abs, "repr": repr}
    _PURE_METHODS = {"join", "format", "items", "keys", "values", "lower", "upper", "strip", "lstrip", "rstrip", "split", "rsplit",
                     "startswith", "endswith", "replace", "get", "count", "index", "title", "capitalize", "union", "intersection",
                     "difference", "copy"}

    def _const_eval(self, node, m, env):
        import re as _re
        bound = set()
        free = set()
        allowed = (ast.Constant, ast.List, ast.Tuple, ast.Set, ast.Dict, ast.Name, ast.BinOp, ast.UnaryOp, ast.Compare, ast.BoolOp,
                   ast.IfExp, ast.ListComp, ast.SetComp, ast.DictComp, ast.GeneratorExp, ast.comprehension, ast.Lambda, ast.arguments,
                   ast.arg, ast.Call, ast.Subscript, ast.Slice, ast.Starred, ast.keyword, ast.Attribute, ast.Load, ast.Store,
                   ast.operator, ast.unaryop, ast.cmpop, ast.boolop, ast.expr_context)
        for n in ast.walk(node):
            if not isinstance(n, allowed):
                raise NotConst("not a constant expression: %s" % type(n).__name__)
            if isinstance(n, ast.Name) and isinstance(n.ctx, ast.Store):
                bound.add(n.id)
            if isinstance(n, ast.arg):
                bound.add(n.arg)
            if isinstance(n, ast.Lambda) and (n.args.vararg or n.args.kwarg or n.args.defaults or n.args.kw_defaults):
                raise NotConst("lambda with defaults")
        ns = {}
        for n in ast.walk(node):
            if isinstance(n, ast.Call):
                d = dotted(n.func)
                if isinstance(n.func, ast.Name):
                    if n.func.id not in self._PURE_BUILTINS and n.func.id not in bound:
                        raise NotConst("call of %s in a constant expression" % n.func.id)
                elif d in ("re.escape", "re.compile"):
                    pass
                elif isinstance(n.func, ast.Attribute):
                    if n.func.attr not in self._PURE_METHODS:
                        raise NotConst("method %s in a constant expression" % n.func.attr)
                else:
                    raise NotConst("call in a constant expression")
            elif isinstance(n, ast.Attribute):
                pass
        # attribute nodes are only allowed as the function of a whitelisted call
        funcs = set(id(n.func) for n in ast.walk(node) if isinstance(n, ast.Call))
        for n in ast.walk(node):
            if isinstance(n, ast.Attribute) and id(n) not in funcs:
                d = dotted(n)
                if d not in ("re.DOTALL", "re.S", "re.UNICODE", "re.U"):
                    raise NotConst("attribute access in a constant expression")
            if isinstance(n, ast.Name) and isinstance(n.ctx, ast.Load) and n.id not in bound and n.id not in self._PURE_BUILTINS \
                    and n.id not in ("True", "False", "None", "re"):
                free.add(n.id)
        for name in free:
            if name in env:
                ns[name] = env[name]
            else:
                ns[name] = self._fold(ast.Name(id=name, ctx=ast.Load()), m, env)

        class _Re(object):
            escape = staticmethod(_re.escape)
            DOTALL = S = "s"
            UNICODE = U = ""

            @staticmethod
            def compile(pat, flags=""):
                if not isinstance(pat, str):
                    raise NotConst("re.compile of non-string")
                return RegexConst(("(?s)" + pat) if flags == "s" else pat, 0)
        ns["re"] = _Re
        ns.update(self._PURE_BUILTINS)
        try:
            code = compile(ast.Expression(body=node), "<constant>", "eval")
            g = dict(ns)
            g["__builtins__"] = {}
            return eval(code, g)
        except NotConst:
            raise
        except Exception as e:
            raise NotConst("constant expression does not evaluate: %s" % e)

    def _fold(self, node, m, env=None):
        env = env or {}
        ev = self._fold

        if isinstance(node, ast.Constant):
            return node.value
        if isinstance(node, ast.List):
            out = []
            for e in node.elts:
                if isinstance(e, ast.Starred):
                    out.extend(ev(e.value, m, env))
                else:
                    out.append(ev(e, m, env))
            return out
        if isinstance(node, ast.Tuple):
            return tuple(ev(e, m, env) for e in node.elts)
        if isinstance(node, ast.Set):
            return set(ev(e, m, env) for e in node.elts)
        if isinstance(node, ast.Dict):
            return dict((ev(k, m, env), ev(v, m, env)) for k, v in zip(node.keys, node.values))
        if isinstance(node, ast.Name):
            if node.id in env:
                return env[node.id]
            if node.id in ("True", "False", "None"):
                return {"True": True, "False": False, "None": None}[node.id]
            if node.id in m.assigns or node.id in m.imports:
                r = self.resolve_name(m, node.id)
                if r and r[0] == "const":
                    return self._module_const(r[2], r[1])
                if node.id in m.assigns:
                    return self._module_const(m, node.id)
                raise NotConst("name %s is not a constant" % node.id)
            if node.id in _TYPE_BUILTINS:
                return TypeMarker(node.id)
            if node.id in m.functions or node.id in ("sorted", "len", "min", "max", "sum", "any", "all", "reversed", "enumerate", "zip"):
                return TypeMarker(node.id)          # a function named in a table (a converter column): carried by name
            raise NotConst("unknown name %s" % node.id)
        if isinstance(node, ast.Attribute):
            d = dotted(node)
            if d:
                if d.startswith("six.") and d[4:] in _SIX:
                    return _SIX[d[4:]]
                if d.startswith("self.") and "__self_class__" in env and d.count(".") == 1:
                    return self.class_attr_const(env["__self_class__"], node.attr)
                r = self.resolve_name(m, d)
                if r and r[0] == "const":
                    return self._module_const(r[2], r[1])
            raise NotConst("attribute %s is not a constant" % (d or ast.dump(node)))
        if isinstance(node, ast.BinOp):
            l, r = ev(node.left, m, env), ev(node.right, m, env)
            try:
                if isinstance(node.op, ast.Mod):
                    return l % r
                if isinstance(node.op, ast.Add):
                    return l + r
                if isinstance(node.op, ast.BitOr):
                    return l | r
                if isinstance(node.op, ast.Mult):
                    return l * r
                if isinstance(node.op, ast.Sub):
                    return l - r
                if isinstance(node.op, ast.Pow):
                    return l ** r
            except Exception as e:
                raise NotConst("binop failed: %s" % e)
            raise NotConst("unsupported operator")
        if isinstance(node, ast.UnaryOp) and isinstance(node.op, ast.USub):
            return -ev(node.operand, m, env)
        if isinstance(node, ast.Subscript):
            base = ev(node.value, m, env)
            if isinstance(node.slice, ast.Slice):
                lo = ev(node.slice.lower, m, env) if node.slice.lower else None
                hi = ev(node.slice.upper, m, env) if node.slice.upper else None
                return base[lo:hi]
            try:
                return base[ev(node.slice, m, env)]
            except Exception as e:
                raise NotConst("subscript failed: %s" % e)
        if isinstance(node, (ast.ListComp, ast.SetComp, ast.GeneratorExp, ast.DictComp)):
            results = []

            def rec(i, env2):
                if i == len(node.generators):
                    if isinstance(node, ast.DictComp):
                        results.append((ev(node.key, m, env2), ev(node.value, m, env2)))
                    else:
                        results.append(ev(node.elt, m, env2))
                    return
                g = node.generators[i]
                for item in ev(g.iter, m, env2):
                    env3 = dict(env2)
                    self._bind(g.target, item, env3)
                    if all(ev(c, m, env3) for c in g.ifs):
                        rec(i + 1, env3)
            rec(0, env)
            if isinstance(node, ast.SetComp):
                return set(results)
            if isinstance(node, ast.DictComp):
                return dict(results)
            return results
        if isinstance(node, ast.Compare) and len(node.ops) == 1:
            l, r = ev(node.left, m, env), ev(node.comparators[0], m, env)
            op = node.ops[0]
            table = {ast.Eq: lambda: l == r, ast.NotEq: lambda: l != r, ast.In: lambda: l in r,
                     ast.NotIn: lambda: l not in r, ast.Lt: lambda: l < r, ast.LtE: lambda: l <= r,
                     ast.Gt: lambda: l > r, ast.GtE: lambda: l >= r, ast.Is: lambda: l is r,
                     ast.IsNot: lambda: l is not r}
            for k, fn in table.items():
                if isinstance(op, k):
                    try:
                        return fn()
                    except Exception as e:
                        raise NotConst("compare failed: %s" % e)
        if isinstance(node, ast.Lambda) and not (node.args.args or node.args.vararg or node.args.kwarg or node.args.kwonlyargs
                                                 or node.args.posonlyargs):
            return LambdaConst(ast.unparse(node))
        if isinstance(node, ast.Call) and isinstance(node.func, ast.Name) and node.func.id in m.classes and node.func.id not in env:
            # a record of a plain data class (its __init__ only stores its parameters): the attribute values
            c = m.classes[node.func.id]
            init = c.methods.get("__init__")
            if init is None or c.bases or init.args.vararg or init.args.kwarg or init.args.kwonlyargs \
                    or any(isinstance(a, ast.Starred) for a in node.args) or any(k.arg is None for k in node.keywords):
                raise NotConst("constructor call of %s" % node.func.id)
            params = [a.arg for a in init.args.args][1:]
            bound = {}
            for p_, a in zip(params, node.args):
                bound[p_] = ev(a, m, env)
            if len(node.args) > len(params):
                raise NotConst("too many arguments for %s" % node.func.id)
            for k in node.keywords:
                if k.arg not in params or k.arg in bound:
                    raise NotConst("unexpected keyword %s" % k.arg)
                bound[k.arg] = ev(k.value, m, env)
            for p_, d in zip(params[len(params) - len(init.args.defaults):], init.args.defaults):
                if p_ not in bound:
                    bound[p_] = ev(d, m, env)
            if set(params) - set(bound):
                raise NotConst("missing arguments for %s" % node.func.id)
            attrs = {}
            sname = init.args.args[0].arg
            for st in init.body:
                if isinstance(st, ast.Expr) and isinstance(st.value, ast.Constant):
                    continue
                if isinstance(st, ast.Assign) and len(st.targets) == 1 and isinstance(st.targets[0], ast.Attribute) \
                        and isinstance(st.targets[0].value, ast.Name) and st.targets[0].value.id == sname:
                    if isinstance(st.value, ast.Name) and st.value.id in bound:
                        attrs[st.targets[0].attr] = bound[st.value.id]
                        continue
                    try:
                        attrs[st.targets[0].attr] = ev(st.value, m, dict(env, **bound))
                        continue
                    except NotConst:
                        pass
                raise NotConst("%s.__init__ does more than store its parameters" % node.func.id)
            return ObjConst(c.qname, attrs)
        if isinstance(node, ast.Call):
            fname = dotted(node.func)
            if any(isinstance(a, ast.Starred) for a in node.args) and fname not in ("chain", "itertools.chain"):
                raise NotConst("starred call")
            if fname in ("chain", "itertools.chain"):
                out = []
                for a in node.args:
                    if isinstance(a, ast.Starred):
                        for seq in ev(a.value, m, env):
                            out.extend(seq)
                    else:
                        out.extend(ev(a, m, env))
                return out
            if fname in ("chain.from_iterable", "itertools.chain.from_iterable") and len(node.args) == 1 and not node.keywords:
                out = []
                for seq in ev(node.args[0], m, env):
                    out.extend(seq)
                return out
            if fname == "re.compile":
                pat = ev(node.args[0], m, env)
                flags = 0
                fl = None
                if len(node.args) > 2 or any(k.arg != "flags" for k in node.keywords):
                    raise NotConst("re.compile with unexpected arguments")
                if len(node.args) == 2:
                    fl = node.args[1]
                for k in node.keywords:
                    fl = k.value
                if not isinstance(pat, str):
                    raise NotConst("re.compile of non-string")
                if fl is not None:
                    def flagset(n):
                        if isinstance(n, ast.BinOp) and isinstance(n.op, ast.BitOr):
                            return flagset(n.left) | flagset(n.right)
                        d = dotted(n) or ""
                        if d in ("re.DOTALL", "re.S"):
                            return {"s"}
                        if d in ("re.UNICODE", "re.U"):
                            return set()
                        if d in ("re.VERBOSE", "re.X"):
                            return {"x"}
                        if isinstance(n, ast.Constant) and n.value == 0:
                            return set()
                        raise NotConst("re.compile with flags other than DOTALL/VERBOSE is not supported by the regex engine")
                    fs = flagset(fl)
                    if "x" in fs:
                        pat = strip_verbose(pat)   # the same pattern without the layout and comments re.VERBOSE ignores
                    if "s" in fs:
                        pat = "(?s)" + pat        # carried as a global inline flag: same language, and the engine reads it from there
                return RegexConst(pat, flags)
            if fname == "re.escape" and len(node.args) == 1 and not node.keywords:
                v_ = ev(node.args[0], m, env)
                if not isinstance(v_, str):
                    raise NotConst("re.escape of non-string")
                import re as _re_
                return _re_.escape(v_)
            if fname == "type" and len(node.args) == 1 and isinstance(node.args[0], ast.Constant) and node.args[0].value is None:
                return TypeMarker("NoneType")
            if fname == "namedtuple":
                return ("namedtuple", ev(node.args[0], m, env), tuple(ev(node.args[1], m, env)))
            args = [ev(a, m, env) for a in node.args]
            kwargs = dict((k.arg, ev(k.value, m, env)) for k in node.keywords)
            if fname in ("sorted", "list", "set", "dict", "tuple", "len", "str", "int", "frozenset", "bool", "min", "max"):
                try:
                    return {"sorted": sorted, "list": list, "set": set, "dict": dict, "tuple": tuple, "len": len,
                            "str": str, "int": int, "frozenset": frozenset, "bool": bool, "min": min,
                            "max": max}[fname](*args, **kwargs)
                except Exception as e:
                    raise NotConst("builtin %s failed: %s" % (fname, e))
            if isinstance(node.func, ast.Attribute):
                meth = node.func.attr
                try:
                    base = ev(node.func.value, m, env)
                except NotConst:
                    base = None
                if base is not None and isinstance(base, (str, dict, list, set, tuple)) and meth in (
                        "keys", "values", "items", "join", "lower", "upper", "split", "strip", "format", "union", "get"):
                    try:
                        res = getattr(base, meth)(*args, **kwargs)
                    except Exception as e:
                        raise NotConst("method %s failed: %s" % (meth, e))
                    if meth in ("keys", "values", "items"):
                        res = list(res)
                    return res
            # module-level single-return helper (composeinfo._invert)
            if fname:
                r = self.resolve_name(m, fname)
                if r and r[0] == "func" and r[1].cls is None:
                    fn = r[1].node
                    body = [s for s in fn.body if not (isinstance(s, ast.Expr) and isinstance(s.value, ast.Constant))]
                    if len(body) == 1 and isinstance(body[0], ast.Return) and not kwargs and len(args) == len(fn.args.args):
                        env2 = dict(zip([a.arg for a in fn.args.args], args))
                        return ev(body[0].value, r[1].module, env2)
                    # a pure builder (a pattern assembled from its arguments): straight-line assignments to locals, ifs on
                    # folded tests and a return - folded statement by statement
                    params = [a.arg for a in fn.args.args]
                    if not (fn.args.vararg or fn.args.kwarg or fn.args.kwonlyargs) and len(args) <= len(params) \
                            and not fn.decorator_list:
                        env2 = dict(zip(params, args))
                        env2.update(kwargs)
                        for p_, d in zip(params[len(params) - len(fn.args.defaults):], fn.args.defaults):
                            if p_ not in env2:
                                env2[p_] = ev(d, r[1].module, {})
                        if set(params) <= set(env2):
                            class _Ret(Exception):
                                pass

                            def run(stmts, depth=0):
                                for st in stmts:
                                    if isinstance(st, ast.Expr) and isinstance(st.value, ast.Constant):
                                        continue
                                    if isinstance(st, ast.Assign) and len(st.targets) == 1 and isinstance(st.targets[0], ast.Name):
                                        env2[st.targets[0].id] = ev(st.value, r[1].module, env2)
                                    elif isinstance(st, ast.If) and depth < 4:
                                        run(st.body if ev(st.test, r[1].module, env2) else st.orelse, depth + 1)
                                    elif isinstance(st, ast.Return):
                                        e_ = _Ret()
                                        e_.value = ev(st.value, r[1].module, env2) if st.value is not None else None
                                        raise e_
                                    else:
                                        raise NotConst("statement %s in builder %s" % (type(st).__name__, fname))
                            try:
                                run(body)
                            except _Ret as e_:
                                return e_.value
            raise NotConst("call %s is not foldable" % (fname or ast.dump(node.func)))
        if isinstance(node, ast.IfExp):
            return ev(node.body, m, env) if ev(node.test, m, env) else ev(node.orelse, m, env)
        if isinstance(node, ast.BoolOp):
            vals = [ev(v, m, env) for v in node.values]
            if isinstance(node.op, ast.And):
                r = True
                for v in vals:
                    r = r and v
                return r
            r = False
            for v in vals:
                r = r or v
            return r
        if isinstance(node, ast.JoinedStr):
            raise NotConst("f-string")
        raise NotConst("unsupported expression %s" % type(node).__name__)

    @staticmethod
    def _bind(target, value, env):
        if isinstance(target, ast.Name):
            env[target.id] = value
        elif isinstance(target, (ast.Tuple, ast.List)):
            vals = list(value)
            if len(vals) != len(target.elts):
                raise NotConst("unpack mismatch")
            for t, v in zip(target.elts, vals):
                Model._bind(t, v, env)
        else:
            raise NotConst("unsupported target")

    # -- call resolution -----------------------------------------------------------------------------
    def local_types(self, fref):
        """locals assigned from constructor calls of repo classes: name -> ClassInfo (flow-insensitive;
        a name bound to two different classes is dropped)"""
        out = {}
        bad = set()
        for node in ast.walk(fref.node):
            if isinstance(node, ast.Assign) and len(node.targets) == 1 and isinstance(node.targets[0], ast.Name):
                name = node.targets[0].id
                c = None
                if isinstance(node.value, ast.Call):
                    d = dotted(node.value.func)
                    if d:
                        r = self.resolve_name(fref.module, d)
                        if r and r[0] == "class":
                            c = r[1]
                if c is None:
                    if name in out:
                        bad.add(name)
                    continue
                if name in out and out[name] is not c:
                    bad.add(name)
                out[name] = c
        for b in bad:
            out.pop(b, None)
        return out

    def receiver_class(self, fref, expr, ltypes=None):
        """static class of a receiver expression inside fref, or None"""
        if ltypes is None:
            ltypes = self.local_types(fref)
        selfname = None
        if fref.cls is not None and fref.node.args.args and fref.node.name not in fref.cls.staticmethods:
            selfname = fref.node.args.args[0].arg
        if isinstance(expr, ast.Name):
            if expr.id == selfname:
                return fref.cls
            return ltypes.get(expr.id)
        if isinstance(expr, ast.Attribute):
            base = self.receiver_class(fref, expr.value, ltypes)
            if base is not None:
                return base.attr_class(self, expr.attr)
            return None
        if isinstance(expr, ast.Call):
            d = dotted(expr.func)
            if d:
                r = self.resolve_name(fref.module, d)
                if r and r[0] == "class":
                    return r[1]
        return None

    def resolve_call(self, fref, call, ltypes=None, polymorphic=True):
        """-> (list of FuncRef, exact: bool).  exact=False means class-hierarchy fallback by method name."""
        func = call.func
        d = dotted(func)
        # super(X, self).m(...) / super().m(...)
        if isinstance(func, ast.Attribute) and isinstance(func.value, ast.Call) and dotted(func.value.func) == "super":
            if fref.cls is not None:
                mro = fref.cls.mro()[1:]
                for c in mro:
                    if func.attr in c.methods:
                        return [FuncRef(c.module, c, c.methods[func.attr])], True
            return [], True
        if isinstance(func, ast.Name):
            r = self.resolve_name(fref.module, func.id)
            if r and r[0] == "func":
                return [r[1]], True
            if r and r[0] == "class":
                init = r[1].lookup("__init__")
                if init:
                    return [FuncRef(init[0].module, init[0], init[1])], True
                return [], True
            return [], True      # builtin / local callable
        if isinstance(func, ast.Attribute):
            # Cls.m(self, ...) or module.func(...)
            if d:
                r = self.resolve_name(fref.module, d)
                if r and r[0] == "func":
                    return [r[1]], True
                if r and r[0] == "class":
                    init = r[1].lookup("__init__")
                    return ([FuncRef(init[0].module, init[0], init[1])] if init else []), True
                if r and r[0] == "external":
                    return [], True
                # Base.method(self, ...) inside the same module
                head = d.rsplit(".", 1)[0]
                rr = self.resolve_name(fref.module, head)
                if rr and rr[0] == "class":
                    lk = rr[1].lookup(func.attr)
                    if lk:
                        return [FuncRef(lk[0].module, lk[0], lk[1])], True
                if rr and rr[0] in ("external",):
                    return [], True
                if rr and rr[0] == "module":
                    return [], True
            rc = self.receiver_class(fref, func.value, ltypes)
            if rc is not None:
                out = []
                lk = rc.lookup(func.attr)
                if lk:
                    out.append(FuncRef(lk[0].module, lk[0], lk[1]))
                if polymorphic:
                    for sc in self.subclasses(rc):
                        if sc is not rc and func.attr in sc.methods:
                            fr = FuncRef(sc.module, sc, sc.methods[func.attr])
                            if fr not in out:
                                out.append(fr)
                return out, True
            # fallback: every repo class that defines the method
            out = []
            for c in self.classes.values():
                if func.attr in c.methods:
                    out.append(FuncRef(c.module, c, c.methods[func.attr]))
            return out, False
        return [], False

    # -- summaries ---------------------------------------------------------------------------------------
    VALIDATION_EXC = ("ValueError", "TypeError")

    def summaries(self):
        """fixpoint: for every function, the set of exception class names it may raise through explicit
        ``raise`` statements (transitively through resolved callees; by-name fallback included, so this is
        a may-analysis), and whether it may call validate()."""
        if self._summ is not None:
            return self._summ
        funcs = list(self.all_functions())
        direct = {}
        callees = {}
        callees_exact = {}
        stats = {"calls": 0, "exact": 0, "byname": 0}
        for f in funcs:
            exc = set()
            for node in ast.walk(f.node):
                if isinstance(node, ast.Raise) and node.exc is not None:
                    e = node.exc
                    if isinstance(e, ast.Call):
                        e = e.func
                    exc.add(dotted(e) or "?")
                elif isinstance(node, ast.Raise):
                    exc.add("<reraise>")
            direct[f] = exc
            cs = set()
            cse = set()
            ltypes = self.local_types(f)
            for node in ast.walk(f.node):
                if isinstance(node, ast.Call):
                    targets, exact = self.resolve_call(f, node, ltypes)
                    stats["calls"] += 1
                    if targets:
                        stats["exact" if exact else "byname"] += 1
                    for t in targets:
                        cs.add(t)
                        if exact:
                            cse.add(t)
                # properties: self.x where x is a property of the class -> call
                if isinstance(node, ast.Attribute) and f.cls is not None:
                    rc = self.receiver_class(f, node.value, ltypes)
                    if rc is not None:
                        lk = rc.lookup(node.attr)
                        if lk and node.attr in lk[0].properties:
                            cs.add(FuncRef(lk[0].module, lk[0], lk[1]))
                            cse.add(FuncRef(lk[0].module, lk[0], lk[1]))
            callees[f] = cs
            callees_exact[f] = cse
        may = dict((f, set(direct[f])) for f in funcs)
        changed = True
        while changed:
            changed = False
            for f in funcs:
                for c in callees[f]:
                    if c in may and not may[c] <= may[f]:
                        may[f] |= may[c]
                        changed = True
        self._summ = {"may_raise": may, "callees": callees, "callees_exact": callees_exact, "direct": direct,
                      "stats": stats}
        return self._summ

    def may_raise_validation(self, fref):
        s = self.summaries()["may_raise"].get(fref, set())
        return bool(s & set(self.VALIDATION_EXC))

    @staticmethod
    def reachable_from_callees(fref, callees):
        """functions reachable from ``fref`` through at least one call (so: contains fref iff it is on a call cycle)"""
        seen = set()
        todo = list(callees.get(fref, ()))
        while todo:
            f = todo.pop()
            if f in seen:
                continue
            seen.add(f)
            todo.extend(callees.get(f, ()))
        return seen

    def reachable_from(self, fref, exact=False):
        s = self.summaries()["callees_exact" if exact else "callees"]
        seen = {fref}
        todo = [fref]
        while todo:
            f = todo.pop()
            for c in s.get(f, ()):
                if c not in seen:
                    seen.add(c)
                    todo.append(c)
        return seen
