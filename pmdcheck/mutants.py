# -*- coding: utf-8 -*-
"""
Mutant corpus for the armedness self-test (selftest.py).  Each edit is (file, exact old text, new text); the old
text must occur exactly once in the file of the *current* tree, otherwise the mutant is skipped with a note.
"""
MUTANTS = []


def M(id, kind, props, what, *edits):
    MUTANTS.append({"id": id, "kind": kind, "props": props, "what": what, "edits": list(edits)})


CI, CO, IM, RP, MO, EF, TI, DI, CP = ("composeinfo.py", "common.py", "images.py", "rpms.py", "modules.py",
                                      "extra_files.py", "treeinfo.py", "discinfo.py", "compose.py")

# ============================================================ C01 ==========================================
M("c01a", "fire", ["C01"], "writer drops release.internal",
  (CI, '        data[self._section]["internal"] = bool(self.internal)\n', ''))
M("c01b", "fire", ["C01"], "reader drops release.internal",
  (CI, '        self.internal = bool(data[self._section].get("internal", False))\n', ''))
M("c01c", "fire", ["C01"], "base_product written unconditionally but read only when layered",
  (CI, '        if self.release.is_layered:\n            self.base_product.serialize(data["payload"])',
       '        self.base_product.serialize(data["payload"])'))
M("c01d", "fire", ["C01"], "child id list key renamed on the writer side only",
  (CI, '            dump["variants"] = sorted(variant_ids)', '            dump["children"] = sorted(variant_ids)'))
M("c01e", "fire", ["C01"], "default of 'final' changed to True in the reader",
  (CI, '''        self.respin = data[self._section]["respin"]
        self.final = bool(data[self._section].get("final", False))''',
       '''        self.respin = data[self._section]["respin"]
        self.final = bool(data[self._section].get("final", True))'''))
M("c01f", "fire", ["C01", "C11"], "child UID formula changed in the reader only",
  (CI, '            variant_uids = ["%s-%s" % (self.uid, i) for i in variant_ids]',
       '            variant_uids = ["%s_%s" % (self.uid, i) for i in variant_ids]'))
M("c01g", "fire", ["C01"], "path writer skips one architecture",
  (CI, '''                value = field.get(arch, None)
                if value:''', '''                value = field.get(arch, None)
                if value and arch != "src":'''))
M("c01h", "fire", ["C01"], "child's parent set after it was deserialised",
  (CI, '''            variant.parent = self
            variant.deserialize(full_data, variant_uid)''', '''            variant.deserialize(full_data, variant_uid)
            variant.parent = self'''))
M("c01i", "fire", ["C01"], "arches truncated on load",
  (CI, '        self.arches = set(data["arches"])', '        self.arches = set(data["arches"][:1])'))
M("c01j", "fire", ["C01"], "respin read from the wrong key",
  (CI, '''        self.date = data[self._section]["date"]
        self.respin = data[self._section]["respin"]''', '''        self.date = data[self._section]["date"]
        self.respin = data[self._section]["type"]'''))
M("c01k", "fire", ["C01"], "layered-product release read unconditionally",
  (CI, '''        if self.type == "layered-product":
            self.release.deserialize(data)''', '''        if self.type in ("layered-product", "addon"):
            self.release.deserialize(data)'''))
M("c01l", "fire", ["C01"], "top-level detection ignores explicit child lists",
  (CI, '                if variant_uid not in child_variants:\n                    variant_ids.append(variant_uid)',
       '                if "-" not in variant_uid:\n                    variant_ids.append(variant_uid)'))
# ============================================================ C02 ==========================================
M("c02a", "fire", ["C02"], "disc_count dropped symmetrically from writer and reader",
  (IM, '            "disc_count": self.disc_count,\n', ''),
  (IM, '        self.disc_count = int(data["disc_count"])\n', ''))
M("c02b", "fire", ["C02", "C06"], "only the first image of a cell is written",
  (IM, '                    images.sort(key=lambda x: x["path"])', '                    images.sort(key=lambda x: x["path"])\n                    break'))
M("c02c", "fire", ["C02"], "loaded image filed under its own arch instead of the cell arch",
  (IM, '                        self.add(variant, arch, image_obj)', '                        self.add(variant, image_obj.arch, image_obj)'))
M("c02d", "fire", ["C02"], "additional_variants no longer written",
  (IM, '            result["additional_variants"] = self.additional_variants\n', ''))
M("c02e", "fire", ["C02"], "mtime read from the size key",
  (IM, '        self.mtime = int(data["mtime"])', '        self.mtime = int(data["size"])'))
M("c02f", "fire", ["C02"], "unified read with a hard access although written conditionally",
  (IM, "        self.unified = data.get('unified', False)", "        self.unified = data['unified']"))
M("c02g", "fire", ["C02"], "volume_id upper-cased on load",
  (IM, '        self.volume_id = data["volume_id"]', '        self.volume_id = data["volume_id"] and data["volume_id"].upper()'))
# ============================================================ C03 ==========================================
M("c03a", "fire", ["C03"], "rpms payload filtered on write",
  (RP, '        data["payload"]["rpms"] = self.rpms\n        return data',
       '        data["payload"]["rpms"] = dict((k, v) for k, v in self.rpms.items() if v)\n        return data'))
M("c03b", "fire", ["C03", "C07"], "modules payload read softly",
  (MO, '        self.modules = data["payload"]["modules"]', '        self.modules = data["payload"].get("modules", {})'))
M("c03c", "fire", ["C03"], "extra_files written under another key",
  (EF, '        data["payload"]["extra_files"] = self.extra_files', '        data["payload"]["extra-files"] = self.extra_files'))
M("c03d", "fire", ["C03"], "rpms compose section no longer read",
  (RP, '''    def deserialize_1_0(self, data):
        self.compose.deserialize(data["payload"])''', '''    def deserialize_1_0(self, data):'''))
# ============================================================ C04 ==========================================
M("c04a", "fire", ["C04"], "treeinfo release short no longer written",
  (TI, '''        parser.set(self._section, "short", self.short)
        if self.is_layered:''', '''        if self.is_layered:'''))
M("c04b", "fire", ["C04"], "stage2 instimage no longer read",
  (TI, '''        if parser.has_option(self._section, "instimage"):
            self.instimage = self._fix_path(parser.get(self._section, "instimage"))
''', ''))
M("c04c", "fire", ["C04"], "images section prefix cut with the wrong length",
  (TI, '''            platform = section[7:]
            if platform != self._metadata.tree.arch''', '''            platform = section[6:]
            if platform != self._metadata.tree.arch'''))
M("c04d", "fire", ["C04"], "discinfo description and arch lines swapped in the writer",
  (DI, '''        lines.append(self.description.strip())
        lines.append(self.arch.strip())''', '''        lines.append(self.arch.strip())
        lines.append(self.description.strip())'''))
M("c04e", "fire", ["C04"], "D13 reverted: section located through the type-dependent property",
  (TI, '''        self.id = parser.get(section, "id")
        self.uid = parser.get(section, "uid")
        self.name = parser.get(section, "name")
        self.type = parser.get(section, "type")

        # child addons
        if parser.has_option(self._section, "addons"):''', '''        self.id = parser.get(self._section, "id")
        self.uid = parser.get(self._section, "uid")
        self.name = parser.get(self._section, "name")
        self.type = parser.get(self._section, "type")

        # child addons
        if parser.has_option(self._section, "addons"):'''))
M("c04f", "fire", ["C04"], "media totaldiscs read from discnum",
  (TI, '            self.totaldiscs = parser.getint(self._section, "totaldiscs")', '            self.totaldiscs = parser.getint(self._section, "discnum")'))
M("c04g", "fire", ["C04", "C08"], "option names lower-cased",
  (CO, "        # don't convert options to lower()\n        return optionstr", "        return optionstr.lower()"))
M("c04h", "fire", ["C04"], "tree timestamp read with getint but written with str(float)",
  (TI, '            self.build_timestamp = int(parser.getfloat(self._section, "build_timestamp"))',
       '            self.build_timestamp = parser.getint(self._section, "build_timestamp") + 1'))
M("c04i", "fire", ["C04"], "checksum written value:type",
  (TI, '            parser.set(self._section, path, "%s:%s" % (checksum_type, checksum))',
       '            parser.set(self._section, path, "%s:%s" % (checksum, checksum_type))'))
M("c04j", "fire", ["C04"], "discinfo disc numbers joined with ';'",
  (DI, '            lines.append(",".join([str(i) for i in self.disc_numbers]))', '            lines.append(";".join([str(i) for i in self.disc_numbers]))'))
M("c04k", "fire", ["C04"], "top-level variants keyed by id instead of uid on load",
  (TI, '            self.add(variant, variant_id=variant.uid)', '            self.add(variant)'))
M("c04l", "fire", ["C04"], "variant path 'identity' dropped from the field list",
  (TI, '''            # others
            "identity",
''', ''))
# ============================================================ C05 ==========================================
M("c05a", "fire", ["C05", "C07"], "JSON header type gate >= 1.1 becomes > 1.1",
  (CO, '''        self.version = data[self._section]["version"]
        if self.version_tuple >= (1, 1):''', '''        self.version = data[self._section]["version"]
        if self.version_tuple > (1, 1):'''))
M("c05b", "fire", ["C05", "C10"], "src re-filing gate <= 1.1 becomes < 1.1",
  (IM, '                    if self.header.version_tuple <= (1, 1):', '                    if self.header.version_tuple < (1, 1):'))
M("c05c", "fire", ["C05"], "images reader no longer switches to the current version",
  (IM, '''                        self.add(variant, arch, image_obj)
        self.header.set_current_version()''', '''                        self.add(variant, arch, image_obj)'''))
M("c05d", "fire", ["C05"], "JSON header written with the loaded version",
  (CO, '''        # write *current* version, because format gets converted on save
        self.set_current_version()
        self.validate()''', '''        self.validate()'''))
M("c05e", "fire", ["C05"], "legacy composeinfo short read from product/name",
  (CI, '        self.short = data["product"]["short"]', '        self.short = data["product"]["name"]'))
M("c05f", "fire", ["C05"], "INI header written with the loaded version",
  (TI, '        parser.set(self._section, "version", ".".join([str(i) for i in productmd.common.VERSION]))',
       '        parser.set(self._section, "version", self.version)'))
M("c05g", "fire", ["C05"], "rpms 0.3 gate <= 0.3 becomes < 0.3",
  (RP, '        if self.header.version_tuple <= (0, 3):', '        if self.header.version_tuple < (0, 3):'))
M("c05h", "fire", ["C05"], "treeinfo pre-productmd gate == 0.0 becomes <= 0.3 for Tree",
  (TI, '''        if self._metadata.header.version_tuple == (0, 0):
            self.deserialize_0_0(parser)
        else:
            self.deserialize_1_0(parser)
        self.validate()

    def deserialize_0_0(self, parser):
        self.arch = parser.get("general", "arch")''', '''        if self._metadata.header.version_tuple <= (0, 3):
            self.deserialize_0_0(parser)
        else:
            self.deserialize_1_0(parser)
        self.validate()

    def deserialize_0_0(self, parser):
        self.arch = parser.get("general", "arch")'''))
M("c05i", "fire", ["C05"], "images subvariant gate <= 1.0 becomes <= 1.1",
  (IM, '        if self.parent.header.version_tuple <= (1, 0):', '        if self.parent.header.version_tuple <= (1, 1):'))
M("c05j", "fire", ["C05"], "ComposeInfo header created with the images type",
  (CI, 'self.header = Header(self, "productmd.composeinfo")', 'self.header = Header(self, "productmd.images")'))
M("c05k", "fire", ["C05"], "legacy compose date/type swapped",
  (CI, '        self.date, self.type, self.respin = get_date_type_respin(self.id)', '        self.type, self.date, self.respin = get_date_type_respin(self.id)'))
# ============================================================ C06 ==========================================
M("c06a", "fire", ["C06", "C07"], "respin validator deleted",
  (CI, '''    def _validate_respin(self):
        self._assert_type("respin", list(six.integer_types))

''', ''))
M("c06b", "fire", ["C06", "C07"], "date validator renamed out of the _validate prefix",
  (CI, '    def _validate_date(self):', '    def _check_date(self):'))
M("c06c", "fire", ["C06"], "validate() removed from composeinfo Release.serialize",
  (CI, '''    def serialize(self, data):
        self.validate()
        data[self._section] = {}
        data[self._section]["name"] = self.name
        data[self._section]["version"] = self.version
        data[self._section]["short"] = self.short
        data[self._section]["type"] = self.type
        if self.is_layered:''', '''    def serialize(self, data):
        data[self._section] = {}
        data[self._section]["name"] = self.name
        data[self._section]["version"] = self.version
        data[self._section]["short"] = self.short
        data[self._section]["type"] = self.type
        if self.is_layered:'''))
M("c06d", "fire", ["C06", "C07"], "compose type enumeration weakened to a type check",
  (CI, '        self._assert_value("type", COMPOSE_TYPES)', '        self._assert_type("type", list(six.string_types))'))
M("c06e", "fire", ["C06"], "variant type 'optional' removed from the enumeration",
  (CI, '''VARIANT_TYPES = [
    "variant",
    "optional",''', '''VARIANT_TYPES = [
    "variant",'''))
M("c06f", "fire", ["C06"], "image size may be zero",
  (IM, '''        self._assert_type("size", list(six.integer_types))
        self._assert_not_blank("size")''', '''        self._assert_type("size", list(six.integer_types))'''))
M("c06g", "fire", ["C06", "C07"], "validate() skips the first validator",
  (CO, '        for method_name in method_names:', '        for method_name in method_names[1:]:'))
M("c06h", "fire", ["C06"], "implant md5 pattern loses its end anchor",
  (IM, 'self._assert_matches_re("implant_md5", [r"^[a-z0-9]{32}$"])', 'self._assert_matches_re("implant_md5", [r"^[a-z0-9]{32}"])'))
M("c06i", "fire", ["C06"], "image path validator tests the wrong prefix",
  (TI, '''                if path.startswith("/"):
                    raise ValueError("Only relative paths are allowed for images: %s" % path)''',
       '''                if path.startswith("//"):
                    raise ValueError("Only relative paths are allowed for images: %s" % path)'''))
M("c06j", "fire", ["C06"], "validate() removed from treeinfo Variant.serialize",
  (TI, '''    def serialize(self, parser):
        self.validate()
#        print "SERIALIZE", self._section, self.type''', '''    def serialize(self, parser):
#        print "SERIALIZE", self._section, self.type'''))
M("c06k", "fire", ["C06"], "image validation only for bootable images",
  (IM, '''        data = parser
        self.validate()
        result = {''', '''        data = parser
        if self.bootable:
            self.validate()
        result = {'''))
M("c06l", "fire", ["C06"], "label type check accepts anything",
  (CI, '        self._assert_type("label", [type(None)] + list(six.string_types))', '        self._assert_type("label", [object])'))
M("c06m", "fire", ["C06"], "parent-arch validator compares with its own arches",
  (CI, '            if arch not in self.parent.arches:', '            if arch not in self.arches:'))
M("c06n", "fire", ["C06"], "treeinfo serialises checksums only when images exist",
  (TI, '        self.checksums.serialize(parser)\n        self.images.serialize(parser)', '        if self.images.images:\n            self.checksums.serialize(parser)\n        self.images.serialize(parser)'))
M("c06o", "fire", ["C06"], "unified flag type check dropped",
  (IM, '''    def _validate_unified(self):
        self._assert_type("unified", [bool])

''', ''))
M("c06p", "fire", ["C06", "C07"], "header version pattern accepts three components",
  (CO, 'self._assert_matches_re("version", [r"^\\d+\\.\\d+$"])', 'self._assert_matches_re("version", [r"^\\d+(\\.\\d+)+$"])'))
# ============================================================ C07 ==========================================
M("c07a", "fire", ["C07"], "composeinfo BaseProduct reader no longer validates",
  (CI, '''        self.type = data[self._section].get("type", "ga")
        self.validate()''', '''        self.type = data[self._section].get("type", "ga")'''))
M("c07b", "fire", ["C07"], "compose type defaults to production",
  (CI, '''        self.label = data[self._section].get("label", None) or None
        self.type = data[self._section]["type"]
        self.date = data[self._section]["date"]''', '''        self.label = data[self._section].get("label", None) or None
        self.type = data[self._section].get("type", "production")
        self.date = data[self._section]["date"]'''))
M("c07c", "fire", ["C07"], "loads() no longer validates",
  (CO, '''        self.load(io)
        self.validate()''', '''        self.load(io)'''))
M("c07d", "fire", ["C07", "C05"], "treeinfo header type gate raised to 1.2",
  (TI, '            if self.version_tuple >= (1, 1):', '            if self.version_tuple >= (1, 2):'))
M("c07e", "fire", ["C07"], "Image reader no longer validates",
  (IM, '''        self.additional_variants = data.get("additional_variants", [])
        self.validate()''', '''        self.additional_variants = data.get("additional_variants", [])'''))
M("c07f", "fire", ["C07"], "treeinfo top-level variants attached without validation",
  (TI, '            self.add(variant, variant_id=variant.uid)', '            self.variants[variant.uid] = variant'))
M("c07g", "fire", ["C07"], "header type mismatch only warns",
  (CO, '''            if metadata_type != self.metadata_type:
                raise ValueError("Invalid metadata type '%s', expected '%s'" % (metadata_type, self.metadata_type))
        self.validate()

''', '''            if metadata_type != self.metadata_type:
                warnings.warn("Invalid metadata type '%s', expected '%s'" % (metadata_type, self.metadata_type))
        self.validate()

'''))
M("c07h", "fire", ["C07"], "version_tuple no longer validates the string",
  (CO, '''    def version_tuple(self):
        self.validate()
        return''', '''    def version_tuple(self):
        return'''))
M("c07i", "fire", ["C07"], "treeinfo Tree reader validates before filling",
  (TI, '''        else:
            self.deserialize_1_0(parser)
        self.validate()

    def deserialize_0_0(self, parser):
        self.arch = parser.get("general", "arch")''', '''        else:
            self.validate()
            self.deserialize_1_0(parser)

    def deserialize_0_0(self, parser):
        self.arch = parser.get("general", "arch")'''))
M("c07j", "fire", ["C07"], "image subvariant optional for every version",
  (IM, '            self.subvariant = data["subvariant"]', '            self.subvariant = data.get("subvariant", "")'))
# ============================================================ C08 ==========================================
M("c08a", "fire", ["C08"], "variant arches written in set order",
  (CI, '        dump["arches"] = sorted(self.arches)', '        dump["arches"] = list(self.arches)'))
M("c08b", "fire", ["C08"], "image cells no longer sorted",
  (IM, '                    images.sort(key=lambda x: x["path"])\n', ''))
M("c08c", "fire", ["C08"], "json.dump without sort_keys",
  (CO, 'json.dump(parser, f, indent=4, sort_keys=True, separators = (",", ": "))', 'json.dump(parser, f, indent=4, separators = (",", ": "))'))
M("c08d", "fire", ["C08"], "SortedDict.items returns dict order",
  (CO, '''    def items(self):
        return self.iteritems()''', '''    def items(self):
        return dict.items(self)'''))
M("c08e", "fire", ["C08"], "[tree]/variants written in dict order",
  (TI, '''        variant_ids = sorted([i.uid for i in self.variants.values()])

        parser.set("tree", "variants", ",".join(sorted(variant_ids)))''', '''        variant_ids = [i.uid for i in self.variants.values()]

        parser.set("tree", "variants", ",".join(variant_ids))'''))
M("c08f", "fire", ["C08"], "addons list written in set order",
  (TI, '            parser.set(self._section, "addons", ",".join(sorted(variant_uids)))', '            parser.set(self._section, "addons", ",".join(variant_uids))'))
M("c08g", "fire", ["C08"], "tree platforms written in set order",
  (TI, '        parser.set(self._section, "platforms", ",".join(sorted(self.platforms | set([self.arch]))))',
       '        parser.set(self._section, "platforms", ",".join(self.platforms | set([self.arch])))'))
M("c08h", "fire", ["C08"], "child id list written in set order",
  (CI, '            dump["variants"] = sorted(variant_ids)', '            dump["variants"] = list(variant_ids)'))
M("c08i", "fire", ["C08"], "SortedConfigParser no longer uses SortedDict on Python 3",
  (CO, '''        else:
            kwargs["dict_type"] = SortedDict
            super(SortedConfigParser, self).__init__(*args, **kwargs)''', '''        else:
            super(SortedConfigParser, self).__init__(*args, **kwargs)'''))
M("c08j", "fire", ["C08"], "writer consumes its own state",
  (TI, '''        for field in self._fields:
            value = getattr(self, field, None)
            if value is not None:
                parser.set(self._variant._section, field, value)''', '''        for field in self._fields:
            value = getattr(self, field, None)
            if value is not None:
                parser.set(self._variant._section, field, value)
                self.identity = None'''))
M("c08k", "fire", ["C08"], "image cells sorted by mtime instead of path",
  (IM, '                    images.sort(key=lambda x: x["path"])', '                    images.sort(key=lambda x: x["mtime"])'))
M("c08l", "fire", ["C08"], "SortedDict.keys sorts in reverse",
  (CO, '        return sorted(dict.keys(self), reverse=False)', '        return list(dict.keys(self))'))
# ============================================================ C09 ==========================================
M("c09a", "fire", ["C09"], "disc_number dropped from the identity",
  (IM, '''    "arch",
    "disc_number",
    "unified",''', '''    "arch",
    "unified",'''))
M("c09b", "fire", ["C09"], "collision scan restricted to the target variant",
  (IM, '            for checkvar in self.images:', '            for checkvar in (v for v in self.images if v == variant):'))
M("c09c", "fire", ["C09", "C05"], "uniqueness gate >= 1.1 becomes > 1.1",
  (IM, '        if self.header.version_tuple >= (1, 1):', '        if self.header.version_tuple > (1, 1):'))
M("c09d", "fire", ["C09"], "dict identity no longer defaults additional_variants",
  (IM, '''    return ui._replace(
        unified=ui.unified or False, additional_variants=ui.additional_variants or []
    )''', '''    return ui._replace(
        unified=ui.unified or False
    )'''))
M("c09e", "fire", ["C09", "C10"], "loader inserts into the table directly",
  (IM, '                        self.add(variant, arch, image_obj)', '                        self.images.setdefault(variant, {}).setdefault(arch, set()).add(image_obj)'))
M("c09f", "fire", ["C09"], "collision decided on paths instead of checksums",
  (IM, 'identify_image(curimg) == identify_image(image) and curimg.checksums != image.checksums', 'identify_image(curimg) == identify_image(image) and curimg.path != image.path'))
M("c09g", "fire", ["C09"], "insertion moved above the scan",
  (IM, '''        if self.header.version_tuple >= (1, 1):
            # disallow adding''', '''        self.images.setdefault(variant, {}).setdefault(arch, set()).add(image)
        if self.header.version_tuple >= (1, 1):
            # disallow adding'''))
M("c09h", "fire", ["C09"], "scan stops after the first cell",
  (IM, '''                            raise ValueError("Image {0} shares all UNIQUE_IMAGE_ATTRIBUTES with "
                                             "image {1}! This is forbidden.".format(image, curimg))''', '''                            raise ValueError("Image {0} shares all UNIQUE_IMAGE_ATTRIBUTES with "
                                             "image {1}! This is forbidden.".format(image, curimg))
                    break'''))
# ============================================================ C10 ==========================================
M("c10a", "fire", ["C10"], "nosrc accepted as rpms tree arch",
  (RP, '        if arch in ["src", "nosrc"]:', '        if arch in ["src"]:'))
M("c10b", "fire", ["C10"], "unknown arch accepted by Images.add",
  (IM, '''        if arch not in productmd.common.RPM_ARCHES:
            raise ValueError("Arch not found in RPM_ARCHES: %s" % arch)
''', ''))
M("c10c", "fire", ["C10"], "src images re-filed under src as well",
  (IM, '''                if variant_arch == "src":
                    continue
''', ''))
M("c10d", "fire", ["C10"], "rpms 0.3 reader no longer skips the src table",
  (RP, '''                if arch == "src":
                    continue
''', ''))
M("c10e", "fire", ["C10", "C12"], "Rpms.add inserts before the arch guards",
  (RP, '''        if arch not in productmd.common.RPM_ARCHES:
            raise ValueError("Arch not found in RPM_ARCHES: %s" % arch)

        if arch in ["src", "nosrc"]:''', '''        self.rpms.setdefault(variant, {}).setdefault(arch, {})
        if arch not in productmd.common.RPM_ARCHES:
            raise ValueError("Arch not found in RPM_ARCHES: %s" % arch)

        if arch in ["src", "nosrc"]:'''))
M("c10f", "fire", ["C10"], "rpms 0.3 source package filed with category binary",
  (RP, 'srpm_data["path"], srpm_data["sigkey"], "source")', 'srpm_data["path"], srpm_data["sigkey"], "binary", srpm_nevra)'))
M("c10g", "fire", ["C10"], "src images re-filed under the arches of all variants' first entry",
  (IM, '                self.add(variant, variant_arch, image)', '                self.add(variant, arch, image)'))
# ============================================================ C11 ==========================================
M("c11a", "fire", ["C11"], "D9 reverted: arch not forwarded on recursion",
  (CI, 'variant.get_variants(arch=arch, types=[i for i in types if i != "self"], recursive=True)', 'variant.get_variants(types=[i for i in types if i != "self"], recursive=True)'))
M("c11b", "fire", ["C11"], "D10 reverted: parent not restored on refusal",
  (CI, '''        except Exception:
            # a refused add must not leave the variant attached to this parent
            variant.parent = old_parent
            raise''', '''        except Exception:
            raise'''))
M("c11c", "fire", ["C11", "C06"], "D14 reverted at one site",
  (CI, '''    def _validate_parent_arch(self):
        if self.parent is None:''', '''    def _validate_parent_arch(self):
        if not self.parent:'''))
M("c11d", "fire", ["C11"], "get_variants no longer sorts",
  (CI, '        result.sort(key=lambda x: x.uid)\n', ''))
M("c11e", "fire", ["C11"], "arch filter no longer admits src",
  (CI, '            if arch and arch not in variant.arches.union(["src"]):', '            if arch and arch not in variant.arches:'))
M("c11f", "fire", ["C11"], "add no longer validates the child",
  (CI, '''        try:
            variant.validate()
            variant_id''', '''        try:
            variant_id'''))
M("c11g", "fire", ["C11"], "ancestor check removed",
  (CI, '''                if variant in parents:
                    parent_uids = sorted([i.uid for i in parents])
                    raise ValueError("Dependency cycle detected; variant %s; parents: %s" % (variant.uid, parent_uids))''',
       '''                if variant in parents:
                    parent_uids = sorted([i.uid for i in parents])'''))
M("c11h", "fire", ["C11"], "duplicate UID silently overwritten on write",
  (CI, '''        new_dump = data.setdefault(self.uid, dump)
        if new_dump != dump:
            raise ValueError("Variant UID already exist: %s" % self.uid)''', '''        data[self.uid] = dump'''))
M("c11i", "fire", ["C11"], "type filter applied after the append",
  (CI, '''            if types and variant.type not in types:
                continue
            if arch and''', '''            if arch and'''))
M("c11j", "fire", ["C11"], "recursion only into the first child",
  (CI, '''            if recursive:
                result.extend(''', '''            if recursive and len(result) < 2:
                result.extend('''))
M("c11k", "fire", ["C11"], "duplicate id overwrites the existing child",
  (CI, '''            new_variant = self.variants.setdefault(variant_id, variant)
            if new_variant != variant:
                raise ValueError("Variant ID already exists: %s" % variant.id)''', '''            self.variants[variant_id] = variant'''))
M("c11l", "fire", ["C11"], "get_variants sorted by id",
  (CI, '        result.sort(key=lambda x: x.uid)', '        result.sort(key=lambda x: x.id)'))
# ============================================================ C12 ==========================================
M("c12a", "fire", ["C12", "C13"], "D1 reverted",
  (CO, '''    match = RPM_NVRA_RE.match(nvra)
    if match is None:
        raise ValueError("Invalid N-E:V-R.A: %s" % nvra)
    result = match.groupdict()''', '''    result = RPM_NVRA_RE.match(nvra).groupdict()'''))
M("c12b", "fire", ["C12"], "D7 reverted",
  (RP, '''        if not path:
            raise ValueError("Path can not be empty.")

''', ''))
M("c12c", "fire", ["C12"], "entry keyed by the raw nevra argument",
  (RP, '        nevra, nevra_dict = self._check_nevra(nevra)', '        _canonical, nevra_dict = self._check_nevra(nevra)'))
M("c12d", "fire", ["C12"], "_relative_to strips textual prefixes",
  (EF, '    root = root.rstrip("/") + "/"', '    root = root.rstrip("/")'))
M("c12e", "fire", ["C12"], "sigkey no longer lower-cased",
  (RP, '''        if sigkey is not None:
            sigkey = sigkey.lower()

''', ''))
M("c12f", "fire", ["C12"], "extra files: checksums type check dropped",
  (EF, '''        if not isinstance(checksums, dict):
            raise TypeError("Checksums must be a dict.")

''', ''))
M("c12g", "fire", ["C12"], "module UID regex: version and context groups swapped",
  (MO, '(:(?P<version>[^:]+))?(:(?P<context>[^:]+))?$', '(:(?P<context>[^:]+))?(:(?P<version>[^:]+))?$'))
M("c12h", "fire", ["C12"], "Modules.add stores before the last check",
  (MO, '''        if not isinstance(rpms, (list, tuple)):
            raise ValueError("Wrong type of 'rpms'")

        arches = self.modules.setdefault(variant, {})''', '''        arches = self.modules.setdefault(variant, {})
        if not isinstance(rpms, (list, tuple)):
            raise ValueError("Wrong type of 'rpms'")
'''))
M("c12i", "fire", ["C12"], "category/arch consistency check dropped",
  (RP, '''        if (category == "source") != (nevra_dict["arch"] in ("src", "nosrc")):
            raise ValueError("Invalid category/arch combination: %s/%s" % (category, nevra))

''', ''))
M("c12j", "fire", ["C12"], "Rpms.add raises KeyError for unknown category",
  (RP, '            raise ValueError("Invalid category value: %s" % category)', '            raise KeyError("Invalid category value: %s" % category)'))
M("c12k", "fire", ["C12"], "module rpms list sorted on add",
  (MO, '        metadata.setdefault("rpms", []).extend(list(rpms))', '        metadata.setdefault("rpms", []).extend(sorted(rpms))'))
M("c12l", "fire", ["C12"], "extra file filed under another key",
  (EF, '        metadata.append({"file": path, "size": size, "checksums": checksums})', '        metadata.append({"path": path, "size": size, "checksums": checksums})'))
M("c12m", "fire", ["C12"], "srpm key not canonicalised",
  (RP, '''        if srpm_nevra:
            srpm_nevra, _ = self._check_nevra(srpm_nevra)
        else:
            srpm_nevra = nevra''', '''        if not srpm_nevra:
            srpm_nevra = nevra'''))
# ============================================================ C13 ==========================================
M("c13a", "fire", ["C13"], "lazy name group",
  (CO, '(?P<name>.*)-((?P<epoch>', '(?P<name>.*?)-((?P<epoch>'))
M("c13b", "fire", ["C13"], "mandatory epoch",
  (CO, '((?P<epoch>\\d+):)?(?P<version>', '((?P<epoch>\\d+):)(?P<version>'))
M("c13c", "fire", ["C13"], ".rpm stripped with the wrong length",
  (CO, '        nvra = nvra[:-4]', '        nvra = nvra[:-3]'))
M("c13d", "fire", ["C13"], "epoch default removed",
  (CO, '    result["epoch"] = result["epoch"] or 0\n    result["epoch"] = int(result["epoch"])', '    result["epoch"] = int(result["epoch"] or 1)'))
M("c13e", "fire", ["C13", "C12"], "canonical format separates version and release with a dot",
  (RP, '"%(name)s-%(epoch)s:%(version)s-%(release)s.%(arch)s"', '"%(name)s-%(epoch)s:%(version)s.%(release)s.%(arch)s"'))
M("c13f", "fire", ["C13"], "lazy release group",
  (CO, '(?P<release>.*)\\.(?P<arch>.*)$', '(?P<release>.*?)\\.(?P<arch>.*)$'))
M("c13g", "fire", ["C13"], "directory prefix group removed",
  (CO, 'r"^(.*/)?(?P<name>.*)-((?P<epoch>', 'r"^(?P<name>.*)-((?P<epoch>'))
M("c13h", "fire", ["C13"], "version may not contain dots",
  (CO, '(?P<version>.*)-(?P<release>', '(?P<version>[^.-]*)-(?P<release>'))
# ============================================================ C14 ==========================================
M("c14a", "fire", ["C14"], "short names may start with an uppercase letter",
  (CO, 'RELEASE_SHORT_RE = re.compile(r"^[a-z][a-z0-9]*(-[a-z0-9]+)*$")', 'RELEASE_SHORT_RE = re.compile(r"^[a-zA-Z][a-z0-9]*(-[a-z0-9]+)*$")'))
M("c14b", "fire", ["C14"], "create_release_id no longer checks the version",
  (CO, '''    if not is_valid_release_version(version):
        raise ValueError("Release short version is not valid: %s" % version)
''', ''))
M("c14c", "fire", ["C14"], "a shadowing suffix added before updates-testing",
  (CO, '''    "updates",
    "updates-testing",''', '''    "updates",
    "testing",
    "updates-testing",'''))
M("c14d", "fire", ["C14"], "type 'fast' also implicit",
  (CO, '    if type == "ga":\n        result = "%s-%s" % (short, version)', '    if type in ("ga", "fast"):\n        result = "%s-%s" % (short, version)'))
M("c14e", "fire", ["C14"], "versions may have a trailing dot",
  (CO, 'RELEASE_VERSION_RE = re.compile(r"^([^0-9].*|([0-9]+(\\.[0-9]+)*))$")', 'RELEASE_VERSION_RE = re.compile(r"^([^0-9].*|([0-9]+(\\.[0-9]*)*))$")'))
M("c14f", "fire", ["C14"], "is_valid_release_type uses search",
  (CO, '    match = RELEASE_TYPE_RE.match(release_type)', '    match = RELEASE_TYPE_RE.search(release_type)'))
M("c14g", "fire", ["C14"], "known type 'e4s' removed from the table",
  (CO, '    "tus",\n    "e4s",\n]', '    "tus",\n]'))
# ============================================================ C15 ==========================================
M("c15a", "fire", ["C15"], "development suffix known to the encoder only",
  (CI, '            return ".d"', '            return ".dev"'))
M("c15b", "fire", ["C15"], "ci suffix removed from the decoder table",
  (CI, '''    "ci": ['ci'],\n''', ''))
M("c15c", "fire", ["C15"], "decoder type group matches one letter only",
  (CI, '(?P<type>\\.[a-z]+)?(\\.(?P<respin>', '(?P<type>\\.[a-z])?(\\.(?P<respin>'))
M("c15d", "fire", ["C15"], "decoder prefix lazy",
  (CI, 'r".*(?P<date>\\d{8})(?P<type>', 'r".*?(?P<date>\\d{8})(?P<type>'))
M("c15e", "fire", ["C15"], "date and respin swapped in the encoder",
  (CI, 'result += "-%s%s.%s" % (self.compose.date, self.compose.type_suffix, self.compose.respin)',
       'result += "-%s%s.%s" % (self.compose.respin, self.compose.type_suffix, self.compose.date)'))
M("c15f", "fire", ["C15"], "missing respin decoded as 1",
  (CI, '        result["respin"] = 0', '        result["respin"] = 1'))
M("c15g", "fire", ["C15"], "id validator anchored and unaware of .d",
  (CI, '[r".*\\d{8}(\\.nightly|\\.n|\\.ci|\\.test|\\.t)?(\\.\\d+)?"]', '[r".*\\d{8}(\\.nightly|\\.n|\\.ci|\\.test|\\.t)?(\\.\\d+)?$"]'))
M("c15h", "fire", ["C15"], "unknown suffix falls back to production",
  (CI, '''        except KeyError:
            raise ValueError("Unknown compose type: %s" % result["type"])''', '''        except KeyError:
            result["type"] = "production"'''))
M("c15i", "fire", ["C15"], "base product suffix keeps ga",
  (CI, "        if not self.type or self.type.lower() == 'ga':\n            return ''", "        if not self.type:\n            return ''"))
M("c15j", "fire", ["C15"], "a new compose type without suffix branch",
  (CI, '    "development",      # development compose', '    "scratch",\n    "development",      # development compose'))
M("c15k", "fire", ["C15"], "test suffix written as .test but validator/decoder order irrelevant; encoder .n for test",
  (CI, '        if self.type == "test":\n            return ".t"', '        if self.type == "test":\n            return ".n"'))
# ============================================================ C16 ==========================================
M("c16a", "fire", ["C16"], "D3 reverted",
  (TI, '''                    else:
                        raise ValueError("Unknown checksum format for %s: %s" % (path, value))
''', ''))
M("c16b", "fire", ["C16"], "last partial chunk dropped",
  (TI, '''            if not chunk:
                break
            checksum.update(chunk)''', '''            if len(chunk) < 1024**2:
                break
            checksum.update(chunk)'''))
M("c16c", "fire", ["C16"], "checksum path not normalised",
  (TI, '        relative_path = os.path.normpath(relative_path)\n', ''))
M("c16d", "fire", ["C16"], "40-digit digests typed sha256",
  (TI, '                        checksum_type, checksum = "sha1", value', '                        checksum_type, checksum = "sha256", value'))
M("c16e", "fire", ["C16"], "conflicting image checksum silently kept",
  (IM, '''            if checksum_value and checksum_value != self.checksums[checksum_type]:
                raise ValueError("Existing and added checksums do not match: %s vs %s" % (self.checksums[checksum_type], checksum_value))
''', ''))
M("c16f", "fire", ["C16", "C06", "C07"], "D2 reverted",
  (TI, '    def _validate_checksum_paths(self):', '    def _check_checksum_paths(self):'))
M("c16g", "fire", ["C16"], "file opened in text mode",
  (TI, '    with open(path, "rb") as fo:', '    with open(path, "r") as fo:'))
M("c16h", "fire", ["C16"], "digest always sha256",
  (TI, '    checksum = hashlib.new(checksum_type)', '    checksum = hashlib.new("sha256")'))
M("c16i", "fire", ["C16"], "image checksum overwritten",
  (IM, '            return self.checksums[checksum_type]\n\n        self.checksums[checksum_type] = checksum_value', '            pass\n\n        self.checksums[checksum_type] = checksum_value'))
M("c16j", "fire", ["C16"], "supplied digest recomputed only when root_dir is given",
  (TI, '        if not checksum_value:\n            absolute_path', '        if root_dir:\n            absolute_path'))
M("c16k", "fire", ["C16"], "reader stores checksums under the raw value",
  (TI, '                self.checksums[path] = (checksum_type, checksum)', '                self.checksums[path] = (checksum_type, value)'))
# ============================================================ C17 ==========================================
M("c17a", "fire", ["C17"], "family taken from release.short",
  (TI, '        parser.set(self._section, "family", self._metadata.release.name)', '        parser.set(self._section, "family", self._metadata.release.short)'))
M("c17b", "fire", ["C17"], "general platforms without the tree arch",
  (TI, '",".join(sorted(self._metadata.tree.platforms | set([self._metadata.tree.arch]))))', '",".join(sorted(self._metadata.tree.platforms)))'))
M("c17c", "fire", ["C17"], "timestamp not truncated to int",
  (TI, '        parser.set(self._section, "timestamp", str(int(self._metadata.tree.build_timestamp)))', '        parser.set(self._section, "timestamp", str(self._metadata.tree.build_timestamp))'))
M("c17d", "fire", ["C17"], "default main variant is the last one",
  (TI, '            variant = variants[0]', '            variant = variants[-1]'))
M("c17e", "fire", ["C17"], "packagedir taken from repository",
  (TI, '''            parser.set(self._section, "packagedir", self._metadata.variants[variant].paths.packages)''', '''            parser.set(self._section, "packagedir", self._metadata.variants[variant].paths.repository)'''))
M("c17f", "fire", ["C17"], "source fallback not restricted to src trees",
  (TI, '''        elif self._metadata.tree.arch == "src" and self._metadata.variants[variant].paths.source_packages is not None:''', '''        elif self._metadata.variants[variant].paths.source_packages is not None:'''))
M("c17g", "fire", ["C17", "C08"], "general variants list not sorted",
  (TI, '        variants = list(self._metadata.variants)\n        variants.sort()', '        variants = list(self._metadata.variants.variants)'))
M("c17h", "fire", ["C17"], "main_variant not passed to General",
  (TI, '        general.serialize(parser, main_variant=main_variant)', '        general.serialize(parser)'))
M("c17i", "fire", ["C17"], "name built as version then name",
  (TI, '"%s %s" % (self._metadata.release.name, self._metadata.release.version))', '"%s %s" % (self._metadata.release.version, self._metadata.release.name))'))
# ============================================================ C18 ==========================================
M("c18a", "fire", ["C18"], "D4 reverted (JSON)",
  (CO, '''        parser = self._get_parser()
        self.serialize(parser)
        with open_file_obj(f, "w") as f:
            self.build_file(parser, f)''', '''        with open_file_obj(f, "w") as f:
            parser = self._get_parser()
            self.serialize(parser)
            self.build_file(parser, f)'''))
M("c18b", "fire", ["C18"], "D4 reverted (treeinfo)",
  (TI, '''        parser = self._get_parser()
        self.serialize(parser, main_variant=main_variant)
        with productmd.common.open_file_obj(f, "w") as f:
            self.build_file(parser, f)''', '''        with productmd.common.open_file_obj(f, "w") as f:
            parser = self._get_parser()
            self.serialize(parser, main_variant=main_variant)
            self.build_file(parser, f)'''))
M("c18c", "fire", ["C18"], "re-validation inside the open block",
  (CO, '''        with open_file_obj(f, "w") as f:
            self.build_file(parser, f)''', '''        with open_file_obj(f, "w") as f:
            self.validate()
            self.build_file(parser, f)'''))
# ============================================================ C19 ==========================================
M("c19a", "fire", ["C19"], "D12 reverted (short)",
  (CO, 'RELEASE_SHORT_RE = re.compile(r"^[a-z][a-z0-9]*(-[a-z0-9]+)*$")', 'RELEASE_SHORT_RE = re.compile(r"^[a-z]+([a-z0-9]*-?[a-z0-9]+)*$")'))
M("c19b", "fire", ["C19"], "label pattern with a nested quantifier",
  (CI, 'r"^%s-\\d+\\.\\d+$" % label_name', 'r"^%s-(\\d+\\.?)+$" % label_name'))
M("c19c", "fire", ["C19"], "variant id pattern with nested quantifier",
  (CI, 'self._assert_matches_re("id", [r"^[a-zA-Z0-9]+$"])', 'self._assert_matches_re("id", [r"^([a-zA-Z0-9]+)*$"])'))
M("c19d", "fire", ["C19"], "treeinfo version pattern with optional dot inside a loop",
  (TI, '''        if re.match(r'^\\d', self.version):
            self._assert_matches_re("version", [r"^\\d+(\\.\\d+)*$"])''', '''        if re.match(r'^\\d', self.version):
            self._assert_matches_re("version", [r"^\\d+(\\.?\\d+)*$"])'''))
M("c19e", "fire", ["C19"], "while loop in a validator",
  (CI, '''    def _validate_type(self):
        self._assert_value("type", COMPOSE_TYPES)''', '''    def _validate_type(self):
        i = 0
        while i < len(self.type or ""):
            i += 1
        self._assert_value("type", COMPOSE_TYPES)'''))
# ============================================================ C20 ==========================================
M("c20a", "fire", ["C20"], "images accessor caches in the rpms field",
  (CP, '''        self._images = self._load_metadata(paths, productmd.images.Images)
        return self._images''', '''        self._rpms = self._load_metadata(paths, productmd.images.Images)
        return self._rpms'''))
M("c20b", "fire", ["C20"], "legacy rpm manifest name probed first",
  (CP, '''            "metadata/rpms.json",
            "metadata/rpm-manifest.json",''', '''            "metadata/rpm-manifest.json",
            "metadata/rpms.json",'''))
M("c20c", "fire", ["C20"], "modules accessor reloads every time",
  (CP, '''        if self._modules is not None:
            return self._modules

''', ''))
M("c20d", "fire", ["C20"], "load errors no longer wrapped",
  (CP, '''        try:
            obj.load(path)
        except ValueError as exc:
            raise RuntimeError('%s can not be deserialized: %s.' % (path, exc))''', '''        obj.load(path)'''))
M("c20e", "fire", ["C20"], "legacy scan also runs when compose/ was found",
  (CP, '        elif "://" not in compose_path and os.path.exists(compose_path):', '        if "://" not in compose_path and os.path.exists(compose_path):'))
M("c20f", "fire", ["C20"], "rpms accessor loads the images class",
  (CP, 'self._rpms = self._load_metadata(paths, productmd.rpms.Rpms)', 'self._rpms = self._load_metadata(paths, productmd.images.Images)'))
M("c20g", "fire", ["C20"], "missing file raises ValueError",
  (CP, "        raise RuntimeError('Failed to load metadata from %s' % self.compose_path)", "        raise ValueError('Failed to load metadata from %s' % self.compose_path)"))

# ============================================================ neutral ======================================
M("n01", "neutral", [], "alias for data[self._section] in Compose.serialize",
  (CI, '''        data[self._section] = {}
        data[self._section]["id"] = self.id
        data[self._section]["type"] = self.type
        data[self._section]["date"] = self.date
        data[self._section]["respin"] = self.respin
        if self.label:
            data[self._section]["label"] = self.label
            data[self._section]["final"] = self.final''', '''        section = data[self._section] = {}
        section["id"] = self.id
        section["type"] = self.type
        section["date"] = self.date
        section["respin"] = self.respin
        if self.label:
            section["label"] = self.label
            section["final"] = self.final'''))
M("n03", "neutral", [], "equivalent gate rewrite <= (0,3) -> < (0,4)",
  (CI, '        if self._metadata.header.version_tuple <= (0, 3):', '        if self._metadata.header.version_tuple < (0, 4):'))
M("n04", "neutral", [], "NVRA version group [^-]* (language-neutral on the legal language)",
  (CO, '(?P<version>.*)-(?P<release>', '(?P<version>[^-]*)-(?P<release>'))
M("n05", "neutral", [], "validate() moved to the end of a writer",
  (CI, '''    def serialize(self, data):
        self.validate()
        data[self._section] = {}
        data[self._section]["name"] = self.name
        data[self._section]["version"] = self.version
        data[self._section]["short"] = self.short
        data[self._section]["type"] = self.type

    def deserialize(self, data):''', '''    def serialize(self, data):
        data[self._section] = {}
        data[self._section]["name"] = self.name
        data[self._section]["version"] = self.version
        data[self._section]["short"] = self.short
        data[self._section]["type"] = self.type
        self.validate()

    def deserialize(self, data):'''))
M("n06", "neutral", [], "_assert_value helper replaced by an explicit membership test",
  (CI, '        self._assert_value("type", COMPOSE_TYPES)', '        if self.type not in COMPOSE_TYPES:\n            raise ValueError("Compose: Field \'type\' has invalid value: %s" % self.type)'))
M("n07", "neutral", [], "two independent reader statements swapped",
  (IM, '''        self.path = data["path"]
        self.mtime = int(data["mtime"])''', '''        self.mtime = int(data["mtime"])
        self.path = data["path"]'''))
M("n10", "neutral", [], "local renamed in get_variants",
  (CI, '''        types = types or []
        result = []

        if "self" in types:
            result.append(self)''', '''        types = types or []
        result = found = []

        if "self" in types:
            found.append(self)'''))
M("n11", "neutral", [], "early return restructured in _validate_parent_arch",
  (CI, '''        if self.parent is None:
            return
        for arch in self.arches:
            if arch not in self.parent.arches:
                raise ValueError("Variant '%s': arch '%s' not found in parent arches %s" % (self.uid, arch, sorted(self.parent.arches)))''',
       '''        if self.parent is not None:
            for arch in self.arches:
                if arch not in self.parent.arches:
                    raise ValueError("Variant '%s': arch '%s' not found in parent arches %s" % (self.uid, arch, sorted(self.parent.arches)))'''))
M("n13", "neutral", [], "chunk loop rewritten as while chunk",
  (TI, '''        while True:
            chunk = fo.read(1024**2)
            if not chunk:
                break
            checksum.update(chunk)''', '''        chunk = fo.read(1024**2)
        while chunk:
            checksum.update(chunk)
            chunk = fo.read(1024**2)'''))
M("n14", "neutral", [], "non-capturing group in RELEASE_SHORT_RE",
  (CO, 'RELEASE_SHORT_RE = re.compile(r"^[a-z][a-z0-9]*(-[a-z0-9]+)*$")', 'RELEASE_SHORT_RE = re.compile(r"^[a-z][a-z0-9]*(?:-[a-z0-9]+)*$")'))
M("n15", "neutral", [], "comparison operands swapped in Header.deserialize",
  (CO, '            if metadata_type != self.metadata_type:\n                raise ValueError("Invalid metadata type \'%s\', expected \'%s\'" % (metadata_type, self.metadata_type))\n        self.validate()\n\n\ndef split_version',
       '            if self.metadata_type != metadata_type:\n                raise ValueError("Invalid metadata type \'%s\', expected \'%s\'" % (metadata_type, self.metadata_type))\n        self.validate()\n\n\ndef split_version'))
M("n16", "neutral", [], "two independent refusals of Rpms.add swapped",
  (RP, '''        if category not in SUPPORTED_CATEGORIES:
            raise ValueError("Invalid category value: %s" % category)

        if not path:
            raise ValueError("Path can not be empty.")
''', '''        if not path:
            raise ValueError("Path can not be empty.")

        if category not in SUPPORTED_CATEGORIES:
            raise ValueError("Invalid category value: %s" % category)
'''))
M("n17", "neutral", [], "comment lines inserted at the top of every big module (line shift)",
  (CI, '"""\nThis module provides classes for manipulating composeinfo.json files.', '# a comment\n# another comment\n\n"""\nThis module provides classes for manipulating composeinfo.json files.'),
  (TI, '"""\nThis module provides classes for manipulating .treeinfo files.', '# a comment\n# another comment\n\n"""\nThis module provides classes for manipulating .treeinfo files.'),
  (CO, '"""\nThis module provides base classes and common functions', '# a comment\n\n"""\nThis module provides base classes and common functions'))
M("n18", "neutral", [], "comprehension variable renamed in identify_image",
  (IM, '        attrs = tuple(getattr(image, attr) for attr in UNIQUE_IMAGE_ATTRIBUTES)', '        attrs = tuple(getattr(image, a) for a in UNIQUE_IMAGE_ATTRIBUTES)'))
M("n19", "neutral", [], "json.dump keyword order changed",
  (CO, 'json.dump(parser, f, indent=4, sort_keys=True, separators = (",", ": "))', 'json.dump(parser, f, sort_keys=True, separators=(",", ": "), indent=4)'))
M("n21", "neutral", [], "gate chain inverted with the same dispatch",
  (CI, '''        if self._metadata.header.version_tuple < (0, 3):
            self.deserialize_0_3(data)
        else:
            self.deserialize_1_0(data)
        self.validate()''', '''        if self._metadata.header.version_tuple >= (0, 3):
            self.deserialize_1_0(data)
        else:
            self.deserialize_0_3(data)
        self.validate()'''))
M("n22", "neutral", [], "compose id validator with an explicit trailing .*",
  (CI, '[r".*\\d{8}(\\.nightly|\\.n|\\.ci|\\.test|\\.t)?(\\.\\d+)?"]', '[r".*\\d{8}(\\.nightly|\\.n|\\.ci|\\.test|\\.t)?(\\.\\d+)?.*"]'))
M("n23", "neutral", [], "set display instead of set([...]) in both platform writers",
  (TI, '        parser.set(self._section, "platforms", ",".join(sorted(self.platforms | set([self.arch]))))',
       '        parser.set(self._section, "platforms", ",".join(sorted(self.platforms | {self.arch})))'),
  (TI, '",".join(sorted(self._metadata.tree.platforms | set([self._metadata.tree.arch]))))', '",".join(sorted(self._metadata.tree.platforms | {self._metadata.tree.arch})))'))
M("n24", "neutral", [], "sorted(self.variants) instead of sorted(self.variants.keys())",
  (CI, '        variant_ids = sorted(self.variants.keys())\n\n        for variant_id in variant_ids:', '        variant_ids = sorted(self.variants)\n\n        for variant_id in variant_ids:'))
M("n25", "neutral", [], "sorted(list(x)) for arches",
  (CI, '        dump["arches"] = sorted(self.arches)', '        dump["arches"] = sorted(list(self.arches))'))
M("n26", "neutral", [], "docstrings added to validators",
  (IM, '    def _validate_path(self):\n', '    def _validate_path(self):\n        """path must be a non-empty string"""\n'))
M("n27", "neutral", [], "is not None test on the match spelled the other way round",
  (CO, '    if match is None:\n        raise ValueError("Invalid N-E:V-R.A: %s" % nvra)', '    if not match:\n        raise ValueError("Invalid N-E:V-R.A: %s" % nvra)'))
M("n28", "neutral", [], "unused helper function added",
  (CO, 'def split_version(version):', 'def _unused_helper(x):\n    return x\n\n\ndef split_version(version):'))
M("n29", "neutral", [], "stronger validator: volume_id additionally length-limited",
  (IM, '''        if self.volume_id is not None:
            self._assert_not_blank("volume_id")''', '''        if self.volume_id is not None:
            self._assert_not_blank("volume_id")
            if len(self.volume_id) > 32:
                raise ValueError("volume id too long")'''))
M("n30", "neutral", [], "a new release type appended",
  (CO, '    "tus",\n    "e4s",\n]', '    "tus",\n    "e4s",\n    "lts",\n]'))

# ---- second batch of neutral refactors (written after the seeded changes exposed exact-shape matching) --------
M("n31", "neutral", [], "Rpms.add: locals renamed, setdefault chain in one statement",
  (RP, '''        arches = self.rpms.setdefault(variant, {})
        srpms = arches.setdefault(arch, {})
        rpms = srpms.setdefault(srpm_nevra, {})
        rpms[nevra] = {"sigkey": sigkey, "path": path, "category": category}''', '''        entries = self.rpms.setdefault(variant, {}).setdefault(arch, {}).setdefault(srpm_nevra, {})
        record = {"sigkey": sigkey, "path": path, "category": category}
        entries[nevra] = record'''))
M("n32", "neutral", [], "ExtraFiles.add: record built in a local first",
  (EF, '''        metadata = self.extra_files.setdefault(variant, {}).setdefault(arch, [])
        metadata.append({"file": path, "size": size, "checksums": checksums})''', '''        entry = {"file": path, "size": size, "checksums": checksums}
        self.extra_files.setdefault(variant, {}).setdefault(arch, []).append(entry)'''))
M("n33", "neutral", [], "General.serialize: locals for release and tree",
  (TI, '''        parser.set(self._section, "name", "%s %s" % (self._metadata.release.name, self._metadata.release.version))
        parser.set(self._section, "family", self._metadata.release.name)
        parser.set(self._section, "version", self._metadata.release.version)

        parser.set(self._section, "arch", self._metadata.tree.arch)''', '''        release = self._metadata.release
        tree = self._metadata.tree
        parser.set(self._section, "name", "%s %s" % (release.name, release.version))
        parser.set(self._section, "family", release.name)
        parser.set(self._section, "version", release.version)

        parser.set(self._section, "arch", tree.arch)'''))
M("n34", "neutral", [], "compose accessor with inverted cache test",
  (CP, '''        if self._images is not None:
            return self._images

        paths = [
            "metadata/images.json",
            "metadata/image-manifest.json",
        ]
        self._images = self._load_metadata(paths, productmd.images.Images)
        return self._images''', '''        if self._images is None:
            paths = [
                "metadata/images.json",
                "metadata/image-manifest.json",
            ]
            self._images = self._load_metadata(paths, productmd.images.Images)
        return self._images'''))
M("n35", "neutral", [], "parse_nvra strips len('.rpm') characters",
  (CO, '        nvra = nvra[:-4]', '        nvra = nvra[:-len(".rpm")]'))
M("n37", "neutral", [], "_relative_to with a named prefix",
  (EF, '''    root = root.rstrip("/") + "/"
    if path.startswith(root):
        return path[len(root):]
    return path''', '''    prefix = root.rstrip("/") + "/"
    if not path.startswith(prefix):
        return path
    return path[len(prefix):]'''))
M("n38", "neutral", [], "add_checksum with inverted membership test",
  (IM, '''        if checksum_type in self.checksums:
            if checksum_value and checksum_value != self.checksums[checksum_type]:
                raise ValueError("Existing and added checksums do not match: %s vs %s" % (self.checksums[checksum_type], checksum_value))
            return self.checksums[checksum_type]

        self.checksums[checksum_type] = checksum_value
        return checksum_value''', '''        if checksum_type not in self.checksums:
            self.checksums[checksum_type] = checksum_value
            return checksum_value

        current = self.checksums[checksum_type]
        if checksum_value and checksum_value != current:
            raise ValueError("Existing and added checksums do not match: %s vs %s" % (current, checksum_value))
        return current'''))
M("n39", "neutral", [], "Checksums.add keeps the argument and uses a new local for the normalised path",
  (TI, '''        relative_path = os.path.normpath(relative_path)
        if not checksum_value:
            absolute_path = os.path.join(root_dir, relative_path)
            checksum_value = compute_checksum(absolute_path, checksum_type)
        self.checksums[relative_path] = [checksum_type, checksum_value]''', '''        normalized = os.path.normpath(relative_path)
        if not checksum_value:
            checksum_value = compute_checksum(os.path.join(root_dir, normalized), checksum_type)
        self.checksums[normalized] = [checksum_type, checksum_value]'''))
M("n40", "neutral", [], "create_release_id with the ga test inverted",
  (CO, '''    if type == "ga":
        result = "%s-%s" % (short, version)
    else:
        result = "%s-%s-%s" % (short, version, type)''', '''    if type != "ga":
        result = "%s-%s-%s" % (short, version, type)
    else:
        result = "%s-%s" % (short, version)'''))
M("n41", "neutral", [], "composeinfo path writer with the loops swapped (category outer, arch inner)",
  (CI, '''        paths = data
        for arch in sorted(self._variant.arches):
            for name in self._fields:
                field = getattr(self, name)
                value = field.get(arch, None)
                if value:
                    paths.setdefault(name, {})[arch] = value''', '''        paths = data
        for name in self._fields:
            field = getattr(self, name)
            for arch in sorted(self._variant.arches):
                value = field.get(arch, None)
                if value:
                    paths.setdefault(name, {})[arch] = value'''))
M("n42", "neutral", [], "Images.serialize with items() loops",
  (IM, '''        for variant in self.images:
            for arch in self.images[variant]:
                for image_obj in self.images[variant][arch]:
                    images = data["payload"]["images"].setdefault(variant, {}).setdefault(arch, [])
                    image_obj.serialize(images)
                    images.sort(key=lambda x: x["path"])''', '''        for variant, arches in self.images.items():
            for arch, cell in arches.items():
                for image_obj in cell:
                    images = data["payload"]["images"].setdefault(variant, {}).setdefault(arch, [])
                    image_obj.serialize(images)
                    images.sort(key=lambda x: x["path"])'''))
M("n43", "neutral", [], "composeinfo Variant.serialize: child ids computed by a separate comprehension",
  (CI, '''        variant_ids = set()
        for variant in self.variants.values():
            variant.serialize(data)
            variant_ids.add(variant.id)
        if variant_ids:
            dump["variants"] = sorted(variant_ids)''', '''        for variant in self.variants.values():
            variant.serialize(data)
        variant_ids = set(variant.id for variant in self.variants.values())
        if variant_ids:
            dump["variants"] = sorted(variant_ids)'''))
M("n44", "neutral", [], "Header.deserialize with an alias for the header section",
  (CO, '''        data = parser
        self.version = data[self._section]["version"]
        if self.version_tuple >= (1, 1):
            metadata_type = data[self._section]["type"]''', '''        header = parser[self._section]
        self.version = header["version"]
        if self.version_tuple >= (1, 1):
            metadata_type = header["type"]'''))
M("n45", "neutral", [], "Compose.type_suffix as a table lookup",
  (CI, '''        if self.type == "production":
            return ""
        if self.type == "ci":
            return ".ci"
        if self.type == "nightly":
            return ".n"
        if self.type == "test":
            return ".t"
        if self.type == "development":
            return ".d"
        raise ValueError("Invalid compose type: %s" % self.type)''', '''        suffixes = {"production": "", "ci": ".ci", "nightly": ".n", "test": ".t", "development": ".d"}
        if self.type not in suffixes:
            raise ValueError("Invalid compose type: %s" % self.type)
        return suffixes[self.type]'''))
M("n46", "neutral", [], "Modules.add: metadata record built in a local",
  (MO, '''        metadata["metadata"] = {
            "uid": uid,
            "name": name,
            "stream": stream,
            "version": version,
            "context": context,
            "koji_tag": koji_tag,
        }''', '''        info = {
            "uid": uid,
            "name": name,
            "stream": stream,
            "version": version,
            "context": context,
            "koji_tag": koji_tag,
        }
        metadata["metadata"] = info'''))
M("n47", "neutral", [], "treeinfo Variant.serialize: addon uids by comprehension",
  (TI, '''        variant_uids = set()
        for variant in self.variants.values():
            variant.serialize(parser)
            variant_uids.add(variant.uid)
        if variant_uids:''', '''        for variant in self.variants.values():
            variant.serialize(parser)
        variant_uids = set(v.uid for v in self.variants.values())
        if variant_uids:'''))
M("n48", "neutral", [], "get_variants: filters merged into one condition",
  (CI, '''            if types and variant.type not in types:
                continue
            if arch and arch not in variant.arches.union(["src"]):
                continue
            result.append(variant)''', '''            if (types and variant.type not in types) or (arch and arch not in variant.arches.union(["src"])):
                continue
            result.append(variant)'''))
M("n49", "neutral", [], "Images.add: identity of the new image computed once before the scan",
  (IM, '''            for checkvar in self.images:
                for checkarch in self.images[checkvar]:
                    for curimg in self.images[checkvar][checkarch]:
                        if identify_image(curimg) == identify_image(image) and curimg.checksums != image.checksums:''', '''            new_identity = identify_image(image)
            for checkvar in self.images:
                for checkarch in self.images[checkvar]:
                    for curimg in self.images[checkvar][checkarch]:
                        if identify_image(curimg) == new_identity and curimg.checksums != image.checksums:'''))
M("n50", "neutral", [], "DiscInfo.serialize: disc number line computed first",
  (DI, '''        if self.disc_numbers == ["ALL"]:
            lines.append("ALL")
        else:
            lines.append(",".join([str(i) for i in self.disc_numbers]))''', '''        if self.disc_numbers == ["ALL"]:
            numbers = "ALL"
        else:
            numbers = ",".join([str(i) for i in self.disc_numbers])
        lines.append(numbers)'''))
M("n51", "neutral", [], "treeinfo Release.deserialize_1_0: short read through a conditional expression",
  (TI, '''        if parser.has_option(self._section, "short"):
            self.short = parser.get(self._section, "short")
        else:
            self.short = self.name''', '''        self.short = parser.get(self._section, "short") if parser.has_option(self._section, "short") else self.name'''))
M("n52", "neutral", [], "MetadataBase.dump: parser obtained in one expression",
  (CO, '''        parser = self._get_parser()
        self.serialize(parser)
        with open_file_obj(f, "w") as f:
            self.build_file(parser, f)''', '''        document = self._get_parser()
        self.serialize(document)
        with open_file_obj(f, "w") as out:
            self.build_file(document, out)'''))

# ---- neutral refactors that extract helpers (seen through by inlining calls to functions the rules do not know) ----
M("n60", "neutral", [], "Rpms.add: filing extracted into a private method",
  (RP, '''        arches = self.rpms.setdefault(variant, {})
        srpms = arches.setdefault(arch, {})
        rpms = srpms.setdefault(srpm_nevra, {})
        rpms[nevra] = {"sigkey": sigkey, "path": path, "category": category}''', '''        self._file_entry(variant, arch, srpm_nevra, nevra, {"sigkey": sigkey, "path": path, "category": category})

    def _file_entry(self, variant, arch, srpm_nevra, nevra, record):
        arches = self.rpms.setdefault(variant, {})
        srpms = arches.setdefault(arch, {})
        rpms = srpms.setdefault(srpm_nevra, {})
        rpms[nevra] = record'''))
M("n61", "neutral", [], "ExtraFiles.add: path checks extracted into a module function",
  (EF, '''        if not path:
            raise ValueError("Path can not be empty.")

        if path.startswith("/"):
            raise ValueError("Relative path expected: %s" % path)

        if not isinstance(checksums, dict):''', '''        _check_relative_path(path)

        if not isinstance(checksums, dict):'''),
  (EF, '''def _relative_to(path, root):''', '''def _check_relative_path(path):
    if not path:
        raise ValueError("Path can not be empty.")
    if path.startswith("/"):
        raise ValueError("Relative path expected: %s" % path)


def _relative_to(path, root):'''))
M("n62", "neutral", [], "create_release_id: formatting extracted",
  (CO, '''    if type == "ga":
        result = "%s-%s" % (short, version)
    else:
        result = "%s-%s-%s" % (short, version, type)

    if bp_short:''', '''    result = _format_release_part(short, version, type)

    if bp_short:'''),
  (CO, '''def parse_release_id(release_id):''', '''def _format_release_part(short, version, type):
    if type == "ga":
        return "%s-%s" % (short, version)
    return "%s-%s-%s" % (short, version, type)


def parse_release_id(release_id):'''))
M("n63", "neutral", [], "Compose.serialize: field emission extracted into a method",
  (CI, '''        self.validate()
        data[self._section] = {}
        data[self._section]["id"] = self.id
        data[self._section]["type"] = self.type
        data[self._section]["date"] = self.date
        data[self._section]["respin"] = self.respin
        if self.label:
            data[self._section]["label"] = self.label
            data[self._section]["final"] = self.final''', '''        self.validate()
        data[self._section] = {}
        self._fill_section(data[self._section])

    def _fill_section(self, section):
        section["id"] = self.id
        section["type"] = self.type
        section["date"] = self.date
        section["respin"] = self.respin
        if self.label:
            section["label"] = self.label
            section["final"] = self.final'''))
M("n64", "neutral", [], "Images.add: architecture checks extracted into a module function",
  (IM, '''        if arch not in productmd.common.RPM_ARCHES:
            raise ValueError("Arch not found in RPM_ARCHES: %s" % arch)
        if arch in ["src", "nosrc"]:
            raise ValueError("Source arch is not allowed. Map source files under binary arches.")
        if self.header.version_tuple >= (1, 1):''', '''        _check_tree_arch(arch)
        if self.header.version_tuple >= (1, 1):'''),
  (IM, '''def identify_image(image):''', '''def _check_tree_arch(arch):
    if arch not in productmd.common.RPM_ARCHES:
        raise ValueError("Arch not found in RPM_ARCHES: %s" % arch)
    if arch in ["src", "nosrc"]:
        raise ValueError("Source arch is not allowed. Map source files under binary arches.")


def identify_image(image):'''))
M("n65", "neutral", [], "General.serialize: choice of the main variant extracted",
  (TI, '''        if main_variant is None:
            variant = variants[0]
        else:
            variant = main_variant
        parser.set(self._section, "variant", variant)''', '''        variant = _pick_main_variant(variants, main_variant)
        parser.set(self._section, "variant", variant)'''),
  (TI, '''class General(productmd.common.MetadataBase):''', '''def _pick_main_variant(variants, main_variant):
    if main_variant is None:
        return variants[0]
    return main_variant


class General(productmd.common.MetadataBase):'''))
M("n67", "neutral", [], "get_variants: filters extracted into a predicate",
  (CI, '''            if types and variant.type not in types:
                continue
            if arch and arch not in variant.arches.union(["src"]):
                continue
            result.append(variant)''', '''            if _filtered_out(variant, arch, types):
                continue
            result.append(variant)'''),
  (CI, '''class Variants(VariantBase):
    """
    This class is a container for compose variants.''', '''def _filtered_out(variant, arch, types):
    if types and variant.type not in types:
        return True
    if arch and arch not in variant.arches.union(["src"]):
        return True
    return False


class Variants(VariantBase):
    """
    This class is a container for compose variants.'''))
M("n69", "neutral", [], "treeinfo Variant.deserialize_1_0: section lookup extracted",
  (TI, '''        # the section name depends on the variant type, which is not known yet
        section = "variant-%s" % uid
        if not parser.has_section(section):
            section = "addon-%s" % uid
        self.id = parser.get(section, "id")''', '''        section = _variant_section(parser, uid)
        self.id = parser.get(section, "id")'''),
  (TI, '''class Images(productmd.common.MetadataBase):

    def __init__(self, metadata):''', '''def _variant_section(parser, uid):
    section = "variant-%s" % uid
    if not parser.has_section(section):
        section = "addon-%s" % uid
    return section


class Images(productmd.common.MetadataBase):

    def __init__(self, metadata):'''))

M("n70", "neutral", [], "Images.add: collision test split into 'continue' + 'if'",
  (IM, '''                        if identify_image(curimg) == identify_image(image) and curimg.checksums != image.checksums:
                            raise ValueError("Image {0} shares all UNIQUE_IMAGE_ATTRIBUTES with "
                                             "image {1}! This is forbidden.".format(image, curimg))''', '''                        if identify_image(curimg) != identify_image(image):
                            continue
                        if curimg.checksums != image.checksums:
                            raise ValueError("Image {0} shares all UNIQUE_IMAGE_ATTRIBUTES with "
                                             "image {1}! This is forbidden.".format(image, curimg))'''))
M("n71", "neutral", [], "Modules.add: emptiness checks written as a table-driven loop over a tuple of pairs",
  (MO, '''        for param_name, param in {"variant": variant, "koji_tag": koji_tag, "modulemd_path": modulemd_path}.items():
            if not param:
                raise ValueError("Non-empty '%s' is expected" % param_name)''', '''        for param_name, param in (("variant", variant), ("koji_tag", koji_tag), ("modulemd_path", modulemd_path)):
            if not param:
                raise ValueError("Non-empty '%s' is expected" % param_name)'''))
M("n72", "neutral", [], "Modules.add: emptiness checks written out",
  (MO, '''        for param_name, param in {"variant": variant, "koji_tag": koji_tag, "modulemd_path": modulemd_path}.items():
            if not param:
                raise ValueError("Non-empty '%s' is expected" % param_name)''', '''        if not modulemd_path:
            raise ValueError("Non-empty 'modulemd_path' is expected")'''))

M("n73", "neutral", [], "Image.deserialize: checksums copied entry by entry instead of aliasing the parsed document",
  (IM, '''        self.checksums = data["checksums"]''', '''        self.checksums = {}
        for checksum_type, checksum_value in data["checksums"].items():
            self.checksums[checksum_type] = checksum_value'''))
M("n74", "neutral", [], "Image.deserialize: checksums copied with dict()",
  (IM, '''        self.checksums = data["checksums"]''', '''        self.checksums = dict(data["checksums"])'''))

M("n75", "neutral", [], "Image.serialize: record building extracted into a method that returns the dict",
  (IM, '''    def serialize(self, parser):
        data = parser
        self.validate()
        result = {
            "path": self.path,''', '''    def serialize(self, parser):
        data = parser
        data.append(self._as_record())

    def _as_record(self):
        self.validate()
        result = {
            "path": self.path,'''),
  (IM, '''            result["additional_variants"] = self.additional_variants
        data.append(result)''', '''            result["additional_variants"] = self.additional_variants
        return result'''))

# ---- C14 round trip (abstract interpretation over segment strings) ----
M("c14r1", "fire", ["C14"], "release-id parser splits from the left",
  (CO, '''        short, version, release_type_extracted = release_id.rsplit("-", 2)''', '''        short, version, release_type_extracted = release_id.split("-", 2)'''))
M("c14r2", "fire", ["C14"], "release-id parser: known type not removed before splitting",
  (CO, '''            release_id = release_id[:-len(release_type)]
''', '''            pass
'''))
M("c14r3", "fire", ["C14"], "release-id parser: base product prefix lost",
  (CO, '''        result.update(_parse_release_id_part(base_product, prefix="bp_"))''', '''        result.update(_parse_release_id_part(base_product))'''))
M("c14r4", "fire", ["C14"], "release-id parser: 'ga' shortcut taken for any id without a known type suffix position",
  (CO, '''    if release_id.count("-") == 1:
        # TODO: what if short contains '-'?''', '''    if release_id.count("-") <= 2:
        # TODO: what if short contains '-'?'''))
M("c14r5", "fire", ["C14"], "create_release_id: type and version swapped in the identifier",
  (CO, '''        result = "%s-%s-%s" % (short, version, type)''', '''        result = "%s-%s-%s" % (short, type, version)'''))

M("n76", "neutral", [], "Images: identity collisions re-checked by a validator before anything is written",
  (IM, '''    def _add_1_1(self, data, variant, arch, image):''', '''    def _validate_unique_identities(self):
        seen = {}
        for variant in self.images:
            for arch in self.images[variant]:
                for image in self.images[variant][arch]:
                    other = seen.setdefault(identify_image(image), image)
                    if other.checksums != image.checksums:
                        raise ValueError("Image {0} shares all UNIQUE_IMAGE_ATTRIBUTES with image {1}!".format(image, other))

    def _add_1_1(self, data, variant, arch, image):'''),
  (IM, '''    def serialize(self, parser):
        data = parser
        self.header.serialize(data)
        data["payload"] = {}
        data["payload"]["images"] = {}''', '''    def serialize(self, parser):
        self.validate()
        data = parser
        self.header.serialize(data)
        data["payload"] = {}
        data["payload"]["images"] = {}'''))

M("d15", "fire", ["C02", "C09"], "D15 reverted: a fresh Images() stays at header version 0.0",
  (IM, '''        # a new manifest is written in the current format: enforce its rules (image uniqueness) from the start
        self.header.set_current_version()
''', ''))
M("d15b", "fire", ["C02", "C09"], "fresh Images() only switches to the current version when a flag is given",
  (IM, '''        # a new manifest is written in the current format: enforce its rules (image uniqueness) from the start
        self.header.set_current_version()
''', '''        if getattr(self, "_strict", False):
            self.header.set_current_version()
'''))

# ---- guards against the relaxations made for the evolution corpus (each relaxation has a mutant just across its border) ----
M("x01", "fire", ["C06", "C07"], "validator returns early for a float mtime instead of refusing it",
  (IM, '''    def _validate_mtime(self):
        self._assert_type("mtime", list(six.integer_types))''', '''    def _validate_mtime(self):
        if isinstance(self.mtime, float):
            return
        self._assert_type("mtime", list(six.integer_types))'''))
M("x02", "neutral", [], "validator refuses a float mtime with its own message before the generic type check",
  (IM, '''    def _validate_mtime(self):
        self._assert_type("mtime", list(six.integer_types))''', '''    def _validate_mtime(self):
        if isinstance(self.mtime, float):
            raise TypeError("Image: mtime must be an integer number of seconds, got a float: %r" % self.mtime)
        self._assert_type("mtime", list(six.integer_types))'''))
M("x03", "fire", ["C09"], "collision scan skips images with the same path (not the same object)",
  (IM, '''                        if identify_image(curimg) == identify_image(image) and curimg.checksums != image.checksums:''',
   '''                        if curimg.path == image.path:
                            continue
                        if identify_image(curimg) == identify_image(image) and curimg.checksums != image.checksums:'''))
M("x04", "fire", ["C04"], "tree platforms read with strip() although nothing refuses padded names",
  (TI, '''        self.platforms = set([i for i in parser.get(section, "platforms").split(",") if i])''',
   '''        self.platforms = set(i.strip() for i in parser.get(section, "platforms").split(",") if i.strip())'''))
M("x05", "fire", ["C12"], "source package key canonicalised from the wrong argument",
  (RP, '''            srpm_nevra, _ = self._check_nevra(srpm_nevra)''', '''            srpm_nevra, _ = self._check_nevra(nevra)'''))
M("x06", "fire", ["C20"], "_file_exists treats every string as a URL when it contains a colon",
  (CO, '''    if path.startswith(("http://", "https://", "ftp://")):''', '''    if path.startswith(("http://", "https://", "ftp://")) or ":" in path:'''))
M("x07", "fire", ["C07"], "TreeInfo.load override that skips deserialize for files without a header",
  (TI, '''    def dump(self, f, main_variant=None):''', '''    def load(self, f):
        with productmd.common.open_file_obj(f) as fo:
            parser = self.parse_file(fo)
        if parser.has_section("header"):
            self.deserialize(parser)

    def dump(self, f, main_variant=None):'''))

M("n77", "neutral", [], "_relative_to moved to common.py and imported back into extra_files",
  (EF, '''def _relative_to(path, root):
    root = root.rstrip("/") + "/"
    if path.startswith(root):
        return path[len(root):]
    return path
''', ''),
  (EF, '''import productmd.common
''', '''import productmd.common
from productmd.common import _relative_to
'''),
  (CO, '''def _file_exists(path):''', '''def _relative_to(path, root):
    root = root.rstrip("/") + "/"
    if path.startswith(root):
        return path[len(root):]
    return path


def _file_exists(path):'''))

M("n78", "neutral", [], "Images._add_1_1 folded into the record loop of deserialize",
  (IM, '''                    if self.header.version_tuple <= (1, 1):
                        self._add_1_1(data, variant, arch, image_obj)
                    else:
                        self.add(variant, arch, image_obj)''', '''                    if self.header.version_tuple <= (1, 1) and arch == "src":
                        # move src under binary arches
                        for variant_arch in data["payload"]["images"][variant]:
                            if variant_arch != "src":
                                self.add(variant, variant_arch, image_obj)
                    else:
                        self.add(variant, arch, image_obj)'''),
  (IM, '''    def _add_1_1(self, data, variant, arch, image):
        if arch == "src":
            # move src under binary arches
            for variant_arch in data["payload"]["images"][variant]:
                if variant_arch == "src":
                    continue
                self.add(variant, variant_arch, image)
        else:
            self.add(variant, arch, image)

''', ''))

M("n79", "neutral", [], "label patterns folded into one correctly grouped alternation",
  (CI, '''def verify_label(label):
    if label is None:
        return
    found = False
    for pattern in LABEL_RE_LIST:
        if pattern.match(label):
            found = True
            break
    if not found:
        raise ValueError("Label in unknown format: %s" % label)
    return label''', '''LABEL_RE = re.compile(r"^(?:%s)-\\d+\\.\\d+$" % "|".join(re.escape(i) for i in LABEL_NAMES))


def verify_label(label):
    if label is None:
        return
    if not LABEL_RE.match(label):
        raise ValueError("Label in unknown format: %s" % label)
    return label'''),
  (CI, '''LABEL_RE_LIST = []
for label_name in LABEL_NAMES:
    # create $label_name-$major_ver.$minor_ver patterns
    LABEL_RE_LIST.append(re.compile(r"^%s-\\d+\\.\\d+$" % label_name))
''', ''))

M("n80", "neutral", [], "Header.is_legacy property (version_tuple < VERSION) used as the gate of Images.deserialize",
  (CO, '''    def set_current_version(self):''', '''    @property
    def is_legacy(self):
        """True if the metadata were written in an older format than the current one."""
        return self.version_tuple < VERSION

    def set_current_version(self):'''),
  (IM, '''                    if self.header.version_tuple <= (1, 1):
                        self._add_1_1(data, variant, arch, image_obj)''', '''                    if self.header.is_legacy:
                        self._add_1_1(data, variant, arch, image_obj)'''))

M("c02h", "fire", ["C02", "C06", "C07"], "a non-unified image may name one additional variant: written without it, read back empty",
  (IM, '''        if self.additional_variants and not self.unified:''', '''        if len(self.additional_variants) > 1 and not self.unified:'''))

M("n81", "neutral", [], "unified/additional_variants rule spelled as two nested ifs",
  (IM, '''        if self.additional_variants and not self.unified:
            raise ValueError("Only unified images can contain multiple variants")''', '''        if self.additional_variants:
            if not self.unified:
                raise ValueError("Only unified images can contain multiple variants")'''))

M("n82", "neutral", [], "elements of additional_variants checked as well (stricter validator, same final rule)",
  (IM, '''        if self.additional_variants and not self.unified:''', '''        for variant in self.additional_variants:
            if not isinstance(variant, six.string_types):
                raise TypeError("%s: additional variant must be a string: %s" % (self.__class__.__name__, variant))
        if self.additional_variants and not self.unified:'''))

M("n83", "neutral", [], "Image fields (de)serialised from a module-level table; mandatory keys still read hard, subvariant optional up to 1.0",
  (IM, '''UniqueImage = namedtuple('UniqueImage', UNIQUE_IMAGE_ATTRIBUTES)
''', '''UniqueImage = namedtuple('UniqueImage', UNIQUE_IMAGE_ATTRIBUTES)

#: fields every serialized image carries, as (name, type to coerce to on load or None to take the value as is)
IMAGE_FIELDS = [
    ("path", None),
    ("mtime", int),
    ("size", int),
    ("volume_id", None),
    ("type", None),
    ("format", None),
    ("arch", None),
    ("disc_number", int),
    ("disc_count", int),
    ("checksums", None),
    ("implant_md5", None),
    ("bootable", bool),
    ("subvariant", None),
]

#: values for fields that may be left out of a serialized image
IMAGE_FIELD_DEFAULTS = {
    "format": "iso",
}
'''),
  (IM, '''        result = {
            "path": self.path,
            "mtime": self.mtime,
            "size": self.size,
            "volume_id": self.volume_id,
            "type": self.type,
            "format": self.format,
            "arch": self.arch,
            "disc_number": self.disc_number,
            "disc_count": self.disc_count,
            "checksums": self.checksums,
            "implant_md5": self.implant_md5,
            "bootable": self.bootable,
            "subvariant": self.subvariant,
        }
''', '''        result = dict((name, getattr(self, name)) for name, _ in IMAGE_FIELDS)
'''),
  (IM, '''        self.path = data["path"]
        self.mtime = int(data["mtime"])
        self.size = int(data["size"])
        self.volume_id = data["volume_id"]
        self.type = data["type"]
        self.format = data.get("format", "iso")
        self.arch = data["arch"]
        self.disc_number = int(data["disc_number"])
        self.disc_count = int(data["disc_count"])
        self.checksums = data["checksums"]
        self.implant_md5 = data["implant_md5"]
        self.bootable = bool(data["bootable"])
        if self.parent.header.version_tuple <= (1, 0):
            self.subvariant = data.get("subvariant", "")
        else:
            # 1.1+
            self.subvariant = data["subvariant"]
''', '''        defaults = dict(IMAGE_FIELD_DEFAULTS)
        if self.parent.header.version_tuple <= (1, 0):
            # subvariant is mandatory since 1.1
            defaults["subvariant"] = ""
        for name, coerce in IMAGE_FIELDS:
            if name in defaults:
                value = data.get(name, defaults[name])
            else:
                value = data[name]
            if coerce is not None:
                value = coerce(value)
            setattr(self, name, value)
'''))

M("c07k", "fire", ["C07"], "table-driven Image reader takes every missing field as None: volume_id, implant_md5 and bootable then load",
  (IM, '''UniqueImage = namedtuple('UniqueImage', UNIQUE_IMAGE_ATTRIBUTES)
''', '''UniqueImage = namedtuple('UniqueImage', UNIQUE_IMAGE_ATTRIBUTES)

#: fields every serialized image carries, as (name, type to coerce to on load or None to take the value as is)
IMAGE_FIELDS = [
    ("path", None),
    ("mtime", int),
    ("size", int),
    ("volume_id", None),
    ("type", None),
    ("format", None),
    ("arch", None),
    ("disc_number", int),
    ("disc_count", int),
    ("checksums", None),
    ("implant_md5", None),
    ("bootable", bool),
    ("subvariant", None),
]

#: values for fields that may be left out of a serialized image
IMAGE_FIELD_DEFAULTS = {
    "format": "iso",
}
'''),
  (IM, '''        result = {
            "path": self.path,
            "mtime": self.mtime,
            "size": self.size,
            "volume_id": self.volume_id,
            "type": self.type,
            "format": self.format,
            "arch": self.arch,
            "disc_number": self.disc_number,
            "disc_count": self.disc_count,
            "checksums": self.checksums,
            "implant_md5": self.implant_md5,
            "bootable": self.bootable,
            "subvariant": self.subvariant,
        }
''', '''        result = dict((name, getattr(self, name)) for name, _ in IMAGE_FIELDS)
'''),
  (IM, '''        self.path = data["path"]
        self.mtime = int(data["mtime"])
        self.size = int(data["size"])
        self.volume_id = data["volume_id"]
        self.type = data["type"]
        self.format = data.get("format", "iso")
        self.arch = data["arch"]
        self.disc_number = int(data["disc_number"])
        self.disc_count = int(data["disc_count"])
        self.checksums = data["checksums"]
        self.implant_md5 = data["implant_md5"]
        self.bootable = bool(data["bootable"])
        if self.parent.header.version_tuple <= (1, 0):
            self.subvariant = data.get("subvariant", "")
        else:
            # 1.1+
            self.subvariant = data["subvariant"]
''', '''        defaults = dict(IMAGE_FIELD_DEFAULTS)
        if self.parent.header.version_tuple <= (1, 0):
            # subvariant is mandatory since 1.1
            defaults["subvariant"] = ""
        for name, coerce in IMAGE_FIELDS:
            value = data.get(name, defaults.get(name))
            if coerce is not None:
                value = coerce(value)
            setattr(self, name, value)
'''))

M("c01m", "fire", ["C01"], "is_layered written only when it is false: a layered release is read back as not layered",
  (CI, '''        if self.is_layered:
            data[self._section]["is_layered"] = bool(self.is_layered)
        data[self._section]["internal"]''', '''        if not self.is_layered:
            data[self._section]["is_layered"] = bool(self.is_layered)
        data[self._section]["internal"]'''))

M("c14h", "fire", ["C14"], "base-product parts no longer get their bp_ prefix: they overwrite the release parts",
  (CO, '''    result = dict([("%s%s" % (prefix, key), value) for key, value in result.items()])
    return result''', '''    return result'''))

M("c14i", "fire", ["C14"], "parse_release_id forgets to merge the base-product part",
  (CO, '''        result.update(_parse_release_id_part(base_product, prefix="bp_"))''', '''        _parse_release_id_part(base_product, prefix="bp_")'''))

M("c05l", "fire", ["C05"], "label of a pre-0.3 composeinfo dropped on conversion (and None for or None)",
  (CI, '''    def deserialize_0_3(self, data):
        self.id = data[self._section]["id"]
        self.label = data[self._section].get("label", None) or None''', '''    def deserialize_0_3(self, data):
        self.id = data[self._section]["id"]
        self.label = data[self._section].get("label", None) and None'''))

M("n84", "neutral", [], "release-id part parser builds the prefixed dict directly",
  (CO, '''    result = {
        "short": short,
        "version": version,
        "type": release_type,
    }
    result = dict([("%s%s" % (prefix, key), value) for key, value in result.items()])
    return result''', '''    return {
        prefix + "short": short,
        prefix + "version": version,
        prefix + "type": release_type,
    }'''))

M("c01n", "fire", ["C01", "C05"], "Release forgets its own section name and inherits base_product's",
  (CI, '''        super(Release, self).__init__(metadata)
        self._section = "release"
''', '''        super(Release, self).__init__(metadata)
'''))

M("c05m", "fire", ["C05"], "option_lookup asks has_option(option, section): no legacy location is ever found",
  (CO, '''            if self.has_option(section, option):
                return self.get(section, option)''', '''            if self.has_option(option, section):
                return self.get(section, option)'''))

M("c05n", "fire", ["C05"], "option_lookup finds the option but does not return it",
  (CO, '''            if self.has_option(section, option):
                return self.get(section, option)
        return default''', '''            if self.has_option(section, option):
                self.get(section, option)
        return default'''))

M("c11m", "fire", ["C11"], "ComposeInfo[...] no longer hands out the variant",
  (CI, '''    def __getitem__(self, name):
        return self.variants[name]

    def get_variants(self, *args, **kwargs):''', '''    def __getitem__(self, name):
        self.variants[name]

    def get_variants(self, *args, **kwargs):'''))

M("n85", "neutral", [], "option_lookup as first match or default",
  (CO, '''        for section, option in section_option_list:
            if self.has_option(section, option):
                return self.get(section, option)
        return default''', '''        return next((self.get(section, option) for section, option in section_option_list
                     if self.has_option(section, option)), default)'''))

M("c11n", "fire", ["C11"], "the handler that detaches a refused variant swallows the exception",
  (CI, '''            variant.parent = old_parent
            raise
''', '''            variant.parent = old_parent
'''))

M("c12n", "fire", ["C12", "C13"], "the parsed epoch is thrown away: every canonical name gets epoch 0",
  (RP, '''        nevra_dict["epoch"] = nevra_dict["epoch"] or 0''', '''        nevra_dict["epoch"] = nevra_dict["epoch"] and 0'''))

M("c12o", "fire", ["C12"], "a documented RPM category misspelt in the table",
  (RP, '''SUPPORTED_CATEGORIES = ["binary", "debug", "source"]''', '''SUPPORTED_CATEGORIES = ["binary", "debu", "source"]'''))

M("c05o", "fire", ["C05"], "the 0.3 rpm manifest reader no longer reads the compose section",
  (RP, '''    def deserialize_0_3(self, data):
        self.compose.deserialize(data["payload"])
''', '''    def deserialize_0_3(self, data):
'''))

M("c05p", "fire", ["C05"], "pre-productmd source trees: the packages path is no longer moved to source_packages",
  (TI, '''        if self._metadata.tree.arch == "src":
            self.source_packages = self.packages
            self.source_repository = self.repository
            self.packages = None
            self.repository = None

        # identity''', '''        if self._metadata.tree.arch == "src":
            self.source_repository = self.repository
            self.packages = None
            self.repository = None

        # identity'''))

M("c05q", "fire", ["C05"], "0.3 treeinfo: the source swap happens for every tree but source trees",
  (TI, '''            value = parser.option_lookup(lookup, None)
            setattr(self, field, value)

        if self._metadata.tree.arch == "src":''', '''            value = parser.option_lookup(lookup, None)
            setattr(self, field, value)

        if self._metadata.tree.arch != "src":'''))

M("c05r", "fire", ["C05"], "0.3 rpm manifest: sigkey of the binary package read from the wrong key",
  (RP, '''rpm_data["path"], rpm_data["sigkey"], category, srpm_nevra)''', '''rpm_data["path"], rpm_data["path"], category, srpm_nevra)'''))

M("c04m", "fire", ["C04"], "is_layered is probed with section and option swapped: never found, a layered release is read back as not layered",
  (TI, '''    def deserialize_1_0(self, parser):
        self.name = parser.get(self._section, "name")
        self.version = parser.get(self._section, "version")
        if parser.has_option(self._section, "short"):
            self.short = parser.get(self._section, "short")
        else:
            self.short = self.name
        if parser.has_option(self._section, "is_layered"):''', '''    def deserialize_1_0(self, parser):
        self.name = parser.get(self._section, "name")
        self.version = parser.get(self._section, "version")
        if parser.has_option(self._section, "short"):
            self.short = parser.get(self._section, "short")
        else:
            self.short = self.name
        if parser.has_option("is_layered", self._section):'''))

M("c11o", "fire", ["C11"], "get_variants: the recursion result is thrown away",
  (CI, '''                result.extend(variant.get_variants(arch=arch, types=[i for i in types if i != "self"], recursive=True))''',
       '''                variant.get_variants(arch=arch, types=[i for i in types if i != "self"], recursive=True)'''))

M("c11p", "fire", ["C11"], "get_variants: only the pseudo-type 'self' is passed down",
  (CI, '''types=[i for i in types if i != "self"], recursive=True))''', '''types=[i for i in types if i == "self"], recursive=True))'''))

M("c01o", "fire", ["C01"], "the child list is probed under a misspelt key: children are never read",
  (CI, '''        if "variants" in data:
            variant_ids = sorted(data["variants"])''', '''        if "variant" in data:
            variant_ids = sorted(data["variants"])'''))

M("c11q", "fire", ["C11"], "the 'is this a Variant' probe asks for an attribute nothing has: parent pointers are never set",
  (CI, '''        if hasattr(self, "uid"):
            # detect Variant; we don't want to set parent for VariantBase or Variants''', '''        if hasattr(self, "uuid"):
            # detect Variant; we don't want to set parent for VariantBase or Variants'''))

M("c05s", "fire", ["C05"], "documents without a release type are read as type 'g'",
  (CI, '''        self.type = data[self._section].get("type", "ga").lower()
        self.is_layered = bool(data[self._section].get("is_layered", False))
        self.internal''', '''        self.type = data[self._section].get("type", "g").lower()
        self.is_layered = bool(data[self._section].get("is_layered", False))
        self.internal'''))

M("c05t", "fire", ["C05"], "pre-productmd image paths below /os/ keep one character too many",
  (TI, '''class Images(productmd.common.MetadataBase):

    def __init__(self, metadata):
        super(Images, self).__init__()
        self._metadata = metadata
        self.images = {}

    def __getitem__(self, platform):
        return self.images[platform]

    def _fix_path(self, path):
        if self._metadata.header.version_tuple == (0, 0):
            if path.startswith("/"):
                if "/os/" in path:
                    path = path[path.find("/os/")+4:]''', '''class Images(productmd.common.MetadataBase):

    def __init__(self, metadata):
        super(Images, self).__init__()
        self._metadata = metadata
        self.images = {}

    def __getitem__(self, platform):
        return self.images[platform]

    def _fix_path(self, path):
        if self._metadata.header.version_tuple == (0, 0):
            if path.startswith("/"):
                if "/os/" in path:
                    path = path[path.find("/os/")+3:]'''))

M("c05u", "fire", ["C05"], "0.3 treeinfo variants: the addons option is probed with section and option swapped",
  (TI, '''        addons = ""
        if parser.has_option(section, "addons"):
            addons = parser.get(section, "addons")
        elif parser.has_option(section, "variants"):''', '''        addons = ""
        if parser.has_option("addons", section):
            addons = parser.get(section, "addons")
        elif parser.has_option(section, "variants"):'''))

M("c04n", "fire", ["C04"], "is_layered is read when another (misspelt) option exists: never",
  (TI, '''        if parser.has_option(self._section, "is_layered"):
            self.is_layered = parser.getboolean(self._section, "is_layered")

    @property
    def major_version''', '''        if parser.has_option(self._section, "is_layere"):
            self.is_layered = parser.getboolean(self._section, "is_layered")

    @property
    def major_version'''))

# ---- early exits buried inside a branch (the condition of the exit must reach what follows the branch) ----
M("c06x1", "fire", ["C06"], "composeinfo Release.serialize leaves before validate() from inside a branch (nested if)",
  (CI, '''    def serialize(self, data):
        self.validate()
        data[self._section] = {}
        data[self._section]["name"] = self.name
        data[self._section]["version"] = self.version
        data[self._section]["short"] = self.short
        data[self._section]["type"] = self.type
        if self.is_layered:''', '''    def serialize(self, data):
        if self.is_layered:
            layered = data.setdefault(self._section, {})
            if not self.short:
                layered["name"] = self.name
                return
        self.validate()
        data[self._section] = {}
        data[self._section]["name"] = self.name
        data[self._section]["version"] = self.version
        data[self._section]["short"] = self.short
        data[self._section]["type"] = self.type
        if self.is_layered:'''))
M("c07x1", "fire", ["C07"], "composeinfo Compose.deserialize leaves before validate() from the else branch of a nested test",
  (CI, '''            self.deserialize_1_0(data)
        self.validate()

    def deserialize_0_3(self, data):
        self.id = data[self._section]["id"]''', '''            self.deserialize_1_0(data)
            if self.final:
                self.label = self.label or None
            else:
                if not self.label:
                    return
        self.validate()

    def deserialize_0_3(self, data):
        self.id = data[self._section]["id"]'''))
M("c11x1", "fire", ["C11"], "get_variants: the type filter sits inside a branch that also skips every variant without arches",
  (CI, '''            if types and variant.type not in types:
                continue
            if arch and arch not in variant.arches.union(["src"]):
                continue''', '''            if types:
                wanted = set(types)
                if variant.type not in wanted or not variant.arches:
                    continue
            if arch and arch not in variant.arches.union(["src"]):
                continue'''))

# ============================================================ sharing rules (round 8) ======================
M("sh1", "fire", ["C03", "C12"], "Rpms() without argument shares one default mapping",
  (RP, '''    def __init__(self):
        super(Rpms, self).__init__()
        self.header = Header(self, "productmd.rpms")
        self.compose = Compose(self)
        self.rpms = {}''', '''    def __init__(self, rpms={}):
        super(Rpms, self).__init__()
        self.header = Header(self, "productmd.rpms")
        self.compose = Compose(self)
        self.rpms = rpms'''))
M("sh2", "neutral", [], "Rpms(rpms=None) starts from a fresh mapping unless one is given",
  (RP, '''    def __init__(self):
        super(Rpms, self).__init__()
        self.header = Header(self, "productmd.rpms")
        self.compose = Compose(self)
        self.rpms = {}''', '''    def __init__(self, rpms=None):
        super(Rpms, self).__init__()
        self.header = Header(self, "productmd.rpms")
        self.compose = Compose(self)
        self.rpms = {} if rpms is None else rpms'''))
M("sh3", "neutral", [], "get_variants with a mutable default that is only read (types=[] never stored or changed)",
  (CI, '''    def get_variants(self, arch=None, types=None, recursive=False):''',
       '''    def get_variants(self, arch=None, types=(), recursive=False):'''))
M("sh4", "fire", ["C14"], "a release type seen while validating is appended to the shared RELEASE_TYPES table",
  (CI, '''    def _validate_type(self):
        self._assert_type("type", list(six.string_types))
        self._assert_value("type", productmd.common.RELEASE_TYPES)

    @property''', '''    def _validate_type(self):
        self._assert_type("type", list(six.string_types))
        known = productmd.common.RELEASE_TYPES
        if self.type.endswith("-testing") and self.type not in known:
            known.append(self.type)
        self._assert_value("type", productmd.common.RELEASE_TYPES)

    @property'''))
M("sh5", "neutral", [], "a local copy of RELEASE_TYPES is extended, the table itself is untouched",
  (CO, '''def is_valid_release_type(release_type):''', '''def _release_types_with(extra):
    types = list(RELEASE_TYPES)
    types.append(extra)
    return types


def is_valid_release_type(release_type):'''))

# ============================================================ readers visit every entry (automatic-mutant candidates) ===
M("rc1", "fire", ["C01", "C05"], "legacy top-level scan of composeinfo variants stops at the first child instead of skipping it",
  (CI, '''                    if head in all_variants:
                        # has parent, skip it
                        continue''', '''                    if head in all_variants:
                        # has parent, skip it
                        break'''))
M("rc2", "fire", ["C03", "C05"], "0.3 rpm manifest reader stops at the src arch instead of skipping it",
  (RP, '''                if arch == "src":
                    continue
                for srpm_nevra, rpms in payload[variant][arch].items():''', '''                if arch == "src":
                    break
                for srpm_nevra, rpms in payload[variant][arch].items():'''))
M("sc1", "fire", ["C01"], "composeinfo BaseProduct.serialize no longer creates its section (KeyError for every layered compose)",
  (CI, '''        self.validate()
        data[self._section] = {}
        data[self._section]["name"] = self.name
        data[self._section]["version"] = self.version
        data[self._section]["short"] = self.short
        data[self._section]["type"] = self.type

    def deserialize(self, data):''', '''        self.validate()
        data[self._section]["name"] = self.name
        data[self._section]["version"] = self.version
        data[self._section]["short"] = self.short
        data[self._section]["type"] = self.type

    def deserialize(self, data):'''))
M("sc2", "fire", ["C04"], "treeinfo Tree.serialize no longer creates its section (NoSectionError for every tree)",
  (TI, '''        self.validate()
        parser.add_section(self._section)
        parser.set(self._section, "arch", self.arch)''', '''        self.validate()
        parser.set(self._section, "arch", self.arch)'''))
M("lv1", "fire", ["C05"], "pre-productmd tree reader no longer puts the tree's own arch among its platforms",
  (TI, '''        self.arch = parser.get("general", "arch")
        self.platforms.add(self.arch)
''', '''        self.arch = parser.get("general", "arch")
'''))
