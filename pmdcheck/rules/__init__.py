# -*- coding: utf-8 -*-
"""registry: property id -> check(model, report, tier)"""
REGISTRY = {}


def register(pid):
    def deco(fn):
        REGISTRY[pid] = fn
        return fn
    return deco


def _load():
    import importlib
    import pkgutil
    import os
    for m in pkgutil.iter_modules([os.path.dirname(__file__)]):
        importlib.import_module("%s.%s" % (__name__, m.name))


_load()
