# -*- coding: utf-8 -*-
"""
R-ADD-ATOMIC -- failure atomicity of the builder functions ("a refused call changes nothing").

Path rule: after the first store to receiver *or argument* state no raising event may follow, unless
 (I1) the store is compensated: the old value was saved in a local before, and a handler on the raising
      path stores it back, or
 (I2) it is the insert-if-absent idiom  ``r = d.setdefault(k, v)`` / ``if r != v: raise`` -- on the raising
      branch nothing was inserted.
Raising events are explicit ``raise`` statements and calls whose resolved callee may raise
ValueError/TypeError (transitive summary), including ``x.validate()``.
"""
from __future__ import annotations

import ast

from .. import facts
from ..core import AnalysisError
from ..walker import PathRule, Walker

MUTATORS = ("setdefault", "append", "extend", "add", "update", "insert", "pop", "remove", "clear", "discard",
            "sort", "reverse", "popitem")


def _text(node):
    return ast.unparse(node)


def _writes_receiver(fn):
    """does the method change the object it is called on (attribute / item stores, del, mutator calls rooted at its self)?"""
    if not fn.args.args:
        return False
    s_ = fn.args.args[0].arg

    def rooted(n):
        while isinstance(n, (ast.Attribute, ast.Subscript)):
            n = n.value
        return isinstance(n, ast.Name) and n.id == s_
    for n in ast.walk(fn):
        if isinstance(n, (ast.Attribute, ast.Subscript)) and isinstance(getattr(n, "ctx", None), (ast.Store, ast.Del)) and rooted(n):
            return True
        if isinstance(n, ast.Call) and isinstance(n.func, ast.Attribute) and n.func.attr in MUTATORS and rooted(n.func.value) \
                and not isinstance(n.func.value, ast.Name):
            return True
    return False


class Atomic(PathRule):
    """state: frozenset of tokens
         ('M', text)            uncompensated mutation of state reachable from a parameter
         ('SD', var, valtext, text)   result of  var = X.setdefault(k, val)  not yet classified
         ('SAVED', local, text) local holds the pre-mutation value of <text>
    """

    def __init__(self, model, fref, builders, ignore_mutators=()):
        self.ignore_mutators = set(ignore_mutators)
        self.model = model
        self.fref = fref
        fn = fref.node
        self.params = set(a.arg for a in fn.args.args + fn.args.kwonlyargs)
        self.aliases = facts.rooted_aliases(fn, self.params)
        # locals that are plain re-bindings of a parameter value (sigkey = sigkey.lower()) are not state
        self.ltypes = model.local_types(fref)
        self.builders = builders      # FuncRefs of the other builder functions (atomic themselves)
        self.raising_sites = 0

    def helper(self, call):
        """a method of the class the rules do not know (extracted from the builder): its body is walked in place of the call"""
        from ..walker import unknown_self_helper
        fn = self.fref.node
        if not fn.args.args:
            return None
        h = unknown_self_helper(self.model, self.fref, call, fn.args.args[0].arg)
        if h is None:
            return None
        # the helper's parameters alias whatever state the arguments alias
        for p_, a in zip([x.arg for x in h.args.args[1:]], call.args):
            if self._is_state_root(a):
                self.aliases.add(p_)
        self.aliases |= facts.rooted_aliases(h, {h.args.args[0].arg} | (self.aliases & set(x.arg for x in h.args.args)))
        return (h, self)

    # -- helpers -----------------------------------------------------------------------------------------
    def _is_state_root(self, node):
        r = facts._root_name(node)
        return r is not None and r in self.aliases

    def _mutated(self, st):
        return sorted(x[1] for x in st if x[0] == "M") + sorted(x[3] for x in st if x[0] == "SD")

    def effect(self, eff, st):
        if eff.kind == "store":
            t = eff.target
            if isinstance(t, ast.Name):
                # local = <param-rooted attribute>   -> remember as a saved value
                v = eff.value
                st2 = frozenset(x for x in st if not (x[0] in ("SAVED", "SD") and x[1] == t.id))
                if isinstance(v, (ast.Attribute, ast.Subscript)) and self._is_state_root(v) and isinstance(eff.stmt, ast.Assign) \
                        and eff.stmt.value is v:
                    st2 = st2 | {("SAVED", t.id, _text(v))}
                # var = X.setdefault(k, val)
                if isinstance(v, ast.Call) and isinstance(v.func, ast.Attribute) and v.func.attr == "setdefault" \
                        and self._is_state_root(v.func.value) and len(v.args) == 2 and eff.stmt.value is v:
                    # the call effect (processed just before) recorded an M for it: reclassify as SD
                    txt = _text(v.func.value)
                    st2 = frozenset(x for x in st2 if x != ("M", txt + ".setdefault")) | {("SD", t.id, _text(v.args[1]), txt + ".setdefault")}
                return [st2], []
            if isinstance(t, (ast.Attribute, ast.Subscript)) and self._is_state_root(t):
                txt = _text(t)
                v = eff.value
                # compensation: X.attr = <local holding the saved value of X.attr>
                if isinstance(v, ast.Name) and ("SAVED", v.id, txt) in st:
                    return [frozenset(x for x in st if x != ("M", txt))], []
                # a fresh local container being filled is not state: rooted_aliases only follows parameters
                return [st | {("M", txt)}], []
            return [st], []
        if eff.kind == "del":
            if self._is_state_root(eff.target):
                return [st | {("M", "del " + _text(eff.target))}], []
            return [st], []
        if eff.kind == "call":
            c = eff.node
            raising = []
            normal = st
            if isinstance(c.func, ast.Attribute) and c.func.attr in MUTATORS and self._is_state_root(c.func.value):
                # x.add(...) on self where add is a repo builder is handled below as a call
                targets, exact = self.model.resolve_call(self.fref, c, self.ltypes)
                repo_targets = [t for t in targets if exact]
                if not repo_targets:
                    if c.func.attr in self.ignore_mutators:
                        return [st], []
                    normal = st | {("M", _text(c.func.value) + "." + c.func.attr)}
                    return [normal], []
            targets, exact = self.model.resolve_call(self.fref, c, self.ltypes)
            may = False
            mutates = False
            for t in targets:
                if t.node.name == "validate" or self.model.may_raise_validation(t):
                    may = True
                if t in self.builders:
                    mutates = True
            # a method called on *another* object reachable from the arguments (the variant's previous parent, say) that changes
            # that object: state the caller can see has changed, just as if the statement stood here
            if targets and isinstance(c.func, ast.Attribute) and self._is_state_root(c.func.value) \
                    and not (isinstance(c.func.value, ast.Name) and self.fref.node.args.args and c.func.value.id == self.fref.node.args.args[0].arg) \
                    and all(_writes_receiver(t.node) for t in targets):
                mutates = True
            if isinstance(c.func, ast.Attribute) and c.func.attr == "validate":
                may = True
            if may:
                self.raising_sites += 1
                raising.append((st, "ValueError"))
            if mutates:
                normal = st | {("M", _text(c.func) + "()")}
            return [normal], raising
        return [st], []

    def assume(self, test, polarity, st):
        # classify pending setdefault results:  if r != v  -> nothing was inserted on the True branch
        sds = [x for x in st if x[0] == "SD"]
        if not sds:
            return [st]
        out = set(st)
        t, pol = test, polarity
        while isinstance(t, ast.UnaryOp) and isinstance(t.op, ast.Not):
            t, pol = t.operand, not pol
        if isinstance(t, ast.Compare) and len(t.ops) == 1 and isinstance(t.ops[0], (ast.NotEq, ast.IsNot, ast.Eq, ast.Is)):
            l, r = t.left, t.comparators[0]
            differs_branch = pol if isinstance(t.ops[0], (ast.NotEq, ast.IsNot)) else (not pol)
            for sd in sds:
                names = {sd[1]}
                lt, rt = _text(l), _text(r)
                if (lt == sd[1] and rt == sd[2]) or (rt == sd[1] and lt == sd[2]):
                    out.discard(sd)
                    if not differs_branch:
                        out.add(("M", sd[3]))
        return [frozenset(out)]

    def on_raise(self, node, st):
        self.raising_sites += 1
        return st


def check_atomic(model, rep, rule_id, fref, builders, construct=None, ignore_mutators=()):
    rule = Atomic(model, fref, builders, ignore_mutators)
    ex = Walker(rule).run(fref.node, {frozenset()})
    bad = []
    for st, node, exc in ex.raise_:
        mutated = rule._mutated(st)
        if mutated:
            bad.append((getattr(node, "lineno", 0), "%s after mutation of %s" % (
                "raise" if isinstance(node, ast.Raise) else "%s() may raise" % ast.unparse(node.func), ", ".join(mutated))))
    if rule.raising_sites == 0:
        raise AnalysisError("%s: no raising event recognised in %s (idiom not understood)" % (rule_id, fref.qname))
    ok = not bad
    rep.ob(rule_id, construct or fref.qname, ok, site=fref.module.site(fref.node),
           msg="" if ok else "not failure-atomic: " + "; ".join("line %s: %s" % b for b in sorted(set(bad))),
           facts={"raising_exits": len(ex.raise_), "normal_exits": len(ex.normal) + len(ex.ret)})
    return ok
