# -*- coding: utf-8 -*-
"""
C12 -- manifest builders file each entry exactly where the arguments say.

Rules: R-ADD-ATOMIC (builders), R-EXC-TYPES, R-OPT-DEREF, R-ADD-REFUSALS, R-KEYS, R-UID-PARSE, R-RELATIVE-TO.
"""
from __future__ import annotations

import ast

from .. import facts, rx
from .. import terms as T
from ..core import AnalysisError
from ..model import FuncRef
from . import register
from .atomic import check_atomic
from .forest import builder_refs


# ---------------------------------------------------------------------------------------------------------
# R-OPT-DEREF
# ---------------------------------------------------------------------------------------------------------
def _is_optional_call(t):
    """a call whose result may be None: X.match/search/fullmatch(...), re.match(...), d.get(k) / d.get(k, None)"""
    if t[0] != "call":
        return False
    f = t[1]
    if f[0] == "attr" and f[2] in ("match", "search", "fullmatch"):
        return True
    if f[0] == "global" and (f[1] in ("re.match", "re.search", "re.fullmatch") or f[1].endswith((".match", ".search", ".fullmatch"))):
        return True
    if f[0] == "attr" and f[2] == "get":
        if len(t[2]) == 1 and not t[3]:
            return True
        if len(t[2]) == 2 and t[2][1] == ("const", None):
            return True
    return False


def _establishes_non_none(g, m):
    test, pol = g
    t2, p2 = T.strip_not(test, pol)
    if t2 == m and p2:
        return True
    if t2[0] == "cmp" and len(t2[1]) == 1 and m in t2[2] and ("const", None) in t2[2]:
        op = t2[1][0]
        if op in ("is not", "!=") and p2:
            return True
        if op in ("is", "==") and not p2:
            return True
    if t2[0] == "boolop" and t2[1] == "and" and p2:
        return any(_establishes_non_none((x, True), m) for x in t2[2])
    if t2[0] == "boolop" and t2[1] == "or" and not p2:
        return any(_establishes_non_none((x, False), m) for x in t2[2])
    return False


def _derefs(t, guards, out):
    """collect (M, guards-in-force) for every dereference of an optional call result inside term t"""
    if not isinstance(t, tuple) or not t or t[0] == "const":
        return
    k = t[0]
    if k == "boolop":
        g = list(guards)
        for x in t[2]:
            _derefs(x, g, out)
            g = g + [(x, t[1] == "and")]
        return
    if k == "ifexp":
        _derefs(t[1], guards, out)
        _derefs(t[2], list(guards) + [(t[1], True)], out)
        _derefs(t[3], list(guards) + [(t[1], False)], out)
        return
    base = None
    if k in ("attr", "sub"):
        base = t[1]
    if base is not None:
        b = T.unwrap(base)
        if _is_optional_call(b):
            out.append((b, list(guards), t))
    for x in T.children(t):
        _derefs(x, guards, out)


def r_opt_deref(model, rep, only=None):
    """no result of match()/search()/dict.get(k) is dereferenced without a dominating None test"""
    n_sites = 0
    for f in model.all_functions():
        if only is not None and f.qname not in only:
            continue
        cx = facts.fctx(model, f)
        reported = set()
        per_m = {}
        for ev in cx.events:
            terms = []
            if ev.value is not None:
                terms.append((ev.value, list(ev.guards)))
            if ev.target is not None:
                terms.append((ev.target, list(ev.guards)))
            for i, g in enumerate(ev.guards):
                terms.append((g[0], list(ev.guards[:i])))
            for t, guards in terms:
                found = []
                _derefs(t, guards, found)
                for m, gs, deref in found:
                    safe = any(_establishes_non_none(g, m) for g in gs)
                    key = T.show(m)
                    per_m.setdefault(key, []).append((safe, ev.lineno, T.show(deref)[:80]))
        for key, uses in sorted(per_m.items()):
            n_sites += 1
            bad = [u for u in uses if not u[0]]
            rep.ob("R-OPT-DEREF", "%s:%s" % (f.qname, key[:90]), not bad, site=cx.site(bad[0][1] if bad else uses[0][1]),
                   msg="" if not bad else "result of %s may be None but is dereferenced without a None test (line %s: %s) -- "
                                         "an AttributeError/TypeError would escape instead of ValueError" % (key[:80], bad[0][1], bad[0][2]),
                   facts={"uses": len(uses)})
    if n_sites < 1:
        raise AnalysisError("vacuity guard: R-OPT-DEREF matched %d optional results (floor 1)" % n_sites)
    # embedded positive example
    sample = ast.parse("def f(s):\n    return RX.match(s).groupdict()\n")
    ex = T.extract(sample.body[0])
    found = []
    for ev in ex.events:
        if ev.value is not None:
            _derefs(ev.value, list(ev.guards), found)
    rep.ob("R-OPT-DEREF", "embedded-positive-example", bool(found) and not any(_establishes_non_none(g, found[0][0]) for g in found[0][1]),
           trivial=True)
    return n_sites


# ---------------------------------------------------------------------------------------------------------
def r_exc_types(model, rep):
    """every explicit raise reachable (exact call resolution) from a builder is ValueError or TypeError"""
    for b in builder_refs(model) + [model.own_method("extra_files.ExtraFiles", "dump_for_tree")]:
        if not b.qname.startswith(("rpms.", "modules.", "extra_files.")):
            continue
        reach = model.reachable_from(b, exact=True)
        bad = []
        n = 0
        for f in reach:
            for node in ast.walk(f.node):
                if isinstance(node, ast.Raise):
                    n += 1
                    if node.exc is None:
                        continue        # re-raise inside a handler
                    e = node.exc.func if isinstance(node.exc, ast.Call) else node.exc
                    name = ast.unparse(e)
                    if name not in ("ValueError", "TypeError"):
                        bad.append("%s raises %s at %s" % (f.qname, name, f.module.site(node)))
        rep.ob("R-EXC-TYPES", b.qname, not bad, site=b.module.site(b.node),
               msg="" if not bad else "; ".join(bad), facts={"functions_reached": len(reach), "raise_statements": n})


# ---------------------------------------------------------------------------------------------------------
# R-ADD-REFUSALS
# ---------------------------------------------------------------------------------------------------------
def _raise_conditions(cx):
    """[(condition term, polarity, raise event)] -- the innermost positive condition of every raise"""
    out = []
    for ev in cx.events:
        if ev.kind != "raise":
            continue
        conds = [g for g in ev.guards if g[0][0] != "exc"]
        out.append((conds, ev))
    return out


def _cond_true(conds, pred, cx=None, ev=None):
    """some guard in force at the raise satisfies pred(test, polarity) -- and it is the *deciding* one: every other
    guard in force is the negation of an earlier refusal (polarity False), so the raise is reached whenever the
    documented condition holds and no earlier refusal fired"""
    hits = [g for g in conds if pred(T.strip_not(g[0], g[1])[0], T.strip_not(g[0], g[1])[1])]
    if not hits:
        return False
    others = [g for g in conds if g not in hits]
    if cx is not None and ev is not None:
        # ... of an earlier *refusal*: a condition whose other side merely returns early (a memo of values that passed
        # before, a shortcut) lets the documented refusal be skipped
        for g in others:
            opposite = facts.canon_guard((g[0], not g[1]))
            pos = [r for r in cx.events if r.kind == "raise" and r.seq < ev.seq and any(
                facts.canon_guard((h[0], h[1])) == opposite for h in r.guards)]
            if not pos:
                return False
        return True
    return all(g[1] is False for g in others)


def _is_disjunct_ok(g):
    return False


def refusal(cx, kind, param, extra=None, model=None):
    p = ("param", param)
    rc = _raise_conditions(cx)

    def not_in_table(t, pol):
        if t[0] == "cmp" and len(t[1]) == 1 and t[2][0] == p:
            op = t[1][0]
            if (op == "not in" and pol) or (op == "in" and not pol):
                tab = t[2][1]
                name = tab[1].split(".")[-1] if tab[0] == "global" else None
                return name == extra
        return False

    def in_list(t, pol):
        if t[0] == "cmp" and t[1] == ("in",) and pol and t[2][0] == p:
            try:
                vals = cx.const_of(t[2][1])
            except Exception:
                return False
            return set(extra) <= set(vals)
        return False

    def startswith_slash(t, pol):
        return pol and t == ("call", ("attr", p, "startswith"), (("const", "/"),), ())

    def falsy(t, pol):
        return t == p and not pol

    def not_isinstance(t, pol):
        if t[0] == "call" and t[1] == ("global", "isinstance") and t[2][0] == p and not pol:
            try:
                types = cx.const_of(t[2][1])
            except Exception:
                return False
            names = facts._type_names(types)
            return names <= set(extra)
        return False

    def not_contains(t, pol):
        return t == ("cmp", ("not in",), (("const", extra), p)) and pol or (t == ("cmp", ("in",), (("const", extra), p)) and not pol)
    pred = {"not_in_table": not_in_table, "in_list": in_list, "startswith_slash": startswith_slash, "falsy": falsy,
            "not_isinstance": not_isinstance, "not_contains": not_contains}[kind]
    for conds, ev in rc:
        if _cond_true(conds, pred, cx, ev):
            return ev
    return None


REFUSALS = [
    # (function, label, kind, parameter, extra)
    ("rpms.Rpms.add", "unknown arch", "not_in_table", "arch", "RPM_ARCHES"),
    ("rpms.Rpms.add", "src/nosrc arch", "in_list", "arch", ("src", "nosrc")),
    ("rpms.Rpms.add", "unknown category", "not_in_table", "category", "SUPPORTED_CATEGORIES"),
    ("rpms.Rpms.add", "absolute path", "startswith_slash", "path", None),
    ("rpms.Rpms.add", "empty path", "falsy", "path", None),
    ("rpms.Rpms._check_nevra", "missing epoch", "not_contains", "nevra", ":"),
    ("modules.Modules.add", "empty variant", "falsy", "variant", None),
    ("modules.Modules.add", "unknown arch", "not_in_table", "arch", "RPM_ARCHES"),
    ("modules.Modules.add", "unknown category", "not_in_table", "category", "SUPPORTED_CATEGORIES"),
    ("modules.Modules.add", "absolute path", "startswith_slash", "modulemd_path", None),
    ("modules.Modules.add", "empty koji_tag", "falsy", "koji_tag", None),
    ("modules.Modules.add", "empty modulemd_path", "falsy", "modulemd_path", None),
    ("modules.Modules.add", "rpms not a list", "not_isinstance", "rpms", ("list", "tuple")),
    ("modules.Modules._check_uid", "uid not a string", "not_isinstance", "uid", ("str",)),
    ("modules.Modules._check_uid", "missing stream", "not_contains", "uid", ":"),
    ("extra_files.ExtraFiles.add", "empty variant", "falsy", "variant", None),
    ("extra_files.ExtraFiles.add", "unknown arch", "not_in_table", "arch", "RPM_ARCHES"),
    ("extra_files.ExtraFiles.add", "empty path", "falsy", "path", None),
    ("extra_files.ExtraFiles.add", "absolute path", "startswith_slash", "path", None),
    ("extra_files.ExtraFiles.add", "checksums not a dict", "not_isinstance", "checksums", ("dict",)),
    ("images.Images.add", "unknown arch", "not_in_table", "arch", "RPM_ARCHES"),
    ("images.Images.add", "src/nosrc arch", "in_list", "arch", ("src", "nosrc")),
    ("treeinfo.Checksums.add", "absolute path", "startswith_slash", "relative_path", None),
]


def _fref(model, q):
    mod, cls, name = q.split(".")
    return model.own_method("%s.%s" % (mod, cls), name)


def r_add_refusals(model, rep):
    cats = model.const("rpms", "SUPPORTED_CATEGORIES")
    missing = [c for c in ("binary", "debug", "source") if c not in cats]
    rep.ob("R-ADD-REFUSALS", "SUPPORTED_CATEGORIES:documented-values", not missing, site="productmd/rpms.py",
           msg="" if not missing else "documented RPM categories lost: %s" % missing)
    for q, label, kind, param, extra in REFUSALS:
        if q.startswith(("images.", "treeinfo.")):
            continue        # Images.add belongs to C10, Checksums.add to C16
        f = _fref(model, q)
        cx = facts.fctx(model, f)
        if param not in cx.params:
            raise AnalysisError("R-ADD-REFUSALS: %s has no parameter %r" % (q, param))
        ev = refusal(cx, kind, param, extra, model)
        ok = ev is not None
        if ok:
            exc = ev.value
            ok = exc[0] == "call" and exc[1][0] == "global" and exc[1][1] in ("ValueError", "TypeError")
        rep.ob("R-ADD-REFUSALS", "%s:%s" % (q, label), ok, site=cx.site(ev.lineno if ev else f.node),
               msg="" if ok else "%s does not refuse (raise ValueError/TypeError) a call with %s: no raise is conditioned on "
                                 "the %s test of parameter %r" % (q, label, kind, param))
    # Rpms.add: the three category / srpm / arch consistency refusals
    f = _fref(model, "rpms.Rpms.add")
    cx = facts.fctx(model, f)
    cat, srpm = ("param", "category"), ("param", "srpm_nevra")
    src = ("cmp", ("==",), (cat, ("const", "source")))
    nsrc = ("cmp", ("!=",), (cat, ("const", "source")))
    def table(fn_):
        """the condition means fn_(category is 'source', srpm_nevra is None), whatever its spelling"""
        def pred(t):
            for a in (False, True):
                for b in (False, True):
                    def decide(x, a=a, b=b):
                        if x == src:
                            return a
                        if x == ("cmp", ("is",), (srpm, ("const", None))):
                            return b
                        return None
                    if T.truth(t, decide) is not fn_(a, b):
                        return False
            return True
        return pred
    want = {
        "source-with-srpm": table(lambda a, b: a and not b),
        "binary-without-srpm": table(lambda a, b: (not a) and b),
        "category-vs-rpm-arch": lambda t: (t[0] == "cmp" and t[1] in (("!=",), ("==",)) and t[2][0] == src and t[2][1][0] == "cmp"
                                           and t[2][1][1] == ("in",) and t[2][1][2][0][0] == "sub"
                                           and t[2][1][2][0][2] == ("const", "arch")
                                           and set(cx.try_const(t[2][1][2][1], ()) or ()) == {"src", "nosrc"}),
    }
    for label, pred in sorted(want.items()):
        hit = None
        for conds, ev in _raise_conditions(cx):
            # (a refusal on ``a != b`` is the condition (a == b) not holding)
            if _cond_true(conds, lambda t, pol: pred(t) and (pol != (t[0] == "cmp" and t[1] == ("==",) and label == "category-vs-rpm-arch")), cx, ev):
                hit = ev
        rep.ob("R-ADD-REFUSALS", "rpms.Rpms.add:%s" % label, hit is not None, site=cx.site(hit.lineno if hit else f.node),
               msg="" if hit else "Rpms.add no longer refuses the inconsistent combination '%s'" % label)
    # the arch examined by the consistency check is the parsed arch of the RPM itself
    # _check_nevra / _check_uid are called on the respective parameter before insertion (see R-KEYS)
    rep.floor("R-ADD-REFUSALS", 20)


# ---------------------------------------------------------------------------------------------------------
# R-KEYS
# ---------------------------------------------------------------------------------------------------------
def r_keys(model, rep):
    # ---- Rpms.add -------------------------------------------------------------------------------------
    f = _fref(model, "rpms.Rpms.add")
    cx = facts.fctx(model, f)
    S = ("param", cx.selfname)
    P = lambda n: ("param", n)
    canon = ("idx", ("call", ("attr", S, "_check_nevra"), (P("nevra"),), ()), 0)
    scanon = ("idx", ("call", ("attr", S, "_check_nevra"), (P("srpm_nevra"),), ()), 0)
    def nk(t):
        """_check_nevra(x, <name used in messages>) is _check_nevra(x)"""
        return T.subst(t, lambda y: ("call", y[1], y[2][:1], ()) if y[0] == "call" and y[1] == ("attr", S, "_check_nevra") and y[2] else None)
    stores = [ev for ev in cx.events if ev.kind == "store" and T.root_of(ev.target) == S]
    ok, msg = len(stores) == 1, "expected exactly one insertion into self.rpms"
    if ok:
        st = stores[0]
        tgt = nk(st.target)
        HOLE_ = ("const", "<source key>")
        want_path = ("sub", ("call", ("attr", ("call", ("attr", ("call", ("attr", ("attr", S, "rpms"), "setdefault"), (P("variant"), ("dict", ())), ()),
                                                        "setdefault"), (P("arch"), ("dict", ())), ()), "setdefault"),
                             (HOLE_, ("dict", ())), ()), canon)
        # the third level key: the canonical srpm nevra, or the package's own canonical nevra (chosen by whatever spelling of
        # "srpm_nevra given?": two assignments, a conditional expression, a helper's early return)
        skey = None
        if tgt[0] == "sub" and tgt[1][0] == "call" and len(tgt[1][2]) == 2:
            skey = tgt[1][2][0]
            tgt = ("sub", tgt[1][:2] + ((HOLE_, tgt[1][2][1]), tgt[1][3]), tgt[2])
        ok = tgt == want_path and skey is not None and sorted(T.alts(skey)) == sorted([canon, scanon])
        tgt = nk(st.target)
        msg = "" if ok else ("entry is not filed under self.rpms[variant][arch][canonical srpm nevra (own nevra for a source "
                             "rpm)][canonical nevra]: " + T.show(tgt))
    rep.ob("R-KEYS", "Rpms.add:filing-path", ok, site=cx.site(f.node), msg="" if ok else msg)
    if stores:
        v = T.unwrap(stores[0].value)
        want = {"sigkey": {("phi", (("call", ("attr", P("sigkey"), "lower"), (), ()), P("sigkey"))),
                           ("phi", (P("sigkey"), ("call", ("attr", P("sigkey"), "lower"), (), ())))},
                "path": {P("path")}, "category": {P("category")}}
        got = dict((k[1], val) for k, val in v[1]) if v[0] == "dict" and all(k[0] == "const" for k, _ in v[1]) else None
        ok = got is not None and set(got) == set(want) and all(got[k] in want[k] for k in want)
        rep.ob("R-KEYS", "Rpms.add:record", ok, site=cx.site(stores[0].lineno),
               msg="" if ok else "stored record is not {sigkey: lower-cased sigkey (None kept), path: path, category: category}: %s" % T.show(v))
        # lower() only skipped for None
        low = [ev for ev in cx.events if ev.kind == "call" and ev.value == ("call", ("attr", P("sigkey"), "lower"), (), ())]
        ok = bool(low) and facts.guard_atoms(facts.own_guards(cx, low[0])) == {
            facts.canon_guard((("cmp", ("is not",), (P("sigkey"), ("const", None))), True))}
        rep.ob("R-KEYS", "Rpms.add:sigkey-lowered-unless-None", bool(ok), site=cx.site(f.node),
               msg="" if ok else "signing key must be lower-cased whenever it is not None")
    # srpm key: parsed when given, own nevra otherwise
    sc = [ev for ev in cx.events if ev.kind == "call" and nk(ev.value) == scanon[1]]
    ok = bool(sc) and facts.guard_atoms(facts.own_guards(cx, sc[0])) == {facts.canon_guard((P("srpm_nevra"), True))}
    rep.ob("R-KEYS", "Rpms.add:srpm-key-canonical", bool(ok), site=cx.site(f.node),
           msg="" if ok else "the source package key must be the canonical form of srpm_nevra when given")
    # ---- Modules.add ----------------------------------------------------------------------------------
    f = _fref(model, "modules.Modules.add")
    cx = facts.fctx(model, f)
    S = ("param", cx.selfname)
    cu = ("call", ("attr", S, "_check_uid"), (P("uid"),), ())
    canon = ("idx", cu, 0)
    ud = ("idx", cu, 1)
    base = ("call", ("attr", ("call", ("attr", ("call", ("attr", ("attr", S, "modules"), "setdefault"), (P("variant"), ("dict", ())), ()),
                                       "setdefault"), (P("arch"), ("dict", ())), ()), "setdefault"), (canon, ("dict", ())), ())
    stores = [ev for ev in cx.events if ev.kind == "store" and T.root_of(ev.target) == S]
    md = [ev for ev in stores if ev.target == ("sub", base, ("const", "metadata"))]
    ok = len(md) == 1
    if ok:
        v = T.unwrap(md[0].value)
        want = {"uid": canon, "name": ("sub", ud, ("const", "module_name")), "stream": ("sub", ud, ("const", "stream")),
                "version": ("sub", ud, ("const", "version")), "context": ("sub", ud, ("const", "context")),
                "koji_tag": P("koji_tag")}
        got = dict((k[1], val) for k, val in v[1]) if v[0] == "dict" else None
        ok = got == want
    rep.ob("R-KEYS", "Modules.add:metadata-record", ok, site=cx.site(f.node),
           msg="" if ok else "module metadata is not filed under self.modules[variant][arch][canonical uid]['metadata'] with "
                             "uid/name/stream/version/context/koji_tag from the parsed uid")
    mp = [ev for ev in stores if ev.target == ("sub", ("call", ("attr", base, "setdefault"), (("const", "modulemd_path"), ("dict", ())), ()), P("category"))
          and ev.value == P("modulemd_path")]
    rep.ob("R-KEYS", "Modules.add:modulemd_path-by-category", len(mp) == 1, site=cx.site(f.node),
           msg="" if len(mp) == 1 else "modulemd path is not stored under ['modulemd_path'][category]")
    ext = [ev for ev in cx.events if ev.kind == "call" and ev.value[1] == ("attr", ("call", ("attr", base, "setdefault"), (("const", "rpms"), ("list", ())), ()), "extend")]
    ok = len(ext) == 1 and T.contains(ext[0].value[2][0], lambda x: x == P("rpms")) and not T.contains(ext[0].value[2][0], lambda x: x[0] in ("sub",) or (x[0] == "call" and x[1] == ("global", "sorted")) or (x[0] == "call" and x[1] == ("global", "set")))
    rep.ob("R-KEYS", "Modules.add:rpms-extended-in-order", bool(ok), site=cx.site(f.node),
           msg="" if ok else "the module's RPM list is not extended with the given list, in order")
    rep.ob("R-KEYS", "Modules.add:no-other-stores", len(stores) == 2, site=cx.site(f.node),
           msg="" if len(stores) == 2 else "unexpected additional stores into self.modules: %s" % [T.show(e.target)[:80] for e in stores])
    # _check_uid canonical formatting
    g = _fref(model, "modules.Modules._check_uid")
    gcx = facts.fctx(model, g)
    rets = [ev for ev in gcx.events if ev.kind == "return"]
    pu = ("call", ("attr", ("param", gcx.selfname), "parse_uid"), (("param", "uid"),), ())

    part = lambda k: ("sub", pu, ("const", k))
    ok = True
    for ver in (False, True):
        for ctx in (False, True):
            vals = facts.value_under(gcx, facts.atoms_decider({part("version"): ver, part("context"): ctx}))
            want = ("tuple", (T.fmt(*((part("module_name"), ":", part("stream")) + ((":", part("version")) if ver else ())
                                       + ((":", part("context")) if ctx else ()))), pu))
            ok = ok and vals == [want]
    rep.ob("R-KEYS", "Modules._check_uid:canonical-format", ok, site=gcx.site(g.node),
           msg="" if ok else "canonical UID is not NAME:STREAM[:VERSION][:CONTEXT] of the parsed parts")
    # parse_uid: None version/context -> ''
    h = _fref(model, "modules.Modules.parse_uid")
    hcx = facts.fctx(model, h)
    st = [ev for ev in hcx.events if ev.kind == "store" and ev.value == ("const", "")]
    keys = sorted(ev.target[2][1] for ev in st if ev.target[0] == "sub" and ev.target[2][0] == "const")
    if keys != ["context", "version"]:
        # the same thing asked of the match object: groupdict(default="") (every group that did not take part reads '')
        rets_h = [ev for ev in hcx.events if ev.kind == "return" and ev.value != ("const", None)]
        if rets_h and all(ev.value[0] == "call" and ev.value[1][0] == "attr" and ev.value[1][2] == "groupdict"
                          and (ev.value[2] == (("const", ""),) or ev.value[3] == (("default", ("const", "")),)) for ev in rets_h):
            keys = ["context", "version"]
    rep.ob("R-KEYS", "Modules.parse_uid:missing-parts-empty", keys == ["context", "version"], site=hcx.site(h.node),
           msg="" if keys == ["context", "version"] else "missing version/context must be returned as ''")
    # ---- ExtraFiles.add -------------------------------------------------------------------------------
    f = _fref(model, "extra_files.ExtraFiles.add")
    cx = facts.fctx(model, f)
    S = ("param", cx.selfname)
    lst = ("call", ("attr", ("call", ("attr", ("attr", S, "extra_files"), "setdefault"), (P("variant"), ("dict", ())), ()), "setdefault"), (P("arch"), ("list", ())), ())
    app = [ev for ev in cx.events if ev.kind == "call" and ev.value[1] == ("attr", lst, "append")]
    ok = len(app) == 1
    if ok:
        v = T.unwrap(app[0].value[2][0])
        got = dict((k[1], val) for k, val in v[1]) if v[0] == "dict" else None
        ok = got == {"file": P("path"), "size": P("size"), "checksums": P("checksums")}
    rep.ob("R-KEYS", "ExtraFiles.add:record-appended", ok, site=cx.site(f.node),
           msg="" if ok else "entry {file, size, checksums} is not appended to self.extra_files[variant][arch]")
    muts = [ev for ev in cx.events if ev.kind == "store" and T.root_of(ev.target) == S]
    rep.ob("R-KEYS", "ExtraFiles.add:no-other-stores", not muts, site=cx.site(f.node),
           msg="" if not muts else "unexpected stores into the manifest")


def r_uid_parse(model, rep):
    """the module UID regex splits NAME:STREAM[:VERSION[:CONTEXT]] as documented (prioritised-parse proof)"""
    h = _fref(model, "modules.Modules.parse_uid")
    from .regexes import applied_regex
    pats = applied_regex(model, h)
    if len(pats) != 1 or pats[0][1] != "match":
        raise AnalysisError("parse_uid: expected one pattern applied with .match")
    R = pats[0][0]
    P_ = r"[A-Za-z0-9._+-]+"
    Lp = r"^(?P<module_name>%s):(?P<stream>%s)(?::(?P<version>%s)(?::(?P<context>%s))?)?$" % (P_, P_, P_, P_)
    U = rx.universe([R, Lp])
    alpha = [c for c in U if c != 10]
    L = rx.PNFA(Lp, U)
    okL, w, why = rx.self_unambiguous(L, alpha)
    if not okL:
        raise AnalysisError("module UID oracle is ambiguous: %r %s" % (w, why))
    Rn = rx.PNFA(R, U)
    if not Rn.anchored_end:
        rep.ob("R-UID-PARSE", "Modules.parse_uid:pattern", False, msg="UID pattern is not end-anchored")
        return
    w, why, n = rx.parse_check(Rn, L, alpha)
    if w is not None and why.startswith("INCONCLUSIVE"):
        raise AnalysisError("R-UID-PARSE inconclusive: %r %s" % (w, why))
    rep.ob("R-UID-PARSE", "Modules.parse_uid:pattern", w is None, site=h.module.site(h.node),
           msg="" if w is None else "module UID (or prefix) %r is split differently from NAME:STREAM[:VERSION[:CONTEXT]]: %s" % (w, why),
           facts={"pattern": R, "oracle": Lp, "product_states": n})
    rep.extra["states"] = rep.extra.get("states", 0) + n


def r_relative_to(model, rep):
    f = model.function("extra_files", "_relative_to")
    cx = facts.fctx(model, f)
    path, root = ("param", cx.params[0]), ("param", cx.params[1])
    prefix = T.fmt(("call", ("attr", root, "rstrip"), (("const", "/"),), ()), "/")
    rets = [ev for ev in cx.events if ev.kind == "return"]
    sw = ("call", ("attr", path, "startswith"), (prefix,), ())
    cut = [r for r in rets if r.value == ("sub", path, ("slice", ("call", ("global", "len"), (prefix,), ()), None, None))
           and facts.canon_guards(r.guards) == frozenset([facts.canon_guard((sw, True))])]
    keep = [r for r in rets if r.value == path and facts.canon_guards(r.guards) == frozenset([facts.canon_guard((sw, False))])]
    ok = len(cut) == 1 and len(keep) == 1 and len(rets) == 2
    rep.ob("R-RELATIVE-TO", "extra_files._relative_to", ok, site=cx.site(f.node),
           msg="" if ok else "base path must be cut only on a '/' boundary: prefix = root.rstrip('/') + '/', "
                             "path[len(prefix):] iff path.startswith(prefix), else path unchanged")
    d = _fref(model, "extra_files.ExtraFiles.dump_for_tree")
    dcx = facts.fctx(model, d)
    uses = [ev for ev in dcx.events if ev.kind == "call" and ev.value[1] == ("global", "_relative_to")]
    ok = len(uses) == 1 and uses[0].value[2][1] == ("param", "basepath") and uses[0].value[2][0][0] == "sub" \
        and uses[0].value[2][0][2] == ("const", "file")
    rep.ob("R-RELATIVE-TO", "ExtraFiles.dump_for_tree:uses-_relative_to", ok, site=dcx.site(d.node),
           msg="" if ok else "dump_for_tree must strip the base path from item['file'] through _relative_to")
    # iterates the addressed cell completely, keeps size/checksums: the 'data' list of the dumped document is
    # [{file, size, checksums} for every entry of the cell], as a loop with append or as a comprehension
    cell = ("sub", ("sub", ("attr", ("param", dcx.selfname), "extra_files"), ("param", "variant")), ("param", "arch"))
    ok = False
    dumps = [ev for ev in dcx.events if ev.kind == "call" and ev.value[1] == ("global", "json.dump") and ev.value[2]]
    if len(dumps) == 1:
        doc = T.unwrap(dumps[0].value[2][0])
        data = [v for k, v in doc[1] if k == ("const", "data")] if doc[0] == "dict" else []
        if len(data) == 1:
            cands = facts.collections_of(dcx, data[0])
            if data[0][0] == "sub" or not cands:
                # metadata["data"].append(...): the list literal lives inside the document literal
                cands = [facts.Collect("append", ev.value[2][0], [(("elem", l[1], l[0]), l[1]) for l in ev.loops],
                                       [g[0] for g in T.guard_tests(ev)], ev)
                         for ev in dcx.events if ev.kind == "call" and ev.value[1][0] == "attr" and ev.value[1][2] == "append" and ev.loops
                         and ev.seq < dumps[0].seq]
            for c in cands:
                if len(c.gens) == 1 and c.its[0] == cell and not c.conds:
                    v = T.unwrap(c.elt)
                    el = c.els[0]
                    got = dict((k[1], val) for k, val in v[1]) if v[0] == "dict" else {}
                    ok = got.get("size") == ("sub", el, ("const", "size")) and got.get("checksums") == ("sub", el, ("const", "checksums")) \
                        and set(got) == {"file", "size", "checksums"}
    rep.ob("R-RELATIVE-TO", "ExtraFiles.dump_for_tree:every-entry", ok, site=dcx.site(d.node),
           msg="" if ok else "dump_for_tree must emit {file, size, checksums} for every entry of extra_files[variant][arch]")


@register("C12")
def check_c12(model, rep, tier):
    from .validation import _install_validate_summary
    rep.explanation = (
        "Static rules over the builder functions (Rpms.add, Modules.add, ExtraFiles.add and their helpers). Decided: "
        "failure atomicity (path walker: every raising event -- explicit raise or a call whose resolved callee may "
        "raise ValueError/TypeError -- precedes the first store into receiver/argument state); every refusal the "
        "statement lists exists as a raise conditioned on the documented test of the documented parameter and is not "
        "weakened by other conditions; only ValueError/TypeError are raised on any reachable path, and no possibly-None "
        "result (regex match, dict.get) is dereferenced unchecked (so no AttributeError escapes); the filing path and "
        "the stored record are exactly self.<table>[variant][arch][canonical key] with canonical keys flowing from "
        "_check_nevra/_check_uid (def-use terms); the module UID regex is proven to split 2/3/4-part UIDs as documented "
        "(prioritised-automaton proof); _relative_to cuts only on a '/' boundary. Not decided: step-by-step equality "
        "with a reference model over call sequences.")
    rep.not_decided = ["equality with a reference model over arbitrary call sequences (value level)"]
    rep.assumptions = ["str/dict/list builtin methods raise no ValueError/TypeError on the checked argument types"]
    _install_validate_summary(model)
    builders = builder_refs(model)
    for q in ("rpms.Rpms.add", "modules.Modules.add", "extra_files.ExtraFiles.add"):
        check_atomic(model, rep, "R-ADD-ATOMIC", _fref(model, q), builders)
    r_exc_types(model, rep)
    scope = set()
    for b in builders + [model.own_method("extra_files.ExtraFiles", "dump_for_tree")]:
        if b.qname.startswith(("rpms.", "modules.", "extra_files.")):
            scope |= set(x.qname for x in model.reachable_from(b, exact=True))
    r_opt_deref(model, rep, only=sorted(scope))
    r_add_refusals(model, rep)
    from .sources import r_arch_table
    r_arch_table(model, rep, rule_id="R-ADD-REFUSALS")
    r_keys(model, rep)
    # the canonical key of an RPM is assembled from what parse_nvra hands back (epoch default included): its glue code and the
    # parse proof are part of "filed under the key the arguments say"
    from .regexes import r_nvra_glue, r_nvra_parse
    r_nvra_glue(model, rep)
    r_nvra_parse(model, rep, tier)
    from .regexes import r_nevra_format
    r_nevra_format(model, rep)
    r_uid_parse(model, rep)
    r_relative_to(model, rep)
