# -*- coding: utf-8 -*-
"""
C08 -- serialisation is canonical: output depends on content only.
Rules: R-ORDER, R-JSONCFG, R-INICFG, R-WRITER-PURE.

C20 -- compose directory layouts.
Rules: R-LAYOUT-ORDER, R-ACCESSOR-SIBLINGS, R-CACHE, R-RTE-WRAP.
"""
from __future__ import annotations

import ast

from .. import facts
from .. import terms as T
from ..core import AnalysisError
from ..model import FuncRef, dotted, NotConst
from . import register


def P(n):
    return ("param", n)


# ---------------------------------------------------------------------------------------------------------
# order provenance
# ---------------------------------------------------------------------------------------------------------
ORDERED, UNORDERED, CONTENT, SCALAR = "ORDERED", "UNORDERED", "CONTENT", "SCALAR"


# sort keys confirmed to be injective on what they sort (one line of reason each)
INJECTIVE_KEYS = {
    ("keyfn", "item", "path"): "image paths are distinct within a cell (quantifier of C08)",
    ("keyfn", "attr", "uid"): "variant UIDs are unique in a forest (C11)",
}


class OrderCtx(object):
    def __init__(self, model, cx):
        self.model = model
        self.cx = cx
        # locals sorted in place: (name, alloc) -> seq of the .sort() call
        self.sorted_at = {}
        self.filled_from = {}     # (name, alloc) -> [order kind of the loops in which it is filled]
        for ev in cx.events:
            if ev.kind == "call" and ev.value[1][0] == "attr" and ev.value[1][1][0] == "local":
                loc = ev.value[1][1]
                meth = ev.value[1][2]
                if meth == "sort" and not ev.guards:
                    key = dict(ev.value[3]).get("key")
                    if key is None or key in INJECTIVE_KEYS:
                        self.sorted_at.setdefault(loc[1:3], ev.seq)
                if meth in ("append", "add", "extend", "insert"):
                    kinds = [self.kind(l[1]) for l in ev.loops]
                    self.filled_from.setdefault(loc[1:3], []).extend(kinds)

    def _by_name(self, attr):
        kinds = set()
        for c in self.model.classes.values():
            ia2 = c.own_init_attrs(self.model).get(attr)
            if ia2 is not None:
                kinds.add(str(ia2.kind(self.model)))
        if kinds & {"set", "dict"}:
            return UNORDERED      # conservative: some class holds an unordered container under that name
        if kinds == {"list"}:
            return CONTENT
        return None

    def attr_kind(self, t):
        """order kind of an attribute chain by the __init__ kind of its last attribute; when the receiver's class
        cannot be resolved (back-pointers such as _metadata), by the attribute's name over all classes"""
        cx = self.cx
        chain = []
        x = t
        while x[0] == "attr":
            chain.append(x[2])
            x = x[1]
        chain.reverse()
        if not cx.is_self(x) or cx.cls is None:
            return self._by_name(chain[-1]) if chain else None
        cls = cx.cls
        for i, a in enumerate(chain):
            ia = cls.init_attrs(self.model).get(a)
            if ia is None:
                return self._by_name(chain[-1])
            k = ia.kind(self.model)
            if i == len(chain) - 1:
                return {"set": UNORDERED, "dict": UNORDERED, "list": CONTENT}.get(k if isinstance(k, str) else "")
            if isinstance(k, tuple) and k[0] == "instance":
                cls = k[1]
            else:
                nxt = cls.attr_class(self.model, a)
                if nxt is None:
                    return self._by_name(chain[-1])
                cls = nxt
        return None

    def chain_class(self, t):
        """class of the object an attribute chain rooted at self denotes, if it can be resolved"""
        cx = self.cx
        chain = []
        x = t
        while x[0] == "attr":
            chain.append(x[2])
            x = x[1]
        chain.reverse()
        if not cx.is_self(x) or cx.cls is None:
            return None
        cls = cx.cls
        for a in chain:
            cls = cls.attr_class(self.model, a)
            if cls is None:
                return None
        return cls

    def iter_kind_of_instance(self, cls):
        """iterating an instance of a repo class: ORDERED iff its __iter__ draws from sorted(...) (injective key or none)"""
        lk = cls.lookup("__iter__")
        if lk is None:
            return None
        icx = facts.fctx(self.model, FuncRef(lk[0].module, lk[0], lk[1]))
        ys = [ev for ev in icx.events if ev.kind == "yield"]
        if ys and all(ev.loops for ev in ys):
            oc = OrderCtx(self.model, icx)
            kinds = [oc.kind(ev.loops[-1][1]) for ev in ys]
            return ORDERED if all(k == ORDERED for k in kinds) else UNORDERED
        rets = [ev for ev in icx.events if ev.kind == "return" and ev.value != ("const", None)]
        if rets:
            oc = OrderCtx(self.model, icx)
            kinds = []
            for ev in rets:
                v = ev.value
                if v[0] == "call" and v[1] == ("global", "iter") and len(v[2]) == 1:
                    v = v[2][0]
                kinds.append(oc.kind(v))
            return ORDERED if all(k == ORDERED for k in kinds) else UNORDERED
        return UNORDERED

    def kind(self, t, at_seq=None):
        t0 = t
        if t[0] == "local":
            key = t[1:3]
            if key in self.sorted_at and (at_seq is None or self.sorted_at[key] < at_seq):
                return ORDERED
            base = self.kind(t[3])
            fills = self.filled_from.get(key, [])
            init = T.unwrap(t[3])
            if init[0] in ("set",) or (init[0] == "call" and init[1] == ("global", "set")) or (init[0] == "comp" and init[1] == "set"):
                return UNORDERED
            if UNORDERED in fills or base == UNORDERED:
                return UNORDERED
            return base if base != SCALAR else CONTENT
        if t[0] == "call":
            f = t[1]
            if f == ("global", "sorted"):
                key = dict(t[3]).get("key")
                if key is not None and self.kind(t[2][0], at_seq) == UNORDERED and key not in INJECTIVE_KEYS:
                    # ties of a non-injective key are left in the iteration order of the unordered source
                    return UNORDERED
                return ORDERED
            if f[0] == "global" and f[1] in ("list", "tuple") and t[2]:
                return self.kind(t[2][0], at_seq)
            if f[0] == "global" and f[1] in ("set", "frozenset", "dict"):
                return UNORDERED
            if f[0] == "attr" and f[2] in ("keys", "values", "items", "union", "intersection", "difference"):
                return UNORDERED
            if f[0] == "attr" and f[2] == "join":
                return SCALAR
            if f[0] == "attr" and f[2] == "split":
                return CONTENT
            if f[0] == "global" and f[1] in ("six.itervalues", "six.iterkeys", "six.iteritems"):
                return UNORDERED
            return SCALAR
        if t[0] in ("set", "dict"):
            return UNORDERED
        if t[0] in ("list", "tuple"):
            return CONTENT
        if t[0] == "binop" and t[1] in ("|", "&", "-", "^"):
            ks = (self.kind(t[2], at_seq), self.kind(t[3], at_seq))
            return UNORDERED if UNORDERED in ks else SCALAR
        if t[0] == "comp":
            if t[1] in ("set", "dict"):
                return UNORDERED
            ks = [self.kind(g[1], at_seq) for g in t[3]]
            return UNORDERED if UNORDERED in ks else (ORDERED if all(k == ORDERED for k in ks) else CONTENT)
        if t[0] == "attr":
            c = self.chain_class(t)
            if c is not None:
                ik = self.iter_kind_of_instance(c)
                if ik is not None:
                    return ik
            k = self.attr_kind(t)
            if k:
                return k
            return SCALAR
        if t[0] == "sub":
            # an element of a container: a dict of sets (images[variant][arch]) stays unordered
            base = self.kind(t[1], at_seq)
            if t[1][0] in ("attr", "sub") and base == UNORDERED and t[2][0] != "const":
                return UNORDERED
            return SCALAR
        if t[0] == "phi":
            ks = [self.kind(x, at_seq) for x in t[1]]
            return UNORDERED if UNORDERED in ks else ks[0]
        if t[0] == "param" and self.cx.is_self(t):
            if self.cx.cls is None:
                return UNORDERED
            ik = self.iter_kind_of_instance(self.cx.cls)
            return ik if ik is not None else UNORDERED
        return SCALAR


def sequence_sinks(value):
    """sub-terms of an emitted value in which the *order* of an iterable becomes visible:
    ','.join(X), list(X)/tuple(X), list comprehensions, and the value itself when it is an iterable"""
    out = []
    for x in T.walk(value):
        if x[0] == "call" and x[1][0] == "attr" and x[1][2] == "join" and x[2]:
            out.append(("join", x[2][0]))
    return out


def writer_functions(model):
    out = []
    for cls in facts.metadata_classes(model):
        if "serialize" in cls.methods:
            out.append(FuncRef(cls.module, cls, cls.methods["serialize"]))
    return out


def r_order(model, rep):
    n_sites = 0
    for f in writer_functions(model):
        cx, emits = facts.writer_emits(model, f)
        oc = OrderCtx(model, cx)
        for e in emits:
            if e.kind == "nested" or e.value == ("dict", ()):
                # nested writers appending to a list sink inside loops over unordered containers are handled below
                continue
            v = e.value
            problems = []
            # (1) string sinks
            for kind, src in sequence_sinks(v):
                k = oc.kind(src, e.ev.seq)
                n_sites += 1
                if k == UNORDERED:
                    problems.append("%s is joined into a string in iteration order of an unordered container" % T.show(src)[:80])
            # (2) the emitted value itself is a sequence
            k = oc.kind(v, e.ev.seq)
            uv = T.unwrap(v)
            is_seq_construction = (uv[0] == "comp" and uv[1] in ("list", "gen")) or uv[0] == "list" or (
                uv[0] == "call" and uv[1][0] == "global" and uv[1][1] in ("list", "tuple", "sorted"))
            if is_seq_construction and k == UNORDERED:
                problems.append("%s is emitted as a list in iteration order of an unordered container" % T.show(v)[:80])
            if v[0] in ("call", "comp", "local") and k in (ORDERED, UNORDERED, CONTENT) and not (v[0] == "call" and v[1][0] == "attr" and v[1][2] == "join"):
                if T.contains(v, lambda x: x[0] in ("comp",) or (x[0] == "call" and x[1][0] == "global" and x[1][1] in ("sorted", "list", "tuple"))):
                    n_sites += 1
            # (3) list sinks: an append whose position depends on the iteration order of an unordered loop
            if e.kind == "append" or (e.path and e.path[-1] == ("const", "[]")):
                recv = e.ev.value[1][1] if e.ev.kind == "call" and e.ev.value[1][0] == "attr" else None
                later_sort = [ev for ev in cx.events if recv is not None and ev.kind == "call" and ev.value[1] == ("attr", recv, "sort")
                              and ev.seq > e.ev.seq and not T.guard_tests(ev) and set(l[0] for l in ev.loops) <= set(l[0] for l in e.loops)
                              and (dict(ev.value[3]).get("key") is None or dict(ev.value[3]).get("key") in INJECTIVE_KEYS)]
                if not later_sort:
                    for l in e.loops:
                        if oc.kind(l[1]) == UNORDERED:
                            problems.append("appended to the output list inside a loop over the unordered %s" % T.show(l[1])[:60])
            key = "%s:%s" % (f.qname, "/".join(T.show(p)[:40] for p in e.path))
            if problems or sequence_sinks(v) or (v[0] == "call" and v[1] == ("global", "sorted")):
                rep.ob("R-ORDER", key, not problems, site=cx.site(e.ev.lineno), msg="; ".join(problems),
                       facts={"value": T.show(v)[:120], "order": k})
    n_sites += r_cell_order(model, rep)
    if n_sites < 6:
        raise AnalysisError("vacuity guard: R-ORDER examined %d order-sensitive sites (floor 6)" % n_sites)
    rep.count("order_sensitive_sites", n_sites)
    # loops whose body emits keyed entries are order-insensitive *because* the containers are sorted on output: R-JSONCFG/R-INICFG


def r_cell_order(model, rep, rule_id="R-ORDER"):
    """list sinks filled through nested writers (Images.serialize): each (variant, arch) cell, a set of Image objects, is
    written as a list sorted by path -- the only key the quantifier guarantees to be distinct within a cell"""
    f = model.own_method("images.Images", "serialize")
    cx, emits = facts.writer_emits(model, f)
    oc = OrderCtx(model, cx)
    nested = [e for e in emits if e.kind == "nested" and e.loops]
    n = 0
    for e in nested:
        unordered_loops = [l for l in e.loops if oc.kind(l[1]) == UNORDERED]
        # which of these loops decide positions inside one output *list*?  the callee appends to the list passed in
        lst = e.ev.value[2][0] if e.ev.value[2] else None
        sorts = [ev for ev in cx.events if ev.kind == "call" and ev.value[1] == ("attr", lst, "sort") and not T.guard_tests(ev)]
        ok, msg = True, ""
        n += 1
        if unordered_loops:
            if not sorts:
                ok, msg = False, "images are appended in the iteration order of a set and the list is never sorted"
            else:
                s = sorts[-1]
                key = dict(s.value[3]).get("key")
                if s.seq < e.ev.seq:
                    ok, msg = False, "the list is sorted before the last append"
                elif not (set(l[0] for l in s.loops) <= set(l[0] for l in e.loops)):
                    ok, msg = False, "the sort is not executed for every cell"
                elif key != ("keyfn", "item", "path"):
                    ok, msg = False, "cells must be sorted by the image path (distinct per cell): key=%s" % (T.show(key) if key else None)
                elif dict(s.value[3]).get("reverse") not in (None, ("const", False)):
                    pass
        rep.ob(rule_id, "images.Images.serialize:cell-list", ok, site=cx.site(e.ev.lineno), msg=msg)
    return n


def r_builder_order(model, rep):
    """what the builders store into the tables does not depend on set/dict iteration order"""
    for q, name in (("rpms.Rpms", "add"), ("modules.Modules", "add"), ("extra_files.ExtraFiles", "add"), ("images.Images", "add")):
        f = model.own_method(q, name)
        cx = facts.fctx(model, f)
        oc = OrderCtx(model, cx)
        S = P(cx.selfname)
        bad = []
        for ev in cx.events:
            vals = []
            if ev.kind == "store" and T.root_of(ev.target) == S:
                vals.append(ev.value)
            elif ev.kind == "call" and ev.value[1][0] == "attr" and ev.value[1][2] in ("extend", "append", "insert", "setdefault") \
                    and T.root_of(ev.value[1][1]) == S:
                vals.extend(ev.value[2])
            if ev.kind == "call" and ev.value[1][0] == "attr" and ev.value[1][2] in ("extend",) and vals and oc.kind(vals[0], ev.seq) == UNORDERED:
                bad.append("line %s: extend(%s)" % (ev.lineno, T.show(vals[0])[:70]))
            for v in vals:
                for x in T.walk(v):
                    if x[0] == "call" and x[1][0] == "global" and x[1][1] in ("list", "tuple") and x[2] and oc.kind(x[2][0], ev.seq) == UNORDERED:
                        bad.append("line %s: %s" % (ev.lineno, T.show(x)[:70]))
                    if x[0] == "comp" and x[1] in ("list", "gen") and any(oc.kind(g[1], ev.seq) == UNORDERED for g in x[3]):
                        bad.append("line %s: %s" % (ev.lineno, T.show(x)[:70]))
                    if x[0] == "local" and T.unwrap(x)[0] in ("list",) and UNORDERED in oc.filled_from.get(x[1:3], []) \
                            and x[1:3] not in oc.sorted_at:
                        bad.append("line %s: list %s filled in the order of an unordered container" % (ev.lineno, x[1]))
        rep.ob("R-ORDER", "%s.%s:stored-values" % (q, name), not bad, site=cx.site(f.node),
               msg="" if not bad else "a list stored into the manifest is built in set/dict iteration order (depends on the hash seed): %s" % "; ".join(sorted(set(bad))[:3]))


def r_jsoncfg(model, rep):
    n = 0
    for f in model.all_functions():
        if not any(isinstance(node, ast.Call) and dotted(node.func) in ("json.dump", "json.dumps") for node in ast.walk(f.node)):
            continue
        cx = facts.fctx(model, f)
        for ev in cx.events:
            if ev.kind != "call" or ev.value[1] not in (("global", "json.dump"), ("global", "json.dumps")):
                continue
            n += 1
            # the options as the call receives them (literal keywords, ** of a literal or of a constant table alike)
            kw = dict(ev.value[3])
            ok, msg = True, ""
            try:
                if "**" in kw:
                    raise NotConst("**options")
                if cx.const_of(kw.get("sort_keys", ("const", False))) is not True:
                    ok, msg = False, "sort_keys=True missing"
                if cx.const_of(kw.get("indent", ("const", None))) != 4:
                    ok, msg = False, "indent=4 missing"
                sep = cx.const_of(kw["separators"]) if "separators" in kw else None
                if sep is not None and tuple(sep) != (",", ": "):
                    ok, msg = False, "separators must be (',', ': ')"
                if any(k not in ("sort_keys", "indent", "separators") for k in kw):
                    ok, msg = False, "unexpected json.dump options %s" % sorted(kw)
            except NotConst:
                ok, msg = False, "json.dump options are not constants"
            rep.ob("R-JSONCFG", "%s:json.dump" % f.qname, ok, site=cx.site(ev.lineno), msg=msg)
    if n < 2:
        raise AnalysisError("vacuity guard: %d json.dump sites (floor 2)" % n)


def r_inicfg(model, rep):
    f = model.own_method("common.SortedConfigParser", "__init__")
    # python-3 branch passes dict_type=SortedDict to the base class
    cx = facts.fctx(model, f)
    from ..model import py3_test_value
    ok = False
    for ev in cx.events:
        if ev.kind == "store" and ev.target == ("sub", P("kwargs"), ("const", "dict_type")) and ev.value == ("global", "SortedDict"):
            # active on python 3?
            active = True
            for g, pol in ev.guards:
                txt = T.show(g)
                if "sys.version_info[0] == 2" in txt and pol:
                    active = False
            if active:
                ok = True
    keys = set(ev.target[2][1] for ev in cx.events if ev.kind == "store" and ev.target[0] == "sub" and ev.target[1] == P("kwargs") and ev.target[2][0] == "const")
    rep.ob("R-INICFG", "SortedConfigParser.__init__:no-other-options", keys <= {"dict_type"}, site=cx.site(f.node),
           msg="" if keys <= {"dict_type"} else "SortedConfigParser sets ConfigParser options %s" % sorted(keys - {"dict_type"}))
    sup = [ev for ev in cx.events if ev.kind == "call" and ev.value[1][0] == "attr" and ev.value[1][2] == "__init__"
           and any(k == "**" and v == P("kwargs") for k, v in ev.value[3])]
    rep.ob("R-INICFG", "SortedConfigParser.__init__:dict_type", ok and bool(sup), site=cx.site(f.node),
           msg="" if ok and sup else "SortedConfigParser must pass dict_type=SortedDict to ConfigParser on Python 3")
    cls = model.cls("common.SortedDict")
    k = facts.fctx(model, FuncRef(cls.module, cls, cls.methods["keys"])) if "keys" in cls.methods else None
    ok = False
    if k is not None:
        rets = [ev for ev in k.events if ev.kind == "return"]
        ok = len(rets) == 1 and rets[0].value[0] == "call" and rets[0].value[1] == ("global", "sorted") \
            and rets[0].value[2] == (("call", ("global", "dict.keys"), (P(k.selfname),), ()),) \
            and dict(rets[0].value[3]).get("reverse") in (None, ("const", False)) and "key" not in dict(rets[0].value[3])
    rep.ob("R-INICFG", "SortedDict.keys", ok, site=cls.module.site(cls.node),
           msg="" if ok else "SortedDict.keys must return sorted(dict.keys(self))")
    for name in ("__iter__", "items", "iteritems", "itervalues", "iterkeys"):
        okm = False
        if name in cls.methods:
            m = facts.fctx(model, FuncRef(cls.module, cls, cls.methods[name]))
            S = P(m.selfname)
            keys = ("call", ("attr", S, "keys"), (), ())
            derives = any(l[1] == keys for ev in m.events for l in ev.loops) or any(
                ev.kind == "return" and ev.value == ("call", ("attr", S, "iteritems"), (), ()) for ev in m.events)
            raw = any(T.contains(t, lambda x: x[0] == "call" and x[1][0] == "global" and x[1][1].startswith("dict."))
                      for ev in m.events for t in (ev.value,) if t is not None)
            okm = derives and not raw
        rep.ob("R-INICFG", "SortedDict.%s" % name, okm, site=cls.module.site(cls.methods[name]) if name in cls.methods else cls.module.site(cls.node),
               msg="" if okm else "SortedDict.%s must iterate in the order of self.keys()" % name)
    # the writer uses that parser (R-PARSER-SYMMETRY is C04's; here: _get_parser only)
    f = model.own_method("treeinfo.TreeInfo", "_get_parser")
    cx = facts.fctx(model, f)
    rets = [ev for ev in cx.events if ev.kind == "return"]
    ok = len(rets) == 1 and rets[0].value == ("call", ("global", "productmd.common.SortedConfigParser"), (), ())
    rep.ob("R-INICFG", "TreeInfo._get_parser", ok, site=cx.site(f.node),
           msg="" if ok else "TreeInfo must write through SortedConfigParser()")
    # no writer bypasses the parser (writes to the file directly)
    # optionxform identity
    o = model.own_method("common.SortedConfigParser", "optionxform")
    ocx = facts.fctx(model, o)
    rets = [ev for ev in ocx.events if ev.kind == "return"]
    ok = len(rets) == 1 and rets[0].value == P(ocx.params[1])
    rep.ob("R-INICFG", "SortedConfigParser.optionxform", ok, site=ocx.site(o.node),
           msg="" if ok else "optionxform must keep option names unchanged")


# the only stores into object state a writer may perform, one line of reason each
PURE_EXCEPTIONS = {
    ("composeinfo.Variant.serialize", "self.release.is_layered"): (True, "a layered-product variant's release is layered by definition; constant, idempotent"),
}


SHALLOW_COPIES = ("sorted", "list", "tuple", "reversed", "iter", "enumerate", "filter", "set", "frozenset")


def shared_root(t):
    """root of an access path, looking through shallow copies: an *element* of sorted(X) / list(X) / reversed(X) is the very
    object stored in X (the copy itself is a fresh list)"""
    below_element = False
    while isinstance(t, tuple) and t:
        k = t[0]
        if k in ("attr", "sub", "idx", "elem"):
            below_element = below_element or k in ("sub", "idx", "elem")
            t = t[1]
        elif k == "call":
            fn = t[1]
            if fn[0] == "global" and fn[1] in SHALLOW_COPIES and t[2] and below_element:
                t = t[2][0]
            elif fn[0] == "attr":
                t = fn[1]
            else:
                return None
        elif k in ("param", "global", "bound", "local"):
            return t
        else:
            return None
    return None


def r_writer_pure(model, rep, only=None):
    """writers store to object state only constants (or the current version): repeated dumps cannot diverge"""
    n = 0
    funcs = writer_functions(model) + [model.own_method("common.MetadataBase", "dump"), model.own_method("common.MetadataBase", "dumps"),
                                       model.own_method("treeinfo.TreeInfo", "dump"), model.own_method("treeinfo.General", "serialize"),
                                       model.own_method("extra_files.ExtraFiles", "dump_for_tree")]
    seen = set()
    for f in funcs:
        if f in seen or (only is not None and not f.qname.startswith(only)):
            continue
        seen.add(f)
        cx = facts.fctx(model, f)
        S = P(cx.selfname)
        bad = []
        for ev in cx.events:
            if ev.kind in ("store", "del") and T.root_of(ev.target) != S and shared_root(ev.target) == S:
                n += 1
                bad.append("line %s: %s (an element of a copied list is the stored object itself)" % (ev.lineno, T.show(ev.target)[:90]))
            if ev.kind in ("store", "del") and T.root_of(ev.target) == S:
                n += 1
                allowed = PURE_EXCEPTIONS.get((f.qname, T.show(ev.target)))
                if ev.kind == "del" or allowed is None or ev.value != ("const", allowed[0]):
                    bad.append("line %s: %s" % (ev.lineno, T.show(ev.target)))
            if ev.kind == "call" and ev.value[1][0] == "attr" and T.root_of(ev.value[1][1]) == S and ev.value[1][1] != S \
                    and ev.value[1][2] in ("pop", "clear", "remove", "discard", "popitem", "sort", "reverse", "append", "add", "update", "setdefault", "extend"):
                rc = model.receiver_class(f, ast.parse(T.show(ev.value[1][1]), mode="eval").body) if False else None
                bad.append("line %s: %s.%s()" % (ev.lineno, T.show(ev.value[1][1]), ev.value[1][2]))
        rep.ob("R-WRITER-PURE", f.qname, not bad, site=cx.site(f.node),
               msg="" if not bad else "the writer changes object state: %s" % "; ".join(bad))
    if only is None:
        rep.floor("R-WRITER-PURE", 25)


@register("C08")
def check_c08(model, rep, tier):
    rep.explanation = (
        "Order provenance, decided on def-use terms of every serialize(): each emitted value in which an iteration order "
        "becomes visible (','.join, emitted lists, appends to output lists) is classified ORDERED (passed through sorted() "
        "or a local .sort()ed before use), CONTENT (caller-ordered lists, as the quantifier says) or UNORDERED (sets, dicts "
        "and their views, by the container kinds the attributes get in __init__; insertion order counts as unordered "
        "because the property quantifies over construction order); an UNORDERED source reaching such a sink is a "
        "violation. Image cells (sets) are appended to lists by a nested writer: the list must be sorted by path after the "
        "last append, for every cell. Keyed sinks are order-insensitive because every json.dump has constant "
        "sort_keys=True/indent=4/separators and the INI writer goes through SortedConfigParser with dict_type=SortedDict "
        "whose keys() is sorted and whose iterators all derive from keys(). Writers store only constants into object "
        "state, so repeated dumps cannot diverge. Not decided: byte equality across hash seeds as such (it follows when no "
        "unordered source reaches a sink).")
    rep.not_decided = ["actual byte equality across PYTHONHASHSEED values (follows from the decided clauses)"]
    rep.assumptions = ["json.dump(sort_keys=True) and ConfigParser.write emit keys in the order the mapping yields them"]
    r_order(model, rep)
    r_builder_order(model, rep)
    r_jsoncfg(model, rep)
    r_inicfg(model, rep)
    r_writer_pure(model, rep)
    # cells are sets of Image objects: with value-based equality, which of two "equal" images a cell keeps depends on the
    # order they were added in, and so does the file
    from .sources import r_identity_hash
    r_identity_hash(model, rep)


# ---------------------------------------------------------------------------------------------------------
# C20
# ---------------------------------------------------------------------------------------------------------
ACCESSORS = {
    "info": ("_composeinfo", ["metadata/composeinfo.json"], "productmd.composeinfo.ComposeInfo"),
    "images": ("_images", ["metadata/images.json", "metadata/image-manifest.json"], "productmd.images.Images"),
    "rpms": ("_rpms", ["metadata/rpms.json", "metadata/rpm-manifest.json"], "productmd.rpms.Rpms"),
    "modules": ("_modules", ["metadata/modules.json"], "productmd.modules.Modules"),
}


def r_layout_order(model, rep):
    f = model.own_method("compose.Compose", "__init__")
    cx = facts.fctx(model, f)
    S = P(cx.selfname)
    cp = P(cx.params[1])
    st = [ev for ev in cx.events if ev.kind == "store" and cx.self_attr(ev.target) == "compose_path"]
    cands = [c for e_ in st for c in facts.flows_to(cx, e_)]
    ok = bool(cands) and cands[0].value == cp and not cands[0].guards and not cands[0].loops
    rep.ob("R-LAYOUT-ORDER", "Compose.__init__:default-is-given-path", ok, site=cx.site(f.node),
           msg="" if ok else "compose_path must default to the given path")
    if not ok:
        return
    rest = cands[1:]
    sub = ("call", ("global", "os.path.join"), (cp, ("const", "compose")), ())
    probe = ("call", ("global", "_file_exists"), (("call", ("global", "os.path.join"), (sub, ("const", "metadata/composeinfo.json")), ()),), ())
    first = [c for c in rest if c.value == sub]
    ok = len(first) == 1 and not first[0].loops and facts.canon_guards(first[0].guards) == frozenset([facts.canon_guard((probe, True))])
    rep.ob("R-LAYOUT-ORDER", "Compose.__init__:compose-subdir-first", ok, site=cx.site(first[0].store.lineno if first else f.node),
           msg="" if ok else "<path>/compose must be preferred exactly when <path>/compose/metadata/composeinfo.json exists")
    legacy = [c for c in rest if c.value != sub]
    okl = len(legacy) == 1 and len(legacy[0].loops) == 1 and legacy[0].loops[0][1] == ("call", ("global", "os.listdir"), (cp,), ())
    if okl:
        e = legacy[0]
        el = ("elem", e.loops[0][1], e.loops[0][0])
        p = ("call", ("global", "os.path.join"), (cp, el), ())
        mp = ("call", ("global", "os.path.join"), (p, ("const", "metadata")), ())
        gs = facts.canon_guards(e.guards)
        want = {facts.canon_guard((probe, False)), facts.canon_guard((("call", ("global", "_file_exists"), (mp,), ()), True))}
        others = [g for g in gs if g not in want]
        # the scan runs for local existing paths only: '://' not in path and os.path.exists(path) (one conjunction or two tests)
        conj = set()
        for t, pol in others:
            if pol and t[0] == "boolop" and t[1] == "and":
                conj |= set(facts.canon_guard((x, True)) for x in t[2])
            else:
                conj.add((t, pol))
        local = {facts.canon_guard((("cmp", ("not in",), (("const", "://"), cp)), True)),
                 facts.canon_guard((("call", ("global", "os.path.exists"), (cp,), ()), True))}
        okl = e.value == p and want <= gs and conj == local
        # the first hit ends the scan
        if okl and not e.terminal:
            src = e.src or e.store
            brk = [ev for ev in cx.events if ev.kind == "break" and ev.loops == e.loops and ev.seq > src.seq
                   and facts.canon_guards(ev.guards) == facts.canon_guards(src.guards)]
            okl = len(brk) == 1
    if not okl and len(legacy) == 1 and not legacy[0].loops and legacy[0].value[0] == "call" and legacy[0].value[1] == ("global", "next"):
        # the scan spelled as "first match or None": next((<path>/<sub> for <sub> in listdir(<path>) if exists(<path>/<sub>/metadata)),
        # None), stored only when it is not None
        e = legacy[0]
        V = e.value
        var = ("bound", "$0")
        p = ("call", ("global", "os.path.join"), (cp, var), ())
        mp = ("call", ("global", "os.path.join"), (p, ("const", "metadata")), ())
        want_v = ("call", ("global", "next"), (("comp", "gen", p, ((("names", "$0"), ("call", ("global", "os.listdir"), (cp,), ()),
                                                                   (("call", ("global", "_file_exists"), (mp,), ()),)),)), ("const", None)), ())
        has_scheme = ("cmp", ("in",), (("const", "://"), cp))
        exists_cp = ("call", ("global", "os.path.exists"), (cp,), ())
        atoms = set(facts.canon_guard(a) for a in facts.flat_atoms(e.guards))
        need = {facts.canon_guard((probe, False)), facts.canon_guard((has_scheme, False)), facts.canon_guard((exists_cp, True))}
        notnone = facts.canon_guard((("cmp", ("is not",), (V, ("const", None))), True))
        stored_when_found = notnone in atoms
        if not stored_when_found:
            # the condition sits on the store itself (a helper's result tested as a whole): what it says on this path
            sc = facts.Scenario(cx, atoms={probe: False, has_scheme: False, exists_cp: True})
            stored_when_found = any(facts.canon_guard((T.degate(sc.term(g[0])), g[1])) == notnone for g in e.store.raw_guards)
        okl = V == want_v and need <= atoms and atoms - need <= {notnone} and stored_when_found
    rep.ob("R-LAYOUT-ORDER", "Compose.__init__:legacy-scan", okl, site=cx.site(legacy[0].store.lineno if legacy else f.node),
           msg="" if okl else "the legacy scan must run only when <path>/compose was not chosen, for local existing paths, choose "
                              "<path>/<sub> when <path>/<sub>/metadata exists and stop at the first hit")
    caches = [ev for ev in cx.events if ev.kind == "store" and cx.self_attr(ev.target) in [a[0] for a in ACCESSORS.values()]]
    ok = len(caches) == 4 and all(ev.value == ("const", None) and not ev.guards for ev in caches)
    rep.ob("R-LAYOUT-ORDER", "Compose.__init__:caches-start-empty", ok, site=cx.site(f.node),
           msg="" if ok else "the four cache fields must start as None")


def r_accessors(model, rep):
    cls = model.cls("compose.Compose")
    fields = [a[0] for a in ACCESSORS.values()]
    for name, (field, names, klass) in sorted(ACCESSORS.items()):
        if name not in cls.methods or name not in cls.properties:
            rep.ob("R-ACCESSOR-SIBLINGS", "Compose.%s" % name, False, msg="accessor property %s vanished" % name)
            continue
        f = FuncRef(cls.module, cls, cls.methods[name])
        cx = facts.fctx(model, f)
        S = P(cx.selfname)
        cache = ("attr", S, field)
        # R-CACHE typestate: every return hands out the cache field; the field is (re)loaded exactly when it is None; no
        # return can be reached with an empty cache without passing the load
        rets = [ev for ev in cx.events if ev.kind == "return"]
        loads = [ev for ev in cx.events if ev.kind == "store" and ev.target == cache]
        isnone = ("cmp", ("is",), (cache, ("const", None)))
        ok = bool(rets) and len(loads) == 1 and all(r.value == cache for r in rets)
        msg = "accessor must return the cached object when present, else load, store it in the same field and return that field"
        if ok:
            ld = loads[0]
            ok = ld.value[0] == "call" and ld.value[1] == ("attr", S, "_load_metadata") \
                and facts.canon_guards(ld.guards) == frozenset([facts.canon_guard((isnone, True))])
            for r in rets:
                cached_path = facts.canon_guard((isnone, False)) in facts.canon_guards(r.guards)
                after_load = r.seq > ld.seq and facts.canon_guards(r.guards) <= facts.canon_guards(ld.guards)
                ok = ok and (cached_path or after_load)
        rep.ob("R-CACHE", "Compose.%s" % name, ok, site=cx.site(f.node), msg="" if ok else msg)
        # siblings: no accessor touches another's cache field
        touched = set()
        for ev in cx.events:
            for t in (ev.value, ev.target):
                if t is not None:
                    touched |= set(a for a in cx.self_attrs_in(t) if a in fields)
        ok = touched == {field}
        rep.ob("R-ACCESSOR-SIBLINGS", "Compose.%s:cache-field" % name, ok, site=cx.site(f.node),
               msg="" if ok else "accessor %s uses cache field(s) %s, expected only %s" % (name, sorted(touched), field))
        # candidates and class
        if loads:
            lc = [x for x in T.walk(loads[0].value) if x[0] == "call" and x[1] == ("attr", S, "_load_metadata")]
            args = lc[0][2] if lc else ()
            try:
                got_names = list(cx.const_of(args[0])) if args else None
            except NotConst:
                got_names = None
            got_cls = args[1][1] if len(args) > 1 and args[1][0] == "global" else None
            ok = got_names == names and got_cls == klass
            rep.ob("R-ACCESSOR-SIBLINGS", "Compose.%s:candidates" % name, ok, site=cx.site(f.node),
                   msg="" if ok else "accessor %s loads %s as %s, documented: %s (current name first) as %s" % (name, got_names, got_cls, names, klass))


def r_rte_wrap(model, rep):
    f = model.own_method("compose.Compose", "_find_metadata_file")
    cx = facts.fctx(model, f)
    S = P(cx.selfname)
    # "raise exactly when no candidate exists, else hand out the first existing one" in any spelling of the search
    rets = [ev for ev in cx.events if ev.kind == "return"]
    ss = [x for x in facts.searches(cx) if x.coll == P(cx.params[1])]
    ok = len(ss) == 1 and bool(rets) and not cx.ex.falls_through
    if ok:
        x = ss[0]
        p = ("call", ("global", "os.path.join"), (("attr", S, "compose_path"), x.elem), ())
        ok = x.test == ("call", ("global", "_file_exists"), (p,), ())
        if x.form == "next":
            # first match or None, refused when None: what is handed out is that first match, after the refusal
            ok = ok and x.value == p and all(r.value == x.term and r.seq > x.raise_ev.seq and not r.loops for r in rets)
            rets = []
        for r in rets:
            vals = [a for a in T.alts(r.value) if a[0] not in ("undef", "carried")]
            ok = ok and vals == [p]
            if not r.loops:
                # returned after the loop: only the hit leaves the loop normally (the miss raises)
                ok = ok and x.form == "flag" and r.seq > x.raise_ev.seq
    rep.ob("R-RTE-WRAP", "Compose._find_metadata_file:first-existing-candidate", ok, site=cx.site(f.node),
           msg="" if ok else "candidates must be probed in the given order under compose_path and the first existing one returned")
    rs = [ev for ev in cx.events if ev.kind == "raise"]
    ok = len(rs) == 1 and not rs[0].loops and rs[0].value[0] == "call" and rs[0].value[1] == ("global", "RuntimeError") \
        and T.contains(rs[0].value, lambda x: x == ("attr", S, "compose_path"))
    tp = facts.tuple_in_percent(model, f)
    ok = ok and not tp
    rep.ob("R-RTE-WRAP", "Compose._find_metadata_file:RuntimeError", ok, site=cx.site(f.node),
           msg="" if ok else ("a missing file must raise RuntimeError naming compose_path" + (
               "; line %s interpolates parameter %r with %%, and a call site passes a tuple for it: the formatting raises TypeError "
               "instead" % tp[0] if tp else "")))
    g = model.own_method("compose.Compose", "_load_metadata")
    gcx = facts.fctx(model, g)
    S = P(gcx.selfname)
    path = ("call", ("attr", S, "_find_metadata_file"), (P(gcx.params[1]),), ())
    obj_b = [ev for ev in gcx.events if ev.kind == "bind" and ev.value == ("call", P(gcx.params[2]), (), ())]
    ld = [ev for ev in gcx.events if ev.kind == "call" and ev.value[1][0] == "attr" and ev.value[1][2] == "load"]
    ok = len(obj_b) == 1 and len(ld) == 1 and ld[0].value[1][1] == obj_b[0].value and ld[0].value[2] == (path,)
    rets = [ev for ev in gcx.events if ev.kind == "return"]
    ok = ok and len(rets) == 1 and rets[0].value == obj_b[0].value
    rep.ob("R-RTE-WRAP", "Compose._load_metadata:loads-found-file", ok, site=gcx.site(g.node),
           msg="" if ok else "_load_metadata must create cls(), load the found file into it and return it")
    # load() inside try/except ValueError -> RuntimeError naming the path
    wrapped = False
    for node in ast.walk(g.node):
        if isinstance(node, ast.Try):
            has_load = any(isinstance(n, ast.Call) and isinstance(n.func, ast.Attribute) and n.func.attr == "load" for b in node.body for n in ast.walk(b))
            for h in node.handlers:
                names = [dotted(x) for x in (h.type.elts if isinstance(h.type, ast.Tuple) else [h.type])] if h.type is not None else []
                if has_load and "ValueError" in names:
                    wrapped = True
    rs = [ev for ev in gcx.events if ev.kind == "raise" and any(g_[0] == ("exc", "ValueError") for g_ in ev.guards)]
    ok = wrapped and len(rs) == 1 and rs[0].value[0] == "call" and rs[0].value[1] == ("global", "RuntimeError") \
        and T.contains(rs[0].value, lambda x: x == path)
    rep.ob("R-RTE-WRAP", "Compose._load_metadata:ValueError->RuntimeError", ok, site=gcx.site(g.node),
           msg="" if ok else "an undecodable file (ValueError from load) must surface as RuntimeError naming the path")


@register("C20")
def check_c20(model, rep, tier):
    rep.explanation = (
        "Structural rules over productmd.compose.Compose (def-use terms): the constructor takes the given path as default, "
        "prefers <path>/compose exactly when <path>/compose/metadata/composeinfo.json exists, and only otherwise (elif) "
        "scans local existing paths for <sub>/metadata, stopping at the first hit; the four accessors are siblings: each "
        "returns its own cache field when it is not None, else assigns the same field from _load_metadata with the "
        "documented candidate names (current name first) and class, and returns that field; no accessor touches another's "
        "cache field; _find_metadata_file probes the candidates in order under compose_path and raises RuntimeError naming "
        "it; _load_metadata loads the found file into cls() inside try/except ValueError re-raised as RuntimeError naming "
        "the path. Not decided: behaviour over actual directory trees and HTTP.")
    rep.not_decided = ["behaviour over actual file-system configurations", "HTTP locations"]
    r_layout_order(model, rep)
    r_accessors(model, rep)
    r_rte_wrap(model, rep)
    # "equals what loading that file directly gives": load() parses the file itself, every time
    f = model.own_method("common.MetadataBase", "parse_file")
    pcx = facts.fctx(model, f)
    rets = [ev for ev in pcx.events if ev.kind == "return"]
    ok = bool(rets) and not pcx.ex.falls_through and all(x[0] == "call" and x[1] == ("global", "json.load") for r_ in rets for x in T.alts(r_.value))
    glob = [ev for ev in pcx.events if ev.kind in ("store", "call") and (
        (ev.kind == "store" and T.root_of(ev.target) is not None and T.root_of(ev.target)[0] == "global") or
        (ev.kind == "call" and ev.value[1][0] == "global" and ev.value[1][1].split(".")[0].isupper()))]
    rep.ob("R-RTE-WRAP", "MetadataBase.parse_file:parses-the-file", ok and not glob, site=pcx.site(f.node),
           msg="" if ok and not glob else "parse_file must return json.load(<the file>) and keep no module-level state (a parsed-document cache "
                                         "makes separately loaded objects share state)")
    # _file_exists: local paths -> os.path.exists
    f = model.function("common", "_file_exists")
    cx = facts.fctx(model, f)
    rets = [ev for ev in cx.events if ev.kind == "return"]
    # ... i.e. whenever the path is not one of the URL forms (the URL test may be conjoined with an isinstance(str) test)
    def url_test(t):
        # path.startswith(("http://", "https://", ...)): a test for URL schemes and nothing else
        if not (t[0] == "call" and t[1] == ("attr", P(cx.params[0]), "startswith") and len(t[2]) == 1):
            return False
        a = t[2][0]
        items = a[1] if a[0] == "tuple" else (a,)
        return bool(items) and all(x[0] == "const" and isinstance(x[1], str) and x[1].endswith("://") for x in items)

    def is_inst(t):
        return t[0] == "call" and t[1] == ("global", "isinstance")

    def url_cond(t):
        # the URL test, possibly conjoined with isinstance(path, str) tests
        if url_test(t):
            return True
        return t[0] == "boolop" and t[1] == "and" and all(url_test(x) or is_inst(x) for x in t[2]) and any(url_test(x) for x in t[2])

    def local_branch(r):
        atoms = facts.guard_atoms(r.guards)
        return all((not pol and url_cond(t)) or (pol and is_inst(t)) for t, pol in atoms) and any(not pol and url_cond(t) for t, pol in atoms)
    ok = any(r.value == ("call", ("global", "os.path.exists"), (P(cx.params[0]),), ()) and local_branch(r) for r in rets)
    rep.ob("R-LAYOUT-ORDER", "common._file_exists:local", ok, site=cx.site(f.node),
           msg="" if ok else "_file_exists must be os.path.exists for local paths")
