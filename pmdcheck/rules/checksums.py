# -*- coding: utf-8 -*-
"""
C16 -- checksums recorded in metadata are the true digests of the right files.

Rules: R-CHUNK-LOOP, R-CKS-ADD, R-CKS-FORMAT, R-CKS-DEFASSIGN, R-CKS-LEGACY, R-IMG-ADDCKS (+ R-VAL-DEAD, shared).
"""
from __future__ import annotations

import ast
import hashlib

from .. import facts
from .. import terms as T
from ..core import AnalysisError
from ..model import NotConst, dotted
from ..walker import PathRule, Walker
from . import register


def P(n):
    return ("param", n)


class ChunkLoop(PathRule):
    """state flag 'R': a chunk was read and has not reached update() yet (and is not known to be empty)"""

    def __init__(self, chunk_names, digest_names):
        self.chunk_names = chunk_names
        self.digest_names = digest_names
        self.bad = []
        self.updates = 0
        self.reads = 0

    def effect(self, eff, st):
        if eff.kind == "store" and isinstance(eff.target, ast.Name):
            v = eff.value
            if isinstance(v, ast.Call) and isinstance(v.func, ast.Attribute) and v.func.attr == "read" and eff.stmt.value is v:
                self.reads += 1
                self.chunk_names.add(eff.target.id)
                if "R" in st:
                    self.bad.append((eff.node.lineno, "a chunk is overwritten by the next read before reaching update()"))
                return [st | {"R"}], []
        if eff.kind == "call":
            c = eff.node
            if isinstance(c.func, ast.Attribute) and c.func.attr == "update" and isinstance(c.func.value, ast.Name) \
                    and c.func.value.id in self.digest_names and len(c.args) == 1 and isinstance(c.args[0], ast.Name) \
                    and c.args[0].id in self.chunk_names:
                self.updates += 1
                return [st - {"R"}], []
        return [st], []

    def assume(self, test, polarity, st):
        t, pol = test, polarity
        while isinstance(t, ast.UnaryOp) and isinstance(t.op, ast.Not):
            t, pol = t.operand, not pol
        if isinstance(t, ast.Name) and t.id in self.chunk_names and not pol:
            return [st - {"R"}]       # the chunk is empty on this branch: nothing to feed
        if isinstance(t, ast.Compare) and len(t.ops) == 1 and isinstance(t.left, ast.Call) and dotted(t.left.func) == "len" \
                and isinstance(t.left.args[0], ast.Name) and t.left.args[0].id in self.chunk_names \
                and isinstance(t.comparators[0], ast.Constant) and t.comparators[0].value == 0:
            empty = (isinstance(t.ops[0], ast.Eq) and pol) or (isinstance(t.ops[0], (ast.NotEq, ast.Gt)) and not pol)
            if empty:
                return [st - {"R"}]
        return [st]


def r_chunk_loop(model, rep):
    f = model.function("treeinfo", "compute_checksum")
    cx = facts.fctx(model, f)
    path, ctype = P(cx.params[0]), P(cx.params[1])
    # the digest object
    new = [ev for ev in cx.events if ev.kind == "bind" and ev.value == ("call", ("global", "hashlib.new"), (ctype,), ())]
    ok = len(new) == 1 and not new[0].guards
    rep.ob("R-CHUNK-LOOP", "compute_checksum:hashlib.new(type)", ok, site=cx.site(f.node),
           msg="" if ok else "the digest must be created with hashlib.new(<the requested algorithm>)")
    if not ok:
        return
    digest = new[0].value
    dname = new[0].target[1]
    # opened in binary mode, the given path
    withs = [w for w in ast.walk(f.node) if isinstance(w, ast.With)]
    ok = False
    fo = None
    for w in withs:
        for it in w.items:
            c = it.context_expr
            if isinstance(c, ast.Call) and dotted(c.func) == "open" and len(c.args) >= 2 and isinstance(c.args[1], ast.Constant) \
                    and c.args[1].value == "rb" and isinstance(c.args[0], ast.Name) and c.args[0].id == cx.params[0] \
                    and isinstance(it.optional_vars, ast.Name):
                ok = True
                fo = it.optional_vars.id
    rep.ob("R-CHUNK-LOOP", "compute_checksum:open-rb", ok, site=cx.site(f.node),
           msg="" if ok else "the file must be opened as open(path, 'rb')")
    # read size: a positive constant (or no argument)
    reads = [ev for ev in cx.events if ev.kind == "call" and ev.value[1][0] == "attr" and ev.value[1][2] == "read"
             and T.contains(ev.value[1][1], lambda x: x[0] == "call" and x[1] == ("global", "open"))]
    ok = len(reads) >= 1
    for r in reads:
        if r.value[2]:
            size = facts.fold_small(r.value[2][0])
            if size is None:
                try:
                    size = cx.const_of(r.value[2][0])
                except Exception:
                    size = None
            ok = ok and isinstance(size, int) and not isinstance(size, bool) and size > 0
        ok = ok and not r.value[3]
    rep.ob("R-CHUNK-LOOP", "compute_checksum:read-size", ok, site=cx.site(f.node),
           msg="" if ok else "read() must be called on the opened file with a positive constant size")
    rule = ChunkLoop(set(), {dname})
    ex = Walker(rule).run(f.node, {frozenset()})
    for st in list(ex.normal) + [s for s, _ in ex.ret]:
        if "R" in st:
            rule.bad.append((f.node.lineno, "a non-empty chunk is dropped on a path that leaves the function"))
    ok = not rule.bad and rule.updates >= 1 and rule.reads >= 1
    rep.ob("R-CHUNK-LOOP", "compute_checksum:every-chunk-reaches-update", ok, site=cx.site(f.node),
           msg="" if ok else ("; ".join("line %s: %s" % b for b in sorted(set(rule.bad))) or "no read()/update(chunk) pair found"),
           facts={"reads": rule.reads, "updates": rule.updates})
    # the loop ends only on an empty chunk
    loops = [n for n in ast.walk(f.node) if isinstance(n, (ast.While, ast.For))]
    ok = len(loops) == 1 and isinstance(loops[0], ast.While)
    if ok:
        lp = loops[0]
        exits = [n for n in ast.walk(lp) if isinstance(n, (ast.Break, ast.Return, ast.Raise))]
        infinite = isinstance(lp.test, ast.Constant) and bool(lp.test.value)
        brk = [ev for ev in cx.events if ev.kind == "break"]
        chunk_terms = [ev.value for ev in cx.events if ev.kind == "bind" and ev.value[0] == "call" and ev.value[1][0] == "attr" and ev.value[1][2] == "read"]
        if infinite:
            ok = len(exits) == 1 and len(brk) == 1 and chunk_terms and brk[0].guards and brk[0].guards[-1] in (
                (("unary", "not", chunk_terms[0]), True), ((chunk_terms[0]), False))
        else:
            ok = not exits and isinstance(lp.test, ast.Name) and lp.test.id in rule.chunk_names
    rep.ob("R-CHUNK-LOOP", "compute_checksum:loop-ends-only-at-eof", ok, site=cx.site(f.node),
           msg="" if ok else "the read loop must end exactly when read() returns an empty chunk (no other exit)")
    # result
    rets = [ev for ev in cx.events if ev.kind == "return"]
    hx = ("call", ("attr", digest, "hexdigest"), (), ())
    ok = len(rets) == 1 and rets[0].value in (hx, ("call", ("attr", hx, "lower"), (), ())) and not rets[0].loops
    rep.ob("R-CHUNK-LOOP", "compute_checksum:returns-hexdigest", ok, site=cx.site(f.node),
           msg="" if ok else "the function must return hexdigest() of the digest object that was fed")


def r_cks_add(model, rep):
    f = model.own_method("treeinfo.Checksums", "add")
    cx = facts.fctx(model, f)
    S = P(cx.selfname)
    rel, ctype, cval, root = [P(x) for x in cx.params[1:5]]
    norm = ("call", ("global", "os.path.normpath"), (rel,), ())
    st = [ev for ev in cx.events if ev.kind == "store" and T.root_of(ev.target) == S]
    ok = len(st) == 1 and st[0].target == ("sub", ("attr", S, "checksums"), norm)
    rep.ob("R-CKS-ADD", "Checksums.add:stored-under-normpath", ok, site=cx.site(f.node),
           msg="" if ok else "the checksum must be stored under os.path.normpath(relative_path)")
    if st:
        v = T.unwrap(st[0].value)
        cc = ("call", ("global", "compute_checksum"), (("call", ("global", "os.path.join"), (root, norm), ()), ctype), ())
        okv = v[0] in ("list", "tuple") and len(v[1]) == 2 and v[1][0] == ctype and v[1][1][0] == "phi" and set(v[1][1][1]) == {cc, cval}
        rep.ob("R-CKS-ADD", "Checksums.add:stored-pair", okv, site=cx.site(st[0].lineno),
               msg="" if okv else "the stored pair must be (checksum_type, given value or compute_checksum(join(root_dir, normalised path), checksum_type)): %s" % T.show(v)[:200])
        calls = [ev for ev in cx.events if ev.kind == "call" and ev.value[1] == ("global", "compute_checksum")]
        # ... exactly when no value was supplied (further refusals on that path -- a missing root_dir -- are early exits, not
        # conditions of the computation)
        okc = len(calls) == 1 and facts.guard_atoms(facts.own_guards(cx, calls[0])) == {facts.canon_guard((cval, False))}
        rep.ob("R-CKS-ADD", "Checksums.add:computed-only-when-missing", okc, site=cx.site(f.node),
               msg="" if okc else "the digest must be computed exactly when no value was supplied")
    # the absolute-path refusal tests the *argument* before normalisation and dominates the store
    rs = [ev for ev in cx.events if ev.kind == "raise" and ev.guards and ev.guards[-1] == (("call", ("attr", rel, "startswith"), (("const", "/"),), ()), True)]
    ok = len(rs) == 1 and bool(st) and rs[0].seq < st[0].seq
    rep.ob("R-CKS-ADD", "Checksums.add:absolute-refused-first", ok, site=cx.site(f.node),
           msg="" if ok else "an absolute path must be refused before anything is stored")


def r_cks_reader(model, rep, rule_id="R-CKS-DEFASSIGN", format_only=False):
    f = model.own_method("treeinfo.Checksums", "deserialize")
    cx = facts.fctx(model, f)
    S = P(cx.selfname)
    IN = P(cx.params[1])
    st = [ev for ev in cx.events if ev.kind == "store" and ev.target[0] == "sub" and ev.target[1] == ("attr", S, "checksums")]
    if len(st) != 1 or len(st[0].loops) != 1:
        raise AnalysisError("Checksums.deserialize: expected one store self.checksums[path] = ... inside one loop")
    e = st[0]
    it = e.loops[0][1]
    el = ("elem", it, e.loops[0][0])
    key = e.target[2]
    # (the section name as the attribute, or as the constant a class-level ``_section = "checksums"`` folds to)
    ok = it in (("call", ("attr", IN, "items"), (("attr", S, "_section"),), ()),
                ("call", ("attr", IN, "items"), (("const", "checksums"),), ())) \
        and key == ("call", ("attr", S, "_fix_path"), (("idx", el, 0),), ())
    rep.ob(rule_id, "Checksums.deserialize:keyed-by-option", ok, site=cx.site(e.lineno),
           msg="" if ok else "every option of [checksums] must be stored under its own (fixed) path: %s" % T.show(key)[:120])
    v = T.unwrap(e.value)
    if v[0] in ("phi", "ifexp"):
        # a pair chosen as a whole (a helper returning (type, value) from several places): the pair of what each component can be
        leaves = T.alts(v)
        if leaves and all(a[0] in ("tuple", "list") and len(a[1]) == 2 for a in leaves):
            comps = []
            for i in (0, 1):
                xs = []
                for a in leaves:
                    for y in T.alts(a[1][i]):
                        if y not in xs:
                            xs.append(y)
                comps.append(xs[0] if len(xs) == 1 else ("phi", tuple(xs)))
            v = ("tuple", tuple(comps))
    if not (v[0] in ("tuple", "list") and len(v[1]) == 2):
        rep.ob(rule_id, "Checksums.deserialize:pair", False, site=cx.site(e.lineno), msg="stored value is not a (type, value) pair")
        return
    value = ("idx", el, 1)
    if format_only:
        # round-trip clause only (C04): 'type:value' entries are split on ':' into (type, value)
        sp = ("call", ("attr", value, "split"), (("const", ":"),), ())
        t_alts = set(v[1][0][1]) if v[1][0][0] == "phi" else {v[1][0]}
        d_alts = set(v[1][1][1]) if v[1][1][0] == "phi" else {v[1][1]}
        ok = ("idx", sp, 0) in t_alts and ("idx", sp, 1) in d_alts
        rep.ob(rule_id, "Checksums.deserialize:type:value", ok, site=cx.site(e.lineno),
               msg="" if ok else "'<type>:<value>' entries must be split on ':' into (type, value)")
        return
    # definite assignment per iteration: nothing carried over from a previous iteration / undefined
    stale = []
    for comp, label in ((v[1][0], "algorithm"), (v[1][1], "digest")):
        for x in T.walk(comp):
            if x[0] in ("carried", "undef"):
                stale.append("%s (variable %s)" % (label, x[1]))
    rep.ob("R-CKS-DEFASSIGN", "Checksums.deserialize:definite-assignment", not stale, site=cx.site(e.lineno),
           msg="" if not stale else "on some path of a loop iteration the %s stored for a path is not assigned in that iteration: it is "
                                   "the value left over from the previous entry (or undefined for the first): a bare digest of "
                                   "unrecognised length silently receives another path's checksum" % ", ".join(sorted(set(stale))))
    # 'type:value' split
    sp = ("call", ("attr", value, "split"), (("const", ":"),), ())
    t_alts = set(v[1][0][1]) if v[1][0][0] == "phi" else {v[1][0]}
    d_alts = set(v[1][1][1]) if v[1][1][0] == "phi" else {v[1][1]}
    ok = ("idx", sp, 0) in t_alts and ("idx", sp, 1) in d_alts
    rep.ob(rule_id, "Checksums.deserialize:type:value", ok, site=cx.site(e.lineno),
           msg="" if ok else "'<type>:<value>' entries must be split on ':' into (type, value)")
    # bare digests: typed by length; evaluated per scenario (no ':' in the value, len(value) == L), whatever the spelling of
    # the dispatch (if/elif chain, table lookup)
    colon = ("cmp", ("in",), (("const", ":"), value))
    ln = ("call", ("global", "len"), (value,), ())
    want = dict((hashlib.new(a).digest_size * 2, a) for a in ("md5", "sha1", "sha256"))
    table = {}
    for L in sorted(want) + [8, 33, 56, 128]:
        sc = facts.Scenario(cx, atoms={colon: False}, subst={ln: ("const", L)}).assume_context(e)
        h = sc.holds(e)
        if h is False:
            continue
        tv = sc.term(e.raw)
        tv = T.unwrap(tv)
        refused = [ev for ev, hh in sc.events("raise") if hh is True and ev.seq < e.seq]
        if refused:
            continue
        if tv[0] in ("tuple", "list") and len(tv[1]) == 2 and tv[1][0][0] == "const":
            table[L] = tv[1][0][1]
        else:
            table[L] = T.show(tv)[:60]
    ok = table == want
    rep.ob("R-CKS-LEGACY", "Checksums.deserialize:length-table", ok, site=cx.site(f.node),
           msg="" if ok else "bare digests must be typed by length %s (hex digest sizes of hashlib), found %s" % (want, table))
    others = [a for a in d_alts if a not in (("idx", sp, 1), value) and a[0] not in ("carried", "undef")]
    rep.ob("R-CKS-LEGACY", "Checksums.deserialize:bare-digest-kept", value in d_alts and not others, site=cx.site(f.node),
           msg="" if value in d_alts and not others else "a bare digest must be stored unchanged")
    # which branch: ':' in value decides
    binds = [ev for ev in cx.events if ev.kind == "bind" and ev.value == ("idx", sp, 0)]
    ok = len(binds) == 1 and any(facts.canon_guard_pair(g) == (("cmp", ("in",), (("const", ":"), value)), True) for g in binds[0].guards)
    rep.ob(rule_id, "Checksums.deserialize:split-iff-colon", ok, site=cx.site(f.node),
           msg="" if ok else "the value must be split exactly when it contains ':'")
    # unrecognised bare digests are rejected
    rej = True
    for L in (8, 33, 56, 128):
        sc = facts.Scenario(cx, atoms={colon: False}, subst={ln: ("const", L)}).assume_context(e)
        r = [ev for ev, hh in sc.events("raise") if hh is True and ev.seq < e.seq and ev.value[0] == "call" and ev.value[1] == ("global", "ValueError")]
        rej = rej and bool(r)
    rep.ob("R-CKS-LEGACY", "Checksums.deserialize:unknown-length-rejected", bool(rej), site=cx.site(f.node),
           msg="" if rej else "a bare digest whose length is none of 32/40/64 must be rejected (ValueError)")
    # the store is unconditional within the iteration
    own = facts.own_guards(cx, e, kinds=("raise",))
    ng = [g for g in facts.non_gate_guards(e) if g in own and not (g[0][0] == "call" and g[0][1][0] == "attr" and g[0][1][2] == "has_section")]
    rep.ob(rule_id, "Checksums.deserialize:every-entry-stored", not ng, site=cx.site(e.lineno),
           msg="" if not ng else "entries are only stored under %s" % [T.show(g[0]) for g in ng])


def r_img_addcks(model, rep):
    f = model.own_method("images.Image", "add_checksum")
    cx = facts.fctx(model, f)
    S = P(cx.selfname)
    t, v = P(cx.params[2]), P(cx.params[3])
    cks = ("attr", S, "checksums")
    def nc(x):
        """hex digests compare case-insensitively: a consistent .lower()/.upper() on the values is not a different value"""
        def fn(y):
            if y[0] == "call" and y[1][0] == "attr" and y[1][2] in ("lower", "upper") and not y[2] and not y[3]:
                return y[1][1]
            return None
        return T.phi_form(T.subst(x, fn))
    st = [ev for ev in cx.events if ev.kind == "store" and T.root_of(ev.target) == S]
    if len(st) == 1 and st[0].target[0] == "sub" and st[0].target[1] == cks and T.contains(st[0].target[2], lambda x: x == t):
        t = st[0].target[2]      # the key actually used (the type argument, possibly normalised)
    present = ("cmp", ("in",), (t, cks))
    ok = len(st) == 1 and st[0].target == ("sub", cks, t) and nc(st[0].value) == v \
        and facts.guard_atoms(facts.own_guards(cx, st[0])) <= {facts.canon_guard((present, False))} \
        and facts.canon_guard((present, False)) in facts.guard_atoms(st[0].guards)
    rep.ob("R-IMG-ADDCKS", "Image.add_checksum:no-overwrite", ok, site=cx.site(f.node),
           msg="" if ok else "a checksum may only be stored when no value of that type is recorded yet")
    rs = [ev for ev in cx.events if ev.kind == "raise" and ev.value[0] == "call" and ev.value[1] == ("global", "ValueError")]
    cur = ("sub", cks, t)
    conflict = {facts.canon_guard((present, True)), facts.canon_guard((v, True)), facts.canon_guard((("cmp", ("!=",), (v, cur)), True))}
    # the conflict refusal: among the ValueErrors, the one conditioned on the recorded value (other refusals -- a blank type ... --
    # may precede it; their negations are not conditions of this one)
    rs = [ev for ev in rs if any(T.contains(g[0], lambda x: x == cur) for g in ev.guards)]
    ok = len(rs) == 1 and conflict <= facts.guard_atoms([(nc(g[0]), g[1]) for g in rs[0].guards]) \
        and facts.guard_atoms([(nc(g[0]), g[1]) for g in facts.own_guards(cx, rs[0])]) <= conflict
    rep.ob("R-IMG-ADDCKS", "Image.add_checksum:conflict-raises", ok, site=cx.site(f.node),
           msg="" if ok else "a different non-empty value for a recorded checksum type must raise ValueError")
    rets = [ev for ev in cx.events if ev.kind == "return"]
    ok = len(rets) == 2 and sorted(T.show(nc(r.value)) for r in rets) == sorted([T.show(cur), T.show(v)])
    rep.ob("R-IMG-ADDCKS", "Image.add_checksum:returns-recorded-value", ok, site=cx.site(f.node), trivial=True,
           msg="" if ok else "add_checksum must return the recorded value")


@register("C16")
def check_c16(model, rep, tier):
    from .validation import r_val_dead, r_val_strength_rows, _install_validate_summary
    from .oracle_tables import VAL_OBLIGATIONS
    from .roundtrip import r_checksums_schema
    from .builders import refusal
    rep.explanation = (
        "Structural rules over the checksum code. compute_checksum: the digest object comes from hashlib.new(<requested "
        "algorithm>), the file is opened 'rb', read() has a positive constant size, and a path walker proves that every "
        "non-empty chunk reaches update(chunk) before the next read or any exit, that the loop ends only on an empty "
        "chunk, and that the function returns hexdigest() of that same object. Checksums.add: absolute paths are refused "
        "before the store, the key is os.path.normpath of the argument, the digest is computed exactly when no value is "
        "given, from join(root_dir, normalised path). Reader: every [checksums] option is stored under its own path; "
        "'type:value' is split on ':' exactly when ':' occurs; bare digests are typed by a length table equal to hashlib's "
        "hex digest sizes; per loop iteration the stored algorithm and digest are definitely assigned in that iteration "
        "(no value carried over from the previous entry); unknown lengths are rejected. The relative-path validator is "
        "live (R-VAL-DEAD/R-VAL-STRENGTH). Image.add_checksum never overwrites a recorded value and raises on a "
        "conflicting one. Not decided: equality of hashlib's digests with 'the standard digest' (trusted).")
    rep.not_decided = ["digest equality for all contents (hashlib is trusted)"]
    rep.assumptions = ["hashlib digests are the standard digests", "file.read(n) returns b'' only at end of file"]
    _install_validate_summary(model)
    r_chunk_loop(model, rep)
    r_cks_add(model, rep)
    r_checksums_schema(model, rep)
    r_cks_reader(model, rep)
    from .roundtrip import r_fix_path_identity
    r_fix_path_identity(model, rep, classes=("treeinfo.Checksums",), relative_clause=True)
    r_img_addcks(model, rep)
    r_val_dead(model, rep)
    r_val_strength_rows(model, rep, [r for r in VAL_OBLIGATIONS if r[0] == "treeinfo.Checksums"], rule_id="R-VAL-STRENGTH")
