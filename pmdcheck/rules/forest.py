# -*- coding: utf-8 -*-
"""
C11 -- the composeinfo variant forest stays consistent and every variant is findable.

Rules: R-ADD-ATOMIC(VariantBase.add), R-TRUTHY-OBJ, R-GETVAR, R-FOREST-VALIDATORS, R-UID-FORMAT.
"""
from __future__ import annotations

import ast

from .. import facts
from .. import terms as T
from ..core import AnalysisError
from ..model import FuncRef, dotted
from . import register
from .atomic import check_atomic
from .oracle_tables import VAL_OBLIGATIONS


def builder_refs(model):
    out = []
    for q, n in (("composeinfo.VariantBase", "add"), ("composeinfo.Variant", "add"), ("images.Images", "add"),
                 ("images.Image", "add_checksum"), ("rpms.Rpms", "add"), ("modules.Modules", "add"),
                 ("extra_files.ExtraFiles", "add"), ("treeinfo.Checksums", "add")):
        out.append(model.own_method(q, n))
    return out


# ---------------------------------------------------------------------------------------------------------
def length_truthy_attrs(model):
    """(attribute name, family of classes) such that the attribute may hold an instance of a class defining
    __len__/__bool__: found from stores  ``<x>.A = self``  inside methods of such classes"""
    out = {}
    for f in model.all_functions():
        if f.cls is None or not f.node.args.args:
            continue
        selfname = f.node.args.args[0].arg
        sized = [c for c in model.subclasses(f.cls) if c.lookup("__len__") or c.lookup("__bool__")]
        if not sized:
            continue
        for node in ast.walk(f.node):
            if isinstance(node, ast.Assign) and isinstance(node.value, ast.Name) and node.value.id == selfname:
                for t in node.targets:
                    if isinstance(t, ast.Attribute):
                        # receiver classes: every repo class that declares the attribute as None in __init__ and is
                        # related to the storing class
                        fam = set()
                        for c in model.classes.values():
                            ia = c.init_attrs(model).get(t.attr)
                            if ia is not None and ia.kind(model) == "None" and (
                                    f.cls in c.mro() or c in f.cls.mro() or set(c.mro()) & set(f.cls.mro()) - {model.cls("common.MetadataBase")}):
                                fam.add(c)
                        if fam:
                            out.setdefault(t.attr, set()).update(fam)
    return out


def truth_tests(func_node):
    """expressions used in a boolean context: (expr, context, node)"""
    out = []

    def cond(e, ctx, node):
        if isinstance(e, ast.BoolOp):
            for v in e.values:
                cond(v, ctx, node)
        elif isinstance(e, ast.UnaryOp) and isinstance(e.op, ast.Not):
            cond(e.operand, ctx, node)
        else:
            out.append((e, ctx, node))
    for node in ast.walk(func_node):
        if isinstance(node, (ast.If, ast.While)):
            cond(node.test, "if" if isinstance(node, ast.If) else "while", node)
        elif isinstance(node, ast.IfExp):
            cond(node.test, "ifexp", node)
        elif isinstance(node, ast.BoolOp):
            # value-position and/or: every operand but the last is truth-tested
            for v in node.values[:-1]:
                cond(v, "boolop", node)
        elif isinstance(node, ast.Assert):
            cond(node.test, "assert", node)
        elif isinstance(node, ast.comprehension):
            for c in node.ifs:
                cond(c, "comp-if", node)
    return out


def none_tests(func_node):
    out = []
    for node in ast.walk(func_node):
        if isinstance(node, ast.Compare) and len(node.ops) == 1 and isinstance(node.ops[0], (ast.Is, ast.IsNot)) \
                and isinstance(node.comparators[0], ast.Constant) and node.comparators[0].value is None:
            out.append(node.left)
    return out


def r_truthy_obj(model, rep):
    """a truthiness test on an object whose class defines __len__ is a length test; reported when the same
    attribute is elsewhere compared with ``is None`` (two beliefs about one value)"""
    lt = length_truthy_attrs(model)
    sized_classes = [c.qname for c in model.classes.values() if "__len__" in c.methods or "__bool__" in c.methods]
    rep.count("classes_with___len__", len(sized_classes))
    if len([c for c in sized_classes if c.startswith(("composeinfo.", "treeinfo."))]) < 2:
        raise AnalysisError("vacuity guard: expected >=2 variant container classes defining __len__")
    if "parent" not in lt:
        raise AnalysisError("R-TRUTHY-OBJ: no attribute holding a sized object was inferred (expected 'parent')")
    n_sites = 0
    n_none = 0
    for f in model.all_functions():
        if f.cls is None:
            continue
        ltypes = model.local_types(f)
        for attr, fam in lt.items():
            for e in none_tests(f.node):
                if isinstance(e, ast.Attribute) and e.attr == attr:
                    rc = model.receiver_class(f, e.value, ltypes)
                    if rc is None or rc in fam:
                        n_none += 1
            seen = set()
            for e, ctx, node in truth_tests(f.node):
                if isinstance(e, ast.Attribute) and e.attr == attr and id(e) not in seen:
                    seen.add(id(e))
                    rc = model.receiver_class(f, e.value, ltypes)
                    if rc is None or rc not in fam:
                        continue
                    n_sites += 1
                    rep.ob("R-TRUTHY-OBJ", "%s:%s" % (f.qname, ast.unparse(e)), False, site=f.module.site(e),
                           msg="truthiness test on %s: the value is an instance of a class defining __len__ (%s), so an "
                               "object without children is falsy; elsewhere the attribute is tested with 'is None'"
                               % (ast.unparse(e), ", ".join(sorted(set(c.qname for c in fam if c.lookup("__len__"))))))
    rep.ob("R-TRUTHY-OBJ", "is-None-tests-on-sized-attributes", n_none >= 2, trivial=True,
           msg="" if n_none >= 2 else "expected at least two 'is None' tests on .parent (rule anchor)",
           facts={"is_none_tests": n_none, "truthiness_tests": n_sites, "attributes": sorted(lt)})
    # embedded positive example keeps the rule armed when the expected count is zero
    sample = ast.parse("class K:\n    def m(self):\n        if not self.parent:\n            return 1\n        return self.parent and 2\n")
    fn = sample.body[0].body[0]
    hits = [e for e, ctx, node in truth_tests(fn) if isinstance(e, ast.Attribute) and e.attr == "parent"]
    rep.ob("R-TRUTHY-OBJ", "embedded-positive-example", len(hits) == 2, trivial=True,
           msg="" if len(hits) == 2 else "self-test of the truthiness matcher failed")


# ---------------------------------------------------------------------------------------------------------
def r_getvar(model, rep):
    f = model.own_method("composeinfo.VariantBase", "get_variants")
    cx = facts.fctx(model, f)
    params = cx.params[1:]
    if not {"arch", "types", "recursive"} <= set(params):
        raise AnalysisError("R-GETVAR: get_variants signature changed: %s" % params)
    S_ = ("param", cx.selfname)

    def child_term(t, loops):
        """t denotes the child drawn by the innermost loop: the loop element itself, or self.variants[<element>]"""
        if not loops:
            return False
        el = ("elem", loops[-1][1], loops[-1][0])
        return t == el or t == ("sub", ("attr", S_, "variants"), el)
    appends = [ev for ev in cx.events if ev.kind == "call" and ev.value[1][0] == "attr" and ev.value[1][2] == "append"
               and ev.loops and ev.value[2] and child_term(ev.value[2][0], ev.loops)]
    if len(appends) != 1:
        raise AnalysisError("R-GETVAR: expected exactly one append of the loop's child variant, found %d" % len(appends))
    ap = appends[0]
    elem = ap.value[2][0]
    result_local = ap.value[1][1]
    # (i) both filters dominate the append
    neg = [g[0] for g in ap.guards if g[1] is False]
    pos = [g for g in ap.guards if g[1] is True]

    def has_type_filter(t):
        return T.contains(t, lambda x: x[0] == "cmp" and x[1] == ("not in",) and x[2][0] == ("attr", elem, "type")
                          and T.contains(x[2][1], lambda y: y == ("param", "types")))

    def has_arch_filter(t):
        def ok(x):
            if not (x[0] == "cmp" and x[1] == ("not in",) and x[2][0] == ("param", "arch")):
                return False
            r = x[2][1]
            # elem.arches.union(["src"])  /  elem.arches | {"src"}
            mentions = T.contains(r, lambda y: y == ("attr", elem, "arches"))
            src = T.contains(r, lambda y: y == ("const", "src"))
            return mentions and src
        return T.contains(t, ok)
    tf = any(has_type_filter(t) for t in neg)
    af = any(has_arch_filter(t) for t in neg)
    # another spelling of the two filters (one positive condition, a filtered generator ...): decided on the truth table of
    # the conditions the append is under, over "types given", "type in types", "arch given", "arch admitted"
    def decider(a, b, c, d_):
        def decide(t):
            if t == ("param", "types"):
                return a
            if t == ("param", "arch"):
                return c
            if t[0] == "cmp" and t[1] == ("in",) and t[2][0] == ("attr", elem, "type") and T.contains(t[2][1], lambda y: y == ("param", "types")):
                return b
            if t[0] == "cmp" and t[1] == ("in",) and t[2][0] == ("param", "arch") and T.contains(t[2][1], lambda y: y == ("attr", elem, "arches")) \
                    and T.contains(t[2][1], lambda y: y == ("const", "src")):
                return d_
            return None
        return decide
    table_ok = True
    for a in (False, True):
        for b in (False, True):
            for c in (False, True):
                for d_ in (False, True):
                    dec = decider(a, b, c, d_)
                    vals = [T.truth(g[0], dec) for g in ap.guards if g[0][0] != "exc"]
                    if any(v is None for v in vals):
                        table_ok = False
                        continue
                    got = all(v is g[1] for v, g in zip(vals, [g for g in ap.guards if g[0][0] != "exc"]))
                    table_ok = table_ok and got == ((not a or b) and (not c or d_))
    if table_ok:
        tf = af = True
        pos = []
        neg = []
    # a variant is listed exactly when it passes both filters: nothing else decides (a skip condition widened by another test
    # drops variants the caller asked for)
    rep.ob("R-GETVAR", "get_variants:filters-exact", table_ok, site=cx.site(ap.lineno),
           msg="" if table_ok else "the conditions under which a variant is listed are not exactly 'no types given or its type is among "
                                   "them' and 'no arch given or the arch is among its arches + src': %s" % [
                                       ("" if g[1] else "not ") + T.show(g[0])[:160] for g in ap.guards if g[0][0] != "exc"])
    rep.ob("R-GETVAR", "get_variants:type-filter-before-append", tf and not pos, site=cx.site(ap.lineno),
           msg="" if tf and not pos else "the append is not dominated by the type filter (variant.type not in types -> skip)"
           if not tf else "append is additionally conditional: %s" % [T.show(g[0]) for g in pos])
    rep.ob("R-GETVAR", "get_variants:arch-filter-before-append", af, site=cx.site(ap.lineno),
           msg="" if af else "the append is not dominated by the arch filter admitting 'src' "
                             "(arch not in variant.arches + ['src'] -> skip)")
    # filters must only skip when a filter was given:  `types and ...`, `arch and ...`
    def conjunctions(t):
        """the filter conjunctions inside a skip condition: the condition itself or the operands of a top-level 'or'"""
        if t[0] == "boolop" and t[1] == "or":
            out = []
            for x in t[2]:
                out.extend(conjunctions(x))
            return out
        return [t]
    for t0 in neg:
        for t in conjunctions(t0):
            if has_type_filter(t) or has_arch_filter(t):
                if not (t[0] == "boolop" and t[1] == "and" and len(t[2]) == 2 and t[2][0][0] in ("param", "phi", "boolop")):
                    rep.ob("R-GETVAR", "get_variants:filter-shape", False, site=cx.site(ap.lineno),
                           msg="filter %s is not of the form '<given> and <mismatch>'" % T.show(t))
    # (ii) recursion forwards every filter parameter
    rec = [ev for ev in cx.events if ev.kind == "call" and ev.value[1] == ("attr", elem, "get_variants")]
    if not rec:
        rep.ob("R-GETVAR", "get_variants:recursion", False, site=cx.site(f.node), msg="no recursive call on the loop element")
    for ev in rec:
        kws = dict(ev.value[3])
        pos_args = list(ev.value[2])
        for i, p in enumerate(("arch", "types", "recursive")):
            val = kws.get(p)
            if val is None and i < len(pos_args):
                val = pos_args[i]
            if p == "recursive":
                ok = val == ("const", True) or val == ("param", "recursive")
                why = "recursive call must pass recursive=True"
            elif p == "arch":
                ok = val == ("param", "arch")
                why = "recursive call drops the arch filter (must pass arch=arch)"
            else:
                ok = val is not None and T.contains(val, lambda x: x[0] in ("param", "phi", "boolop") and T.contains(x, lambda y: y == ("param", "types")))
                why = "recursive call drops the types filter"
                if ok:
                    # "self" must be removed for the children - and everything else kept: a filter `x != "self"` over types
                    def drops_self(x):
                        if x[0] != "comp" or len(x[3]) != 1 or len(x[3][0][2]) != 1:
                            return False
                        var_ = ("bound", x[3][0][0][1])
                        c_, pol_ = facts.canon_guard_pair((x[3][0][2][0], True))
                        return x[2] == var_ and not pol_ and c_[0] == "cmp" and c_[1] == ("==",) and set(c_[2]) == {var_, ("const", "self")}
                    ok = T.contains(val, drops_self) or (T.contains(val, lambda x: x == ("const", "self")) and not T.contains(val, lambda x: x[0] == "comp"))
                    why = "recursive call must pass on every requested type except the pseudo-type 'self'"
            rep.ob("R-GETVAR", "get_variants:recursion-forwards-%s" % p, ok, site=cx.site(ev.lineno), msg="" if ok else why)
        gpos = [g for g in T.guard_tests(ev) if not (g[0] == ("param", "recursive") and g[1])]
        extra = [g for g in gpos if g not in ap.guards]
        rep.ob("R-GETVAR", "get_variants:recursion-guard", not extra, site=cx.site(ev.lineno),
               msg="" if not extra else "recursion is additionally conditional: %s" % [T.show(g[0]) for g in extra])
        # result of the recursive call is merged into the result
        merged = [e2 for e2 in cx.events if e2.kind == "call" and e2.value[1][0] == "attr" and e2.value[1][2] == "extend"
                  and e2.value[1][1] == result_local and e2.value[2] and e2.value[2][0] == ev.value]
        rep.ob("R-GETVAR", "get_variants:recursion-merged", bool(merged), site=cx.site(ev.lineno),
               msg="" if merged else "the recursive result is not added to the result list")
    # loop covers every child
    it = ap.loops[-1][1]
    covers = (T.contains(it, lambda x: x == ("attr", ("param", cx.selfname), "variants")) or it == S_ or
              (it[0] == "call" and it[1] == ("global", "sorted") and it[2] == (S_,))) and not T.contains(it, lambda x: x[0] == "sub")
    rep.ob("R-GETVAR", "get_variants:loop-covers-all-children", covers, site=cx.site(ap.lineno),
           msg="" if covers else "loop does not iterate over all of self.variants")
    # (iii) sorted by uid on every exit
    sorts = [ev for ev in cx.events if ev.kind == "call" and ev.value[1] == ("attr", result_local, "sort")
             and not ev.loops and not T.guard_tests(ev)]
    rets = [ev for ev in cx.events if ev.kind == "return"]
    muts = [ev for ev in cx.events if ev.kind == "call" and ev.value[1][0] == "attr" and ev.value[1][1] == result_local
            and ev.value[1][2] in ("append", "extend", "insert")]
    KEY = ("keyfn", "attr", "uid")
    by_sorted = lambda v: v[0] == "call" and v[1] == ("global", "sorted") and v[2] == (result_local,) \
        and dict(v[3]).get("key") == KEY and dict(v[3]).get("reverse") in (None, ("const", False))
    ok = bool(rets)
    msg = ""
    if rets and all(by_sorted(r.value) for r in rets):
        pass            # return sorted(result, key=uid) on every exit
    elif not sorts:
        ok, msg = False, "result list is never sorted unconditionally"
    else:
        s = sorts[-1]
        key = dict(s.value[3]).get("key")
        if key != KEY:
            ok, msg = False, "result is not sorted by uid (key=%s)" % (T.show(key) if key else None)
        if dict(s.value[3]).get("reverse") not in (None, ("const", False)):
            ok, msg = False, "result is sorted in reverse"
        for r in rets:
            if r.seq < s.seq:
                ok, msg = False, "return at line %s precedes the sort" % r.lineno
            if r.value != result_local:
                ok, msg = False, "return at line %s does not return the sorted list" % r.lineno
        for mu in muts:
            if mu.seq > s.seq:
                ok, msg = False, "result list is modified after the sort (line %s)" % mu.lineno
    rep.ob("R-GETVAR", "get_variants:sorted-by-uid-on-every-exit", ok, site=cx.site(f.node), msg=msg)
    # "self" handling
    selfapp = [ev for ev in cx.events if ev.kind == "call" and ev.value[1] == ("attr", result_local, "append")
               and ev.value[2] and cx.is_self(ev.value[2][0])]
    ok = len(selfapp) == 1 and any(T.contains(g[0], lambda x: x == ("const", "self")) and g[1] for g in selfapp[0].guards)
    rep.ob("R-GETVAR", "get_variants:self-pseudo-type", ok, site=cx.site(f.node),
           msg="" if ok else "'self' pseudo-type handling changed")
    # ComposeInfo.get_variants delegates unchanged
    d = model.own_method("composeinfo.ComposeInfo", "get_variants")
    dcx = facts.fctx(model, d)
    calls = dcx.calls("get_variants")
    ok = len(calls) == 1 and calls[0].value[1][1] == ("attr", ("param", dcx.selfname), "variants") and \
        any(r.kind == "return" and r.value == calls[0].value for r in dcx.events)
    if ok:
        a = calls[0].value
        ok = (any(x[0] == "starred" for x in a[2]) and any(k == "**" for k, v in a[3])) or \
            set(k for k, v in a[3]) >= {"arch", "types", "recursive"}
    rep.ob("R-GETVAR", "ComposeInfo.get_variants:delegates", ok, site=dcx.site(d.node),
           msg="" if ok else "ComposeInfo.get_variants does not forward its arguments unchanged")
    rep.floor("R-GETVAR", 10)


# ---------------------------------------------------------------------------------------------------------
def r_forest_validators(model, rep):
    """VariantBase.add: validate, ancestor check, duplicate-id idiom; Variant.serialize refuses an emitted UID"""
    f = model.own_method("composeinfo.VariantBase", "add")
    cx = facts.fctx(model, f)
    vparam = cx.params[1]
    var = ("param", vparam)
    # child.validate() unconditionally
    v = [ev for ev in cx.events if ev.kind == "call" and ev.value[1] == ("attr", var, "validate") and not T.guard_tests(ev)]
    rep.ob("R-FOREST-VALIDATORS", "VariantBase.add:validates-child", bool(v), site=cx.site(f.node),
           msg="" if v else "add() does not unconditionally validate the variant being added")
    # parent pointer is set (for real variants) before validation, so that uid/arch alignment is checked against it
    ps = [ev for ev in cx.events if ev.kind == "store" and ev.target == ("attr", var, "parent") and cx.is_self(ev.value)]
    ok = bool(ps) and bool(v) and ps[0].seq < v[0].seq
    if ok:
        # ... for real variants of *both* formats (treeinfo.Variant derives from VariantBase, not from composeinfo.Variant) and
        # not for the top-level containers: whatever the "is this a Variant?" test probes must say so for each of them
        variants_ = [model.cls("composeinfo.Variant"), model.cls("treeinfo.Variant")]
        containers_ = [model.cls("composeinfo.Variants"), model.cls("treeinfo.Variants")]

        def probe(x, c):
            """the truth of one probe for receivers of class c; None if x is no probe"""
            if x[0] == "call" and x[1] == ("global", "hasattr") and len(x[2]) == 2 and cx.is_self(x[2][0]) and x[2][1][0] == "const":
                return x[2][1][1] in c.init_attrs(model) or c.lookup(x[2][1][1]) is not None
            if x[0] == "call" and x[1] == ("global", "isinstance") and len(x[2]) == 2 and cx.is_self(x[2][0]) and x[2][1][0] == "global":
                r_ = model.resolve_name(f.module, x[2][1][1])
                if r_ and r_[0] == "class":
                    return r_[1] in c.mro()
                return None
            return None
        for g in ps[0].guards:
            for c in variants_ + containers_:
                v_ = T.truth(g[0], lambda x, c=c: probe(x, c))
                if v_ is None:
                    continue
                ok = ok and ((v_ is g[1]) == (c in variants_))
    rep.ob("R-FOREST-VALIDATORS", "VariantBase.add:parent-set-before-validate", ok, site=cx.site(f.node),
           msg="" if ok else "the child's parent pointer must be set before it is validated (uid / arch alignment)")
    # a refusal is a refusal: whatever the handler that restores the parent pointer does, it raises again
    handlers = [ev for ev in cx.events if ev.kind == "store" and ev.target == ("attr", var, "parent") and any(g[0][0] == "exc" for g in ev.guards)]
    if handlers:
        rer = [ev for ev in cx.events if ev.kind == "raise" and ev.seq > handlers[-1].seq and any(g[0][0] == "exc" for g in ev.guards)
               and not [g for g in ev.guards if g[0][0] != "exc" and g not in handlers[-1].guards]]
        rep.ob("R-FOREST-VALIDATORS", "VariantBase.add:handler-reraises", bool(rer), site=cx.site(handlers[-1].lineno),
               msg="" if rer else "the handler that detaches a refused variant swallows the exception: add() returns as if the variant "
                                  "had been attached")
    # ancestor check
    anc = [ev for ev in cx.events if ev.kind == "raise" and any(
        g[1] and g[0][0] == "cmp" and g[0][1] == ("in",) and g[0][2][0] == var
        and T.contains(g[0][2][1], lambda x: x[0] == "call" and x[1] == ("attr", ("param", cx.selfname), "_get_all_parents"))
        for g in [facts.canon_guard_pair(g_) for g_ in ev.guards])]
    rep.ob("R-FOREST-VALIDATORS", "VariantBase.add:ancestor-check", bool(anc), site=cx.site(f.node),
           msg="" if anc else "no refusal when the variant is one of the receiver's ancestors (cycle check)")
    if anc:
        extra = [g for g in [facts.canon_guard_pair(g_) for g_ in T.guard_tests(anc[0])] if not (g[0][0] == "cmp" and g[0][1] == ("in",))
                 and T.show(g[0]) not in ("hasattr(self, 'parent')",)]
        rep.ob("R-FOREST-VALIDATORS", "VariantBase.add:ancestor-check-guard", not extra, site=cx.site(anc[0].lineno),
               msg="" if not extra else "ancestor check is additionally conditional on %s" % [T.show(g[0]) for g in extra])
    # _get_all_parents: self plus, recursively, all parents
    g = model.own_method("composeinfo.VariantBase", "_get_all_parents")
    gcx = facts.fctx(model, g)
    rec = [ev for ev in gcx.events if ev.kind == "call" and ev.value[1] == ("attr", ("attr", ("param", gcx.selfname), "parent"), "_get_all_parents")]
    rets = [ev for ev in gcx.events if ev.kind == "return"]
    ok = bool(rec) and bool(rets) and all(T.contains(r.value, lambda x: x[0] == "list" and len(x[1]) == 1 and gcx.is_self(x[1][0])) for r in rets)
    rep.ob("R-FOREST-VALIDATORS", "VariantBase._get_all_parents", ok, site=gcx.site(g.node),
           msg="" if ok else "_get_all_parents must return [self] plus the parents' ancestors")
    # duplicate id: insert-if-absent idiom
    sd = [ev for ev in cx.events if ev.kind == "call" and ev.value[1] == ("attr", ("attr", ("param", cx.selfname), "variants"), "setdefault")]
    dup = False
    for ev in sd:
        if len(ev.value[2]) == 2 and ev.value[2][1] == var:
            for r in cx.events:
                if r.kind == "raise" and any(not gd[1] and gd[0] == ("cmp", ("==",), (ev.value, var)) for gd in r.guards):
                    dup = True
    rep.ob("R-FOREST-VALIDATORS", "VariantBase.add:duplicate-id-refused", dup, site=cx.site(f.node),
           msg="" if dup else "insertion is not the insert-if-absent idiom (setdefault + raise when another variant holds the id)")
    # ... and that refusal compares *objects*: 'another variant holds the id' means a distinct object, so the variant classes
    # must keep identity-based comparison
    for q_ in ("composeinfo.Variant", "treeinfo.Variant"):
        vc = model.cls(q_)
        bad = [n for n in ("__eq__", "__ne__", "__hash__", "__cmp__") if vc.lookup(n) is not None]
        rep.ob("R-FOREST-VALIDATORS", "%s:identity-comparison" % q_, not bad, site=vc.module.site(vc.node),
               msg="" if not bad else "%s defines %s: the duplicate-id refusal of add() (new != existing) then compares values, and a distinct "
                                      "variant with an equal key is accepted in place of the registered one" % (q_, bad))
    # Variant.serialize refuses an already emitted UID
    s = model.own_method("composeinfo.Variant", "serialize")
    scx = facts.fctx(model, s)
    out = ("param", scx.params[1])
    ok = False
    for ev in scx.events:
        if ev.kind == "call" and ev.value[1] == ("attr", out, "setdefault") and len(ev.value[2]) == 2 \
                and ev.value[2][0] == ("attr", ("param", scx.selfname), "uid"):
            d = ev.value[2][1]
            for r in scx.events:
                if r.kind == "raise" and any(not gd[1] and gd[0] == ("cmp", ("==",), (ev.value, d)) for gd in r.guards):
                    ok = True
    rep.ob("R-FOREST-VALIDATORS", "Variant.serialize:duplicate-uid-refused", ok, site=scx.site(s.node),
           msg="" if ok else "Variant.serialize no longer refuses a UID that was already emitted")
    # the uid/parent-arch/id validators themselves: rows of the shared obligation table
    from .validation import r_val_strength_rows
    r_val_strength_rows(model, rep, [r for r in VAL_OBLIGATIONS if r[0] == "composeinfo.Variant"], rule_id="R-FOREST-VALIDATORS")
    # ComposeInfo[...] is the forest's lookup
    ci = model.own_method("composeinfo.ComposeInfo", "__getitem__")
    ccx = facts.fctx(model, ci)
    crets = [ev for ev in ccx.events if ev.kind == "return"]
    ok = len(crets) == 1 and not crets[0].guards and not ccx.ex.falls_through \
        and crets[0].value == ("sub", ("attr", ("param", ccx.selfname), "variants"), ("param", ccx.params[1]))
    rep.ob("R-FOREST-VALIDATORS", "ComposeInfo.__getitem__", ok, site=ccx.site(ci.node),
           msg="" if ok else "ComposeInfo.__getitem__ must hand out self.variants[name]")
    # __getitem__: id lookup, uid scan, dashed-path descent
    gi = model.own_method("composeinfo.VariantBase", "__getitem__")
    gcx = facts.fctx(model, gi)
    name = ("param", gcx.params[1])
    rets = [ev for ev in gcx.events if ev.kind == "return"]
    # (whatever the spelling: returns of the method itself, or of a locating helper whose result is then subscripted)
    direct = any(a == ("sub", ("attr", ("param", gcx.selfname), "variants"), name) for r in rets for a in T.alts(r.value))
    found = rets + [ev for ev in gcx.events if ev.kind == "bind" and ev.extra == "inlined-return"]
    scan = any(T.contains(r.value, lambda x: x[0] == "elem" and x[1] == ("attr", ("param", gcx.selfname), "variants"))
               and any(g[1] and g[0][0] == "cmp" and g[0][1] == ("==",) and
                       T.contains(g[0], lambda x: x[0] == "attr" and x[2] == "uid") and T.contains(g[0], lambda x: x == name)
                       for g in r.guards) for r in found)
    rep.ob("R-FOREST-VALIDATORS", "VariantBase.__getitem__", direct and scan, site=gcx.site(gi.node),
           msg="" if direct and scan else "lookup by id (self.variants[name]) or the UID scan is missing")


def r_uid_format(model, rep):
    """the child-UID formula '%s-%s' % (parent uid, id) agrees in validator, reader, top-level detection"""
    sites = []

    def formats(cx, want_a, want_b, label):
        for ev in cx.events:
            for t in [ev.value, ev.target] + [g[0] for g in ev.guards]:
                if t is None:
                    continue
                for x in T.walk(t):
                    if x[0] == "fmt" and len(x[1]) == 3 and x[1][1][0] == "const":
                        a, b = x[1][0], x[1][2]
                        if want_a(a) and want_b(b):
                            sites.append((label, "%%s%s%%s" % x[1][1][1], cx.site(ev.lineno)))
                            return
    v = facts.fctx(model, model.own_method("composeinfo.Variant", "_validate_uid"))
    formats(v, lambda a: T.attr_chain(a) == "self.parent.uid", lambda b: T.attr_chain(b) == "self.id", "Variant._validate_uid")
    d = facts.fctx(model, model.own_method("composeinfo.Variant", "deserialize"))
    formats(d, lambda a: T.attr_chain(a) == "self.uid", lambda b: b[0] in ("bound", "elem"), "Variant.deserialize(children)")
    t = facts.fctx(model, model.own_method("composeinfo.Variants", "deserialize"))
    formats(t, lambda a: a[0] == "sub" and a[2] == ("const", "uid"), lambda b: b[0] in ("elem", "bound"), "Variants.deserialize(top-level detection)")
    labels = [s[0] for s in sites]
    for want in ("Variant._validate_uid", "Variant.deserialize(children)", "Variants.deserialize(top-level detection)"):
        if want not in labels:
            rep.ob("R-UID-FORMAT", want, False, msg="child UID formula not found (expected '%s-%s' % (parent uid, child id))")
    fmts = set(s[1] for s in sites)
    for lab, fmt, site in sites:
        rep.ob("R-UID-FORMAT", lab, fmt == "%s-%s" and len(fmts) == 1, site=site,
               msg="" if fmt == "%s-%s" and len(fmts) == 1 else "child UID formula %r disagrees with the other sites %s" % (fmt, sorted(fmts)))
    return sites


@register("C11")
def check_c11(model, rep, tier):
    from .validation import _install_validate_summary
    rep.explanation = (
        "Static rules over composeinfo's variant forest code. Decided: VariantBase.add is failure-atomic (path walker: "
        "no raising event after an uncompensated store to receiver/argument state; insert-if-absent idiom recognised); "
        "add() sets the parent pointer, validates the child, refuses ancestors and duplicate ids; the UID-alignment, "
        "parent-arch and id validators exist with the documented condition and are not disabled by object truthiness "
        "(VariantBase defines __len__, so 'if self.parent' is a length test); the child-UID formula agrees in validator, "
        "reader and top-level detection; get_variants filters before appending, forwards every filter on recursion, "
        "iterates all children and sorts by uid on every exit. Not decided: lookup results for arbitrary forests and "
        "arbitrary interleavings beyond the per-call inductive step.")
    rep.not_decided = ["value-level lookup results", "histories beyond the per-call inductive step"]
    rep.assumptions = ["builtins (sorted, list, set ops) do not raise ValueError/TypeError on the values involved"]
    _install_validate_summary(model)
    builders = builder_refs(model)
    check_atomic(model, rep, "R-ADD-ATOMIC", model.own_method("composeinfo.VariantBase", "add"), builders)
    check_atomic(model, rep, "R-ADD-ATOMIC", model.own_method("composeinfo.Variant", "add"), builders)
    r_truthy_obj(model, rep)
    r_getvar(model, rep)
    r_forest_validators(model, rep)
    r_uid_format(model, rep)
    from .validation import r_validate_all
    r_validate_all(model, rep)
