"""
R-LEGACY-FACTS (C05): the facts each legacy reader establishes -- which attribute receives which value under which conditions,
which refusals it makes -- compared with the facts confirmed on the pinned tree (frozen in legacy_facts.json, regenerated only by
tools/freeze_legacy_facts.py after the readers were re-read by a person).

The comparison is on *canonical def-use facts*, not on source text: locals are replaced by what they hold, helpers the rules do not
know are inlined, string building / loops over tables / conditional spellings are canonical (terms.canon), conditions are sets of
canonical atoms with the negations of earlier early exits removed.  What is compared per function is the set of

    (attribute or call on self, one alternative of the value, set of condition atoms)

so statement order, local names, extracted helpers, merged if/else versus conditional expressions do not matter.  The documented
mapping of the legacy formats exists only as this code (the format documentation describes the current format), which is why the
reference is the pinned tree itself: the instances confirmed on today's tree are the reference for any later change.
"""
from __future__ import annotations

import json
import os

from .. import facts
from .. import terms as T
from ..core import AnalysisError

HERE = os.path.dirname(os.path.abspath(__file__))
FROZEN = os.path.join(HERE, "legacy_facts.json")

# the legacy readers whose facts are pinned (class, method)
LEGACY_READERS = [
    # (straight-line readers only: for the pre-productmd family/version/variant guessing of Release/Tree/Variants/Variant/
    # Media.deserialize_0_0 the fact sets proved too sensitive to equivalent reformulations of their if/elif ladders - 13 false
    # alarms on the 196 independent behaviour-preserving patches - and are left to R-LEGACY-MAP's source tables)
    ("treeinfo.Release", "deserialize_0_3"),
    ("treeinfo.Variant", "deserialize_0_3"),
    ("treeinfo.VariantPaths", "deserialize_0_0"), ("treeinfo.VariantPaths", "deserialize_0_3"),
    ("composeinfo.Compose", "deserialize_0_3"), ("composeinfo.Release", "deserialize_0_3"),
    ("rpms.Rpms", "deserialize_0_3"),
]


def _plain(t):
    """locals replaced by what they were created as; gates flattened"""
    def fn(x):
        if x[0] == "local" and len(x) > 3 and isinstance(x[3], tuple) and x[3]:
            return T.subst(x[3], fn)
        if x[0] == "elem" and x[2] != "*":
            return ("elem", x[1], "*")          # (loop numbering is an artefact of statement order)
        return None
    return T.degate(T.subst(t, fn))


def _choosers(t):
    """the atoms of the tests that choose between the alternatives of a merged value (without polarity: which test picks which
    alternative is in the alternatives' own conditions when they are stored; here the point is *what* is tested)"""
    out = set()
    if t is None:
        return out
    for x in T.walk(t):
        if x[0] in ("gate", "ifexp"):
            for a in facts.flat_atoms([(x[1], True)]):
                c, _ = facts.canon_guard((_plain(a[0]), True))
                out.add("?" + T.show(c))
    return out


def _conds(cx, ev):
    atoms = set(_choosers(ev.raw))
    for g in ev.raw_guards:
        atoms |= _choosers(g[0])
    for l in ev.loops:
        atoms |= set("in " + T.show(_plain(l[1]))[:200] for _ in (0,))
    # (all conditions in force, the negations of earlier early exits included: ``if not x: return`` before a statement and
    # ``if x:`` around it say the same)
    for a in facts.flat_atoms(g for g in ev.guards if g[0][0] != "exc"):
        t, pol = facts.canon_guard((_plain(a[0]), a[1]))
        atoms.add("%s:%s" % (T.show(t), "T" if pol else "F"))
    if any(g[0][0] == "exc" for g in ev.guards):
        atoms.add("<in handler>")
    return tuple(sorted(atoms))


def facts_of(model, qname, method):
    f = model.own_method(qname, method)
    cx = facts.fctx(model, f)
    S = ("param", cx.selfname)
    out = set()
    for ev in cx.events:
        if ev.kind == "store":
            root = T.root_of(ev.target)
            if root != S:
                continue
            for a in T.alts(_plain(ev.value)):
                if a[0] in ("undef", "carried"):
                    continue
                out.add(("store", T.show(_plain(ev.target)), T.show(a), _conds(cx, ev), bool(ev.loops)))
        elif ev.kind == "call" and ev.value[0] == "call":
            fn_ = ev.value[1]
            if fn_ == ("global", "setattr") and ev.value[2] and ev.value[2][0] == S:
                out.add(("setattr", T.show(_plain(ev.value[2][1])), T.show(_plain(ev.value[2][2])) if len(ev.value[2]) > 2 else "", _conds(cx, ev),
                         bool(ev.loops)))
            elif fn_[0] == "attr" and T.root_of(fn_[1]) == S and fn_[2] not in ("validate",) and not fn_[2].startswith("_assert"):
                # a call on self or on something self holds: self.add(...), self.platforms.add(...), self.paths.deserialize(...)
                for a in T.alts(_plain(ev.value)):
                    out.add(("call", T.show(a), "", _conds(cx, ev), bool(ev.loops)))
        elif ev.kind == "raise":
            cls = ev.value[1][1] if ev.value[0] == "call" and ev.value[1][0] == "global" else T.show(ev.value)[:30]
            out.add(("raise", cls, "", _conds(cx, ev), bool(ev.loops)))
        elif ev.kind == "return" and ev.value != ("const", None):
            for a in T.alts(_plain(ev.value)):
                out.add(("return", "", T.show(a), _conds(cx, ev), bool(ev.loops)))
    return sorted(out)


def current(model):
    return dict(("%s.%s" % (q, m), [list(x[:3]) + [list(x[3]), x[4]] for x in facts_of(model, q, m)]) for q, m in LEGACY_READERS)


def r_legacy_facts(model, rep):
    if not os.path.exists(FROZEN):
        raise AnalysisError("legacy_facts.json is missing")
    with open(FROZEN) as fh:
        frozen = json.load(fh)
    n = 0
    for q, m in LEGACY_READERS:
        key = "%s.%s" % (q, m)
        want = set(json.dumps(x) for x in frozen.get(key, []))
        got_l = [list(x[:3]) + [list(x[3]), x[4]] for x in facts_of(model, q, m)]
        got = set(json.dumps(x) for x in got_l)
        n += len(want)
        lost = sorted(want - got)
        new = sorted(got - want)
        ok = not lost and not new

        def brief(js):
            k, a, v, c, lp = json.loads(js)
            return "%s %s%s%s" % (k, a, (" <- " + v) if v else "", (" when " + " and ".join(c)) if c else "")
        msg = ""
        if not ok:
            msg = "the facts this legacy reader establishes differ from the confirmed ones"
            if lost:
                msg += "; no longer: " + " | ".join(brief(x)[:200] for x in lost[:3])
            if new:
                msg += "; new: " + " | ".join(brief(x)[:200] for x in new[:3])
        f = model.own_method(q, m)
        rep.ob("R-LEGACY-FACTS", key, ok, site="%s:%s" % (f.module.rel(), f.node.lineno), msg=msg,
               facts={"facts": len(got)})
    if n < 40:
        raise AnalysisError("vacuity guard: R-LEGACY-FACTS compared %d frozen facts (floor 40)" % n)


def r_fix_path_conversion(model, rep, classes=("treeinfo.Images", "treeinfo.Stage2", "treeinfo.Checksums")):
    """what _fix_path makes of a path of a pre-productmd file, case by case (scenario evaluation, whatever the spelling: nested
    ifs, guard clauses, a shared helper): below '/os/' -> the part after it; any other absolute path -> without the leading
    slashes; a relative path -> itself"""
    for q in classes:
        f = model.own_method(q, "_fix_path")
        cx = facts.fctx(model, f)
        path = ("param", cx.params[1])
        absolute = ("call", ("attr", path, "startswith"), (("const", "/"),), ())
        has_os = ("cmp", ("in",), (("const", "/os/"), path))
        below = ("sub", path, ("slice", ("binop", "+", ("call", ("attr", path, "find"), (("const", "/os/"),), ()), ("const", 4)), None, None))
        strip = ("call", ("attr", path, "lstrip"), (("const", "/"),), ())
        ok, why = True, ""
        for ab in (False, True):
            for os_ in (False, True):
                sc = facts.at_version(cx, (0, 0), atoms={absolute: ab, has_os: os_})
                vals = [T.degate(v) for v in sc.returns()]
                want = path if not ab else (below if os_ else strip)
                if vals != [want]:
                    ok = False
                    why = "a pre-productmd path that is %s%s becomes %s, confirmed: %s" % (
                        "absolute" if ab else "relative", (" and %s '/os/'" % ("contains" if os_ else "does not contain")),
                        [T.show(v)[:60] for v in vals], T.show(want))
        rep.ob("R-FIX-PATH", "%s._fix_path:legacy-conversion" % q, ok, site=cx.site(f.node), msg="" if ok else why)


# ---------------------------------------------------------------------------------------------------------
# R-LEGACY-VALUES: for the pre-productmd readers whose full fact sets are too spelling-sensitive (see LEGACY_READERS), the
# *condition-free* part is still pinned as a lower bound: every (attribute <- constant) assignment and every call on a part of
# self that the confirmed reader makes is still made somewhere in the reader, under whatever condition.  A table-driven or
# reordered ladder keeps that set; a dropped branch (``self.short = "RHEL"`` gone, ``self.platforms.add(self.arch)`` gone) does not.
# ---------------------------------------------------------------------------------------------------------
FROZEN_VALUES = os.path.join(HERE, "legacy_values.json")
# (Release.deserialize_0_0's family ladder was tried as well: five of the 258 neutral patches rewrite it over a table whose rows
# supply name and short name through variables, and the constant assignments are gone from the text - dropped again)
LEGACY_VALUE_READERS = [("treeinfo.Tree", "deserialize_0_0")]


def coarse_of(model, qname, method):
    out = set()
    for k, a, v, c, lp in facts_of(model, qname, method):
        if k == "store" and (v.startswith("'") or v in ("None", "True", "False") or v.lstrip("-").isdigit()):
            out.add("%s <- %s" % (a, v))
        elif k == "call" and "(" in a:
            # only in-place additions to a container of self with a plain argument (self.platforms.add(self.arch)): tests such
            # as name.startswith(..) and arguments computed in loops are spelled too many ways
            import re as _re
            if _re.fullmatch(r"self(\.\w+)+\.(add|append|update|extend)\((self(\.\w+)+|'[^']*')\)", a):
                out.add("call %s" % a)
    return sorted(out)


def current_values(model):
    return dict(("%s.%s" % (q, m), coarse_of(model, q, m)) for q, m in LEGACY_VALUE_READERS)


def r_legacy_values(model, rep):
    if not os.path.exists(FROZEN_VALUES):
        raise AnalysisError("legacy_values.json is missing")
    with open(FROZEN_VALUES) as fh:
        frozen = json.load(fh)
    n = 0
    for q, m in LEGACY_VALUE_READERS:
        key = "%s.%s" % (q, m)
        want = set(frozen.get(key, []))
        got = set(coarse_of(model, q, m))
        n += len(want)
        lost = sorted(want - got)
        f = model.own_method(q, m)
        rep.ob("R-LEGACY-VALUES", key, not lost, site="%s:%s" % (f.module.rel(), f.node.lineno),
               msg="" if not lost else "the pre-productmd reader no longer establishes: %s" % "; ".join(lost[:4]),
               facts={"pinned": len(want), "found": len(got)})
    if n < 1:
        raise AnalysisError("vacuity guard: R-LEGACY-VALUES compared %d pinned facts (floor 1)" % n)
