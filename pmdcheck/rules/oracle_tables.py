# -*- coding: utf-8 -*-
"""
Frozen oracle tables, transcribed from doc/*.rst, the docstrings of the public classes and the property
statements (C06/C07 list the documented domain of every validated field).  They are *lower bounds*:
a stronger assertion in the code is silent, a weaker or missing one is reported.

Row of VAL_OBLIGATIONS: (class, field, kind, requirement, allowed guards)
  kind 'type'      requirement = the documented type names; the code may accept a subset
  kind 'value'     requirement = (module, constant, documented minimum): the assertion must use that table and the
                   table must still contain every documented value
  kind 'not_blank' requirement = None
  kind 're'        requirement = reference pattern; every pattern in the code must be language-included in it
  kind 'raise'     requirement = (validator method, shape predicate) -- an explicit ``raise`` whose condition has
                   the named shape (see validation.RAISE_SHAPES)
  kind 'call'      requirement = qualified name of the module-level checker that must be applied to the field
allowed guards: canonical text of conditions under which the assertion may be skipped (documented optionality).
"""

COMPOSE_TYPES_MIN = ("test", "ci", "nightly", "production", "development")
RELEASE_TYPES_MIN = ("fast", "ga", "updates", "updates-testing", "eus", "aus", "els", "tus", "e4s")
CI_VARIANT_TYPES_MIN = ("variant", "optional", "addon", "layered-product")
TI_VARIANT_TYPES_MIN = ("variant", "optional", "addon")
LABEL_NAMES_MIN = ("EA", "DevelPhaseExit", "InternalAlpha", "Alpha", "InternalSnapshot", "Beta", "Snapshot", "RC",
                   "Update", "SecurityFix")
IMAGE_TYPES_MIN = (
    'appx', 'boot', 'cd', 'docker', 'dvd', 'dvd-debuginfo', 'dvd-ostree', 'dvd-ostree-osbuild', 'ec2', 'fex', 'kvm',
    'live', 'live-osbuild', 'liveimg-squashfs', 'netinst', 'ociarchive', 'p2v', 'qcow', 'qcow2', 'raw', 'raw-xz',
    'rescue', 'rhevm-ova', 'tar-gz', 'vagrant-hyperv', 'vagrant-libvirt', 'vagrant-virtualbox',
    'vagrant-vmware-fusion', 'vdi', 'vhd-compressed', 'vmdk', 'vpc', 'vsphere-ova')
IMAGE_FORMATS_MIN = (
    'appx', 'erofs', 'erofs.gz', 'erofs.xz', 'iso', 'liveimg.squashfs', 'ociarchive', 'qcow', 'qcow2', 'raw',
    'raw.xz', 'rhevm.ova', 'squashfs', 'squashfs.gz', 'squashfs.xz', 'tar.gz', 'tar.xz', 'vagrant-hyperv.box',
    'vagrant-libvirt.box', 'vagrant-virtualbox.box', 'vagrant-vmware-fusion.box', 'vdi', 'vhd', 'vhd.gz', 'vhd.xz',
    'vmdk', 'vsphere.ova')

RELEASE_VERSION_REF = r"^([^0-9].*|[0-9]+(\.[0-9]+)*)$"
RELEASE_NAME_REF = r"^[a-z][a-z0-9]*(-[a-z0-9]+)*$"

S = ("str",)
NS = ("NoneType", "str")

VAL_OBLIGATIONS = [
    # -- headers -------------------------------------------------------------------------------------------
    ("common.Header", "version", "type", S, set()),
    ("common.Header", "version", "re", r"^\d+\.\d+$", set()),
    ("treeinfo.Header", "version", "type", S, set()),
    ("treeinfo.Header", "version", "re", r"^\d+\.\d+$", set()),
    # -- composeinfo: compose section -------------------------------------------------------------------------
    ("composeinfo.Compose", "id", "type", S, set()),
    ("composeinfo.Compose", "id", "not_blank", None, set()),
    ("composeinfo.Compose", "id", "re", r".*\d{8}.*", set()),                     # "contains an 8-digit date"
    ("composeinfo.Compose", "date", "type", S, set()),
    ("composeinfo.Compose", "date", "re", r"^\d{8}$", set()),
    ("composeinfo.Compose", "type", "value", ("composeinfo", "COMPOSE_TYPES", COMPOSE_TYPES_MIN), set()),
    ("composeinfo.Compose", "respin", "type", ("int",), set()),
    ("composeinfo.Compose", "label", "type", NS, set()),
    ("composeinfo.Compose", "label", "call", "composeinfo.verify_label", set()),
    ("composeinfo.Compose", "final", "type", ("bool",), {"self.label:T"}),         # final is only stored next to a label
    # -- composeinfo: release / base product --------------------------------------------------------------------
    ("composeinfo.BaseProduct", "name", "type", S, set()),
    ("composeinfo.BaseProduct", "short", "type", S, set()),
    ("composeinfo.BaseProduct", "version", "type", S, set()),
    ("composeinfo.BaseProduct", "version", "re", RELEASE_VERSION_REF, set()),
    ("composeinfo.BaseProduct", "type", "type", S, set()),
    ("composeinfo.BaseProduct", "type", "value", ("common", "RELEASE_TYPES", RELEASE_TYPES_MIN), set()),
    ("composeinfo.Release", "name", "type", S, set()),
    ("composeinfo.Release", "short", "type", S, set()),
    ("composeinfo.Release", "version", "type", S, set()),
    ("composeinfo.Release", "version", "re", RELEASE_VERSION_REF, set()),
    ("composeinfo.Release", "type", "type", S, set()),
    ("composeinfo.Release", "type", "value", ("common", "RELEASE_TYPES", RELEASE_TYPES_MIN), set()),
    ("composeinfo.Release", "is_layered", "type", ("bool",), set()),
    ("composeinfo.Release", "internal", "type", ("bool",), set()),
    # -- composeinfo: variants ---------------------------------------------------------------------------------------
    ("composeinfo.Variant", "id", "type", S, set()),
    ("composeinfo.Variant", "id", "re", r"^[a-zA-Z0-9]+$", set()),
    ("composeinfo.Variant", "name", "type", S, set()),
    ("composeinfo.Variant", "name", "not_blank", None, set()),
    ("composeinfo.Variant", "type", "value", ("composeinfo", "VARIANT_TYPES", CI_VARIANT_TYPES_MIN), set()),
    ("composeinfo.Variant", "arches", "not_blank", None, set()),
    ("composeinfo.Variant", "arches", "raise", ("_validate_parent_arch", "arch_not_in_parent"), {"(self.parent is None):F"}),
    ("composeinfo.Variant", "uid", "raise", ("_validate_uid", "uid_alignment"), set()),
    # -- discinfo -----------------------------------------------------------------------------------------------------
    ("discinfo.DiscInfo", "timestamp", "not_blank", None, set()),
    ("discinfo.DiscInfo", "timestamp", "type", ("float",), set()),
    ("discinfo.DiscInfo", "description", "not_blank", None, set()),
    ("discinfo.DiscInfo", "description", "type", S, set()),
    ("discinfo.DiscInfo", "arch", "not_blank", None, set()),
    ("discinfo.DiscInfo", "arch", "type", S, set()),
    ("discinfo.DiscInfo", "disc_numbers", "not_blank", None, set()),
    ("discinfo.DiscInfo", "disc_numbers", "type", ("list",), set()),
    # -- images ----------------------------------------------------------------------------------------------------------
    ("images.Image", "path", "type", S, set()),
    ("images.Image", "path", "not_blank", None, set()),
    ("images.Image", "mtime", "type", ("int",), set()),
    ("images.Image", "size", "type", ("int",), set()),
    ("images.Image", "size", "not_blank", None, set()),
    ("images.Image", "volume_id", "type", NS, set()),
    ("images.Image", "volume_id", "not_blank", None, {"(self.volume_id is None):F"}),
    ("images.Image", "type", "type", S, set()),
    ("images.Image", "type", "value", ("images", "SUPPORTED_IMAGE_TYPES", IMAGE_TYPES_MIN), set()),
    ("images.Image", "format", "type", S, set()),
    ("images.Image", "format", "value", ("images", "SUPPORTED_IMAGE_FORMATS", IMAGE_FORMATS_MIN), set()),
    ("images.Image", "arch", "type", S, set()),
    ("images.Image", "arch", "not_blank", None, set()),
    ("images.Image", "disc_number", "type", ("int",), set()),
    ("images.Image", "disc_count", "type", ("int",), set()),
    ("images.Image", "checksums", "type", ("dict",), set()),
    ("images.Image", "checksums", "not_blank", None, set()),
    ("images.Image", "implant_md5", "type", NS, set()),
    ("images.Image", "implant_md5", "re", r"^[a-z0-9]{32}$", {"(self.implant_md5 is None):F"}),
    ("images.Image", "bootable", "type", ("bool",), set()),
    ("images.Image", "subvariant", "type", S, set()),
    ("images.Image", "unified", "type", ("bool",), set()),
    ("images.Image", "additional_variants", "type", ("list",), set()),
    ("images.Image", "additional_variants", "raise", ("_validate_merges_variants", "additional_without_unified"), set()),
    # -- treeinfo ----------------------------------------------------------------------------------------------------------
    ("treeinfo.BaseProduct", "name", "type", S, set()),
    ("treeinfo.BaseProduct", "short", "type", S, set()),
    ("treeinfo.BaseProduct", "version", "type", S, set()),
    ("treeinfo.BaseProduct", "version", "re", r"^\d+(\.\d+)*$", {"re.match('^\\\\d', self.version):T"}),
    ("treeinfo.Release", "name", "type", S, set()),
    ("treeinfo.Release", "short", "type", S, set()),
    ("treeinfo.Release", "version", "type", S, set()),
    ("treeinfo.Release", "version", "re", r"^\d+(\.\d+)*$", {"re.match('^\\\\d', self.version):T"}),
    ("treeinfo.Release", "is_layered", "type", ("bool",), set()),
    ("treeinfo.Tree", "arch", "type", S, set()),
    ("treeinfo.Tree", "arch", "not_blank", None, set()),
    ("treeinfo.Tree", "build_timestamp", "type", ("float", "int"), set()),
    ("treeinfo.Tree", "build_timestamp", "not_blank", None, set()),
    ("treeinfo.Variant", "id", "type", S, set()),
    ("treeinfo.Variant", "id", "raise", ("_validate_id", "dash_in_id"), set()),
    ("treeinfo.Variant", "type", "value", ("treeinfo", "VARIANT_TYPES", TI_VARIANT_TYPES_MIN), set()),
    ("treeinfo.Variant", "uid", "raise", ("_validate_uid", "uid_alignment"), set()),
    ("treeinfo.Images", "images", "raise", ("_validate_image_paths", "absolute_path"), set()),
    ("treeinfo.Images", "platforms", "raise", ("_validate_platforms", "platform_not_in_tree"), set()),
    ("treeinfo.Stage2", "mainimage", "type", S, {"self.mainimage:T"}),
    ("treeinfo.Stage2", "mainimage", "raise", ("_validate_mainimage", "absolute_path"), {"self.mainimage:T"}),
    # property C06: "absolute image or checksum path in a tree" -- instimage and checksum paths are paths too
    ("treeinfo.Stage2", "instimage", "raise", (None, "absolute_path"), {"self.instimage:T"}),
    ("treeinfo.Checksums", "checksums", "raise", (None, "absolute_path"), set()),
    ("treeinfo.Media", "discnum", "type", ("NoneType", "int"), set()),
    ("treeinfo.Media", "totaldiscs", "type", ("NoneType", "int"), set()),
]

# written fields that carry no assertion of their own, one line of reason each
VAL_EXEMPT_FIELDS = {
    ("common.Header", "metadata_type"): "constant passed by the owning class; compared on load, not a user field",
    ("common.Header", "parent"): "back-pointer",
    ("treeinfo.Header", "metadata_type"): "constant passed by the owning class",
    ("treeinfo.Header", "parent"): "back-pointer",
    ("composeinfo.VariantBase", "parent"): "back-pointer (checked through _validate_uid/_validate_parent_arch of the child)",
    ("composeinfo.VariantBase", "variants"): "container; _validate_variants checks ids, children validate themselves",
    ("composeinfo.Variants", "parent"): "always None for the top-level container",
    ("composeinfo.Variants", "variants"): "container; _validate_variants checks ids",
    ("composeinfo.Variant", "parent"): "back-pointer",
    ("composeinfo.Variant", "variants"): "container; _validate_variants checks ids",
    ("composeinfo.Variant", "uid"): "asserted through _validate_uid (recorded under the fields it compares)",
    ("composeinfo.VariantPaths", "parent"): "unused attribute, never written",
    ("composeinfo.VariantPaths", "identity"): "declared but not part of the documented format; never written",
    ("treeinfo.Variants", "parent"): "always None for the top-level container",
    ("treeinfo.Variants", "variants"): "container; _validate_variants checks ids",
    ("treeinfo.Variant", "parent"): "back-pointer",
    ("treeinfo.Variant", "variants"): "container",
    ("treeinfo.Variant", "name"): "free text; ConfigParser.set enforces str",
    ("treeinfo.Tree", "platforms"): "set of free-form platform names; emptiness is legal (arch is always added)",
    ("rpms.Rpms", "rpms"): "payload stored verbatim (C07: validated part is header and compose section)",
    ("modules.Modules", "modules"): "payload stored verbatim",
    ("extra_files.ExtraFiles", "extra_files"): "payload stored verbatim",
    ("images.Images", "images"): "container; every Image validates itself, add() guards the keys (C09/C10)",
    ("images.Image", "parent"): "back-pointer",
}
for _f in ("os_tree", "packages", "repository", "isos", "images", "jigdos", "source_tree", "source_packages",
           "source_repository", "source_isos", "source_jigdos", "debug_tree", "debug_packages", "debug_repository"):
    VAL_EXEMPT_FIELDS[("composeinfo.VariantPaths", _f)] = "arch->path dict of free-form relative paths; no documented rule"
for _f in ("packages", "repository", "source_packages", "source_repository", "debug_packages", "debug_repository",
           "identity"):
    VAL_EXEMPT_FIELDS[("treeinfo.VariantPaths", _f)] = "free-form path; ConfigParser.set enforces str"

# keys whose read may be soft (documented optional / defaulted), per (section class, key)
REQUIRED_KEYS_SOFT_OK = {
    ("composeinfo.Compose", "label"), ("composeinfo.Compose", "final"),
    ("composeinfo.BaseProduct", "type"), ("composeinfo.Release", "type"), ("composeinfo.Release", "is_layered"),
    ("composeinfo.Release", "internal"),
    ("composeinfo.Variant", "variants"),
    ("images.Image", "format"), ("images.Image", "unified"),
    ("images.Image", "additional_variants"),
    ("treeinfo.Release", "short"), ("treeinfo.Release", "is_layered"),
    ("treeinfo.Stage2", "mainimage"), ("treeinfo.Stage2", "instimage"),
    ("treeinfo.Variant", "addons"), ("treeinfo.Variants", "variants"),
    # C07: "for treeinfo, sections with a documented legacy fallback - the header itself, [tree] - are not 'required'"
    ("treeinfo.Header", "version"), ("treeinfo.Tree", "build_timestamp"), ("treeinfo.Tree", "arch"),
    ("treeinfo.Tree", "platforms"),
}


# keys of an *optional section*: the section may be absent as a whole (has_section guard), but inside it the key is mandatory
REQUIRED_IN_OPTIONAL_SECTION = {
    ("treeinfo.Media", "discnum"), ("treeinfo.Media", "totaldiscs"),
}


# architecture names the library documents (synced from dnf's _BASEARCH_MAP plus arm64, src, nosrc); a lower bound
DOC_RPM_ARCHES = (
    "aarch64", "alpha", "alphaev4", "alphaev45", "alphaev5", "alphaev56", "alphaev6", "alphaev67", "alphaev68",
    "alphaev7", "alphapca56", "amd64", "arm64", "armhfp", "armv5tejl", "armv5tel", "armv5tl", "armv6hl",
    "armv6l", "armv7hl", "armv7hnl", "armv7l", "armv8hl", "armv8l", "athlon", "geode", "i386", "i486", "i586",
    "i686", "ia32e", "ia64", "loongarch64", "mips", "mips64", "mips64el", "mipsel", "ppc", "ppc64",
    "ppc64iseries", "ppc64le", "ppc64p7", "ppc64pseries", "riscv128", "riscv32", "riscv64", "s390", "s390x",
    "sh3", "sh4", "sh4a", "sparc", "sparc64", "sparc64v", "sparcv8", "sparcv9", "sparcv9v", "x86_64",
    "src", "nosrc", "noarch",
)
JSON_NATIVE_TYPES = ("str", "int", "float", "bool", "NoneType", "list", "dict", "tuple")
