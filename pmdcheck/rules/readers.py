"""
R-READER-NO-CUT (C01-C05): a reader visits every entry of the document.

A loop of a ``deserialize*`` method that files, stores or collects something on iterations that go on looping must not also
contain a ``break`` or ``return``: leaving such a loop early drops the entries that were not reached yet (``continue`` skips one
entry, ``break`` skips all the others).  A *search* is fine and is recognised by its shape: everything the loop does that is
visible outside it happens on a path that leaves the loop right afterwards (found -> act -> break / return).

Decided on the syntax tree; the expected number of findings is zero, so the recogniser carries an embedded positive example.
"""
import ast

from ..core import AnalysisError
from ..model import dotted

MUTATORS = {"append", "extend", "insert", "add", "update", "setdefault", "remove", "pop", "discard", "clear", "sort"}
READER_PROPS = {
    "composeinfo": ["C01", "C05"], "images": ["C02", "C05"], "rpms": ["C03", "C05"], "modules": ["C03"],
    "extra_files": ["C03"], "treeinfo": ["C04", "C05"], "discinfo": ["C04"], "common": ["C01", "C02", "C03", "C04", "C05"],
}


def _blocks(stmt):
    for name in ("body", "orelse", "finalbody"):
        b = getattr(stmt, name, None)
        if isinstance(b, list) and b and isinstance(b[0], ast.stmt):
            yield b
    for h in getattr(stmt, "handlers", []) or []:
        yield h.body


def _assigned_in(stmts):
    out = set()
    for s in stmts:
        for n in ast.walk(s):
            if isinstance(n, ast.Name) and isinstance(n.ctx, ast.Store):
                out.add(n.id)
    return out


def _root(node):
    while isinstance(node, (ast.Attribute, ast.Subscript)):
        node = node.value
    if isinstance(node, ast.Call):
        return _root(node.func)
    return node.id if isinstance(node, ast.Name) else None


def _is_effect(stmt, selfname, params, loop_locals):
    """does this simple statement do something that is visible outside the loop?"""
    for n in ast.walk(stmt):
        if isinstance(n, (ast.FunctionDef, ast.Lambda)):
            continue
        if isinstance(n, (ast.Attribute, ast.Subscript)) and isinstance(getattr(n, "ctx", None), (ast.Store, ast.Del)):
            r = _root(n)
            if r is not None and r not in loop_locals:
                return True
        if isinstance(n, ast.Call):
            d = dotted(n.func) or ""
            if d == "setattr" and n.args and _root(n.args[0]) not in loop_locals:
                return True
            if isinstance(n.func, ast.Attribute):
                r = _root(n.func.value)
                if r == selfname and not (isinstance(n.func.value, ast.Name) and n.func.attr.startswith(("_assert", "_validate", "validate"))):
                    # a call on the object or one of its parts; pure look-ups on the document (parser.get...) are on other roots
                    if isinstance(n.func.value, ast.Name) or n.func.attr in MUTATORS or n.func.attr.startswith(("deserialize", "add")):
                        return True
                elif n.func.attr in MUTATORS and r is not None and r not in loop_locals:
                    return True
    return False


def cuts(fn):
    """[(loop line, exit line, exit kind, line of an effect that goes on looping)] for the loops of a reader that are cut short"""
    if not fn.args.args:
        return []
    selfname = fn.args.args[0].arg
    params = set(a.arg for a in fn.args.args)
    out = []
    for loop in [n for n in ast.walk(fn) if isinstance(n, (ast.For, ast.While))]:
        loop_locals = _assigned_in(loop.body) - params
        if isinstance(loop, ast.For):
            loop_locals |= _assigned_in([ast.Expr(value=loop.target)]) if False else set(
                n.id for n in ast.walk(loop.target) if isinstance(n, ast.Name))
        # objects created per iteration are local; names that merely alias outer state are not
        aliases = set()
        for s in ast.walk(ast.Module(body=loop.body, type_ignores=[])):
            if isinstance(s, ast.Assign) and len(s.targets) == 1 and isinstance(s.targets[0], ast.Name):
                v = s.value
                fresh = isinstance(v, (ast.Call, ast.Dict, ast.List, ast.Set, ast.Constant, ast.ListComp, ast.DictComp, ast.SetComp,
                                       ast.JoinedStr, ast.BinOp, ast.Tuple, ast.Compare, ast.BoolOp, ast.IfExp, ast.UnaryOp))
                if isinstance(v, ast.Call) and isinstance(v.func, ast.Attribute) and v.func.attr in ("setdefault", "get") \
                        and _root(v.func.value) not in loop_locals:
                    fresh = False          # a cell of an outer container
                if isinstance(v, ast.Subscript) and _root(v) not in loop_locals:
                    fresh = False
                if not fresh:
                    aliases.add(s.targets[0].id)
        loop_locals -= aliases
        exits, effects = [], []

        def walk(block, followed_by_exit, in_inner_loop):
            """effects of the block that are not followed by a break/return out of ``loop``"""
            for i, s in enumerate(block):
                rest_exits = any(isinstance(x, ast.Return) or (isinstance(x, ast.Break) and not in_inner_loop) for x in block[i + 1:])
                safe = followed_by_exit or rest_exits
                if isinstance(s, ast.Break):
                    if not in_inner_loop:
                        exits.append((s.lineno, "break"))
                    return
                if isinstance(s, ast.Return):
                    exits.append((s.lineno, "return"))
                    return
                if isinstance(s, (ast.Raise, ast.Continue)):
                    return
                if isinstance(s, (ast.For, ast.While)):
                    walk(s.body, safe, True)
                    walk(s.orelse, safe, in_inner_loop)
                    continue
                if isinstance(s, (ast.If, ast.Try, ast.With)):
                    for b in _blocks(s):
                        walk(b, safe, in_inner_loop)
                    continue
                if isinstance(s, (ast.FunctionDef, ast.ClassDef)):
                    continue
                if not safe and _is_effect(s, selfname, params, loop_locals):
                    effects.append(s.lineno)
        walk(loop.body, False, False)
        if exits and effects:
            for ln, kind in exits:
                out.append((loop.lineno, ln, kind, effects[0]))
    return out


_EXAMPLE = '''
def deserialize(self, data):
    for arch in data:
        if arch == "src":
            break
        self.add(arch, data[arch])
    for section in data:
        if section in self.known:
            self.type = data[section]
            break
'''


def apply_readers(model, rep, pid):
    fn = ast.parse(_EXAMPLE).body[0]
    got = cuts(fn)
    if len(got) != 1 or got[0][2] != "break":
        raise AnalysisError("R-READER-NO-CUT: the embedded examples are no longer told apart (%r)" % (got,))
    n = 0
    for m in sorted(model.modules.values(), key=lambda m: m.name):
        if pid not in READER_PROPS.get(m.name, []):
            continue
        for c in m.classes.values():
            for name, f in sorted(c.methods.items()):
                if not (name.startswith("deserialize") or name in ("_add_1_1", "parse_file")):
                    continue
                found = cuts(f)
                n += 1
                rep.ob("R-READER-NO-CUT", "%s.%s" % (c.qname, name), not found, site=m.site(f),
                       msg="" if not found else "; ".join(
                           "the loop at line %s is left by %s (line %s) although it files or stores entries on iterations that go on "
                           "(line %s): the entries not reached yet are dropped" % (x[0], x[2], x[1], x[3]) for x in found[:2]))
    return n
