# -*- coding: utf-8 -*-
"""
C19 -- polynomial validation/parsing time      (R-REGEX-INVENTORY, R-REGEX-AMBIG, R-NO-UNBOUNDED)
C13 -- NVRA parsing                            (R-NVRA-PARSE, R-NVRA-GLUE, R-NEVRA-FORMAT)
C14 -- release ids / validity predicates       (R-PRED-LANG, R-PRED-WIRING, R-TYPES-TABLE)
C15 -- compose ids                             (R-SUFFIX-TABLES, R-CID-VALIDATOR, R-CID-DECODE, R-CID-FORMAT, ...)
"""
from __future__ import annotations

import ast
import re as _re

from .. import facts, rx
from .. import terms as T
from ..core import AnalysisError
from ..model import FuncRef, dotted
from . import register
from .oracle_tables import RELEASE_NAME_REF, RELEASE_VERSION_REF, COMPOSE_TYPES_MIN, RELEASE_TYPES_MIN


def single_line(U):
    return [c for c in U if c != 10]


def note_dollar(rep, patterns):
    if any(p.endswith("$") for p in patterns):
        rep.note("O3: '$' also matches before one trailing newline; the quantifiers' alphabets contain no line "
                 "breaks, so languages are compared over single-line strings")


# =========================================================================================================
# C19
# =========================================================================================================
MAX_DEGREE_NOTE = 4


def r_regex_ambiguity(model, rep, tier):
    sites = facts.regex_sites(model)
    if len(sites) < 12:
        raise AnalysisError("vacuity guard: regex inventory has %d patterns (floor 12)" % len(sites))
    for s in sites:
        if s.dynamic == "unescaped":
            rep.ob("R-REGEX-INVENTORY", s.key, False, site=s.site,
                   msg="the pattern %s is built from run-time data without re.escape(): whoever controls that data controls the "
                       "pattern, so matching cost is unbounded (and the pattern cannot be analysed)" % s.pattern)
        elif s.dynamic == "escaped":
            rep.note("pattern at %s contains re.escape()d run-time data; analysed with the escaped part replaced by a literal" % s.site)
    sites = [s for s in sites if s.dynamic != "unescaped"]
    pats = sorted(set(s.pattern for s in sites))
    U = rx.universe(pats)
    results = {}
    degrees = {}
    for p in pats:
        results[p] = rx.ambiguity(rx.PNFA(p, U))
    rep.count("regex_sites", len(sites))
    rep.count("distinct_patterns", len(pats))
    rep.count("alphabet", len(U))
    for s in sites:
        r = results[s.pattern]
        ok = r["eda"] is None and not r["nullable_loop"]
        msg = ""
        if r["nullable_loop"]:
            msg = "pattern %r has a loop whose body can match the empty string" % s.pattern
        elif r["eda"] is not None:
            w = r["eda"]
            msg = ("pattern %r is exponentially ambiguous (EDA): after prefix %r the pump %r can be matched in two "
                   "ways by the same loop, so a failing match on prefix + pump^n + <rejecting char> backtracks 2^n ways"
                   % (s.pattern, w["prefix"], w["pump"]))
        rep.ob("R-REGEX-AMBIG", s.key, ok, site=s.site, msg=msg,
               facts={"pattern": s.pattern, "how": s.how, "ida_degree": r.get("degree"), "line_graph_edges": r["edges"],
                      "pair_product": r["pairs"], "triple_product_explored": r.get("triples")})
        if ok:
            degrees[s.key] = r["degree"]
            if r["degree"] > MAX_DEGREE_NOTE:
                rep.note("pattern %r at %s has polynomial ambiguity of degree %d (> %d): review"
                         % (s.pattern, s.site, r["degree"], MAX_DEGREE_NOTE))
    rep.extra["ambiguity_degree"] = degrees
    rep.extra["states"] = sum(r["pairs"] + (r.get("triples") or 0) for r in results.values())
    # embedded positive examples: the analysis must still recognise the textbook cases
    Ux = rx.universe([r"^(a+)+$", r"^(a|a)*$", r"^a*a*$", r"^(a*)*$", r"^a+$"])
    e1 = rx.ambiguity(rx.PNFA(r"^(a+)+$", Ux))["eda"] is not None
    e2 = rx.ambiguity(rx.PNFA(r"^(a|a)*$", Ux))["eda"] is not None
    e3 = rx.ambiguity(rx.PNFA(r"^a*a*$", Ux))
    e4 = rx.ambiguity(rx.PNFA(r"^(a*)*$", Ux))["nullable_loop"]
    e5 = rx.ambiguity(rx.PNFA(r"^a+$", Ux))
    ok = e1 and e2 and e3["eda"] is None and e3["degree"] == 1 and e4 and e5["eda"] is None and e5["degree"] == 0
    rep.ob("R-REGEX-AMBIG", "embedded-examples", ok, trivial=True,
           msg="" if ok else "self-test of the ambiguity analysis failed")
    if not ok:
        raise AnalysisError("ambiguity analysis self-test failed")


PARSERS = [
    ("common", None, "parse_nvra"), ("common", None, "is_valid_release_short"), ("common", None, "is_valid_release_version"),
    ("common", None, "is_valid_release_type"), ("common", None, "split_version"), ("common", None, "create_release_id"),
    ("common", None, "parse_release_id"), ("common", None, "_parse_release_id_part"),
    ("composeinfo", None, "verify_label"), ("composeinfo", None, "get_date_type_respin"),
    ("modules", "Modules", "parse_uid"), ("modules", "Modules", "_check_uid"), ("rpms", "Rpms", "_check_nevra"),
    ("common", "MetadataBase", "_assert_matches_re"), ("common", "MetadataBase", "_assert_type"),
    ("common", "MetadataBase", "_assert_value"), ("common", "MetadataBase", "_assert_not_blank"),
]
# helpers of the pinned tree that validators reach and that were read by hand: bounded loops over the variant forest / the
# object's own containers, not over the characters of an input string
KNOWN_HELPERS = {"composeinfo.VariantBase._get_all_parents": "walks the parent chain, which add() keeps acyclic (C11)"}
ALLOWED_RECURSION = {"common.create_release_id": "recurses once for the base product, without base-product arguments"}


def r_no_unbounded(model, rep):
    funcs = []
    for mod, cls, name in PARSERS:
        if cls:
            funcs.append(model.own_method("%s.%s" % (mod, cls), name))
        else:
            funcs.append(model.function(mod, name))
    for c in facts.metadata_classes(model):
        for name, fn in c.methods.items():
            if name.startswith("_validate"):
                funcs.append(FuncRef(c.module, c, fn))
    for f in funcs:
        whiles = [n for n in ast.walk(f.node) if isinstance(n, ast.While)]
        rec = []
        for n in ast.walk(f.node):
            if isinstance(n, ast.Call):
                targets, exact = model.resolve_call(f, n)
                if exact and f in targets:
                    rec.append(n)
        ok = not whiles
        msg = "while loop in a validator/parser (line %s)" % whiles[0].lineno if whiles else ""
        if rec:
            if f.qname in ALLOWED_RECURSION:
                # the recursive call must not pass the arguments that trigger the recursion
                for n in rec:
                    if len(n.args) + len(n.keywords) > 3:
                        ok, msg = False, "recursive call passes base-product arguments on (unbounded recursion)"
            else:
                ok, msg = False, "recursion on the input in a validator/parser (line %s)" % rec[0].lineno
        if ok:
            # helpers the parser/validator calls (resolved exactly) are part of it: a helper that loops with ``while`` or that
            # calls itself again - directly or through others - does work the length of the input does not bound polynomially
            # (enumerating all groupings of k dash-separated pieces is 2^(k-1) steps without a single regular expression)
            callees = model.summaries()["callees_exact"]
            for g in sorted(model.reachable_from(f, exact=True), key=lambda g: g.qname):
                if g == f or g.module.name not in model.modules or g.qname in ALLOWED_RECURSION:
                    continue
                if g.qname in KNOWN_HELPERS:
                    continue
                if [n for n in ast.walk(g.node) if isinstance(n, ast.While)]:
                    ok, msg = False, "%s, called from here, loops with while (line %s)" % (g.qname, g.node.lineno)
                    break
                if g in model.reachable_from_callees(g, callees):
                    ok, msg = False, "%s, called from here, is recursive on the input (line %s)" % (g.qname, g.node.lineno)
                    break
        rep.ob("R-NO-UNBOUNDED", f.qname, ok, site=f.module.site(f.node), msg=msg)
    rep.floor("R-NO-UNBOUNDED", 60)


def _constant_table(model, module, name):
    """a module-level table that is a non-empty literal of constants and that no code of the package ever writes to (a lookup
    table, not a cache)"""
    try:
        v = model._module_const(module, name)
    except Exception:
        return False
    if not isinstance(v, (dict, list, tuple)) or not v:
        return False
    muts = ("setdefault", "update", "append", "add", "pop", "clear", "extend", "insert", "remove", "popitem", "discard", "sort", "reverse")
    for m in model.modules.values():
        for n in ast.walk(m.tree if hasattr(m, "tree") else ast.parse(open(m.path).read())):
            if isinstance(n, (ast.Subscript, ast.Attribute)) and isinstance(n.ctx, (ast.Store, ast.Del)):
                b = n.value
                while isinstance(b, (ast.Subscript, ast.Attribute)):
                    b = b.value
                if isinstance(b, ast.Name) and b.id == name and isinstance(n, ast.Subscript):
                    return False
                if isinstance(n.value, ast.Attribute) and n.value.attr == name:
                    return False
            if isinstance(n, ast.Call) and isinstance(n.func, ast.Attribute) and n.func.attr in muts:
                b = n.func.value
                while isinstance(b, (ast.Subscript,)):
                    b = b.value
                if (isinstance(b, ast.Name) and b.id == name) or (isinstance(b, ast.Attribute) and b.attr == name):
                    return False
            if isinstance(n, ast.Global) and name in n.names:
                return False
    return True


def r_stateless(model, rep, funcs=None):
    """parsers/formatters are functions of their arguments: no global statement, no mutation of module-level objects, no
    caching decorator, and no result object that is shared between calls"""
    if funcs is None:
        funcs = []
        for mod, cls, name in PARSERS:
            funcs.append(model.own_method("%s.%s" % (mod, cls), name) if cls else model.function(mod, name))
    for f in funcs:
        cx = facts.fctx(model, f)
        bad = []
        for node in ast.walk(f.node):
            if isinstance(node, (ast.Global, ast.Nonlocal)):
                bad.append("line %s: global/nonlocal statement" % node.lineno)
        for dec in f.node.decorator_list:
            d = dotted(dec.func if isinstance(dec, ast.Call) else dec) or "?"
            if d not in ("staticmethod", "classmethod", "property"):
                bad.append("decorator @%s (results may be cached and shared between calls)" % d)
        for ev in cx.events:
            tgt = None
            if ev.kind in ("store", "del") and ev.target is not None:
                tgt = ev.target
            elif ev.kind == "call" and ev.value[1][0] == "attr" and ev.value[1][2] in (
                    "setdefault", "update", "append", "add", "pop", "clear", "extend", "insert", "remove", "popitem", "discard"):
                tgt = ev.value[1][1]
            elif ev.kind == "call" and ev.value[1][0] == "global" and "." in ev.value[1][1] and ev.value[1][1].rsplit(".", 1)[1] in (
                    "setdefault", "update", "append", "add", "pop", "clear", "extend", "insert", "remove", "popitem", "discard"):
                head = ev.value[1][1].rsplit(".", 1)[0]
                if model.resolve_name(f.module, head.split(".")[0]) and not head.startswith(("re.", "os.", "six.", "warnings.")):
                    bad.append("line %s: %s() mutates a module-level object" % (ev.lineno, ev.value[1][1]))
            if tgt is not None:
                r = tgt
                while r[0] in ("attr", "sub", "idx", "elem"):      # not through calls: a call result is a fresh object
                    r = r[1]
                if r[0] == "global" and not r[1].startswith(("re.", "os.", "six.")):
                    bad.append("line %s: writes to module-level %s" % (ev.lineno, T.show(tgt)[:60]))
            # returning / reading a module-level mutable container element as the result
            if ev.kind == "return" and ev.value is not None:
                for x in T.walk(ev.value):
                    if x[0] == "sub" and x[1][0] == "global" and f.module.assigns.get(x[1][1].split(".")[-1]) and \
                            isinstance(f.module.assigns[x[1][1].split(".")[-1]][-1].value, (ast.Dict, ast.List, ast.Call)) and \
                            x[1][1] not in ("COMPOSE_TYPE_SUFFIXES",) and not _constant_table(model, f.module, x[1][1].split(".")[-1]):
                        bad.append("line %s: returns an element of the module-level container %s" % (ev.lineno, x[1][1]))
        rep.ob("R-STATELESS", f.qname, not bad, site=cx.site(f.node),
               msg="" if not bad else "the function is not a pure function of its arguments: %s" % "; ".join(sorted(set(bad))[:3]))


@register("C19")
def check_c19(model, rep, tier):
    rep.explanation = (
        "Every pattern the library hands to the re module is found by a syntactic inventory (module constants, "
        "re.* calls, pattern lists given to the _assert_matches_re helper; a pattern that cannot be folded to a "
        "constant aborts the analysis). Each is parsed with the interpreter's own re._parser and translated into a "
        "prioritised Thompson NFA; ambiguity is decided on the line graph of its transitions: exponential ambiguity "
        "(EDA: an SCC of the pair product containing a diagonal and an off-diagonal pair) or a nullable loop body is a "
        "violation, the polynomial degree (IDA chains in the triple product) is reported. Backtracking cost follows "
        "the number of parse paths, so no-EDA with degree d bounds matching time by O(n^(d+1)). Validators and parsers "
        "additionally contain no while loop and no recursion on the input. Not decided: cost of non-regex code beyond "
        "that structural check.")
    rep.not_decided = ["cost of non-regex string code beyond absence of while/recursion"]
    rep.assumptions = ["translation re._parser opcodes -> NFA for LITERAL, NOT_LITERAL, ANY, IN, BRANCH, SUBPATTERN, "
                       "MAX/MIN_REPEAT, AT (anything else aborts the analysis)",
                       "Python's sre matcher is a backtracking matcher whose cost is bounded by the number of partial parses"]
    r_regex_ambiguity(model, rep, tier)
    r_no_unbounded(model, rep)
    rep.extra["exhaustive"] = True


# =========================================================================================================
# C13
# =========================================================================================================
SEG = r"[A-Za-z0-9._+]+"
VR = r"[A-Za-z0-9._+~^]+"


def nvra_oracle(model):
    arches = model.const("common", "RPM_ARCHES")
    if len(arches) < 50 or "src" not in arches or "noarch" not in arches:
        raise AnalysisError("RPM_ARCHES folded to an unexpected table (%d entries)" % len(arches))
    arch = "|".join(_re.escape(a) for a in sorted(arches, key=lambda a: (-len(a), a)))
    return (r"^(?:[^\n]*/)?(?P<name>%s(?:-%s)*)-(?:(?P<epoch>[0-9]+):)?(?P<version>%s)-(?P<release>%s)\.(?P<arch>%s)$"
            % (SEG, SEG, VR, VR, arch))


def r_nvra_parse(model, rep, tier):
    R = facts.module_regex(model, "common", "RPM_NVRA_RE")
    Lp = nvra_oracle(model)
    U = rx.universe([R, Lp])
    alpha = single_line(U)
    L = rx.PNFA(Lp, U)
    okL, w, why = rx.self_unambiguous(L, alpha)
    if not okL:
        raise AnalysisError("NVRA oracle grammar is ambiguous (%r: %s)" % (w, why))
    Rn = rx.PNFA(R, U)
    names = set(Rn.groupnames.values())
    want = {"name", "epoch", "version", "release", "arch"}
    if names != want:
        rep.ob("R-NVRA-PARSE", "common.RPM_NVRA_RE:groups", False, msg="named groups are %s, expected %s" % (sorted(names), sorted(want)))
        return
    if not Rn.anchored_end:
        rep.ob("R-NVRA-PARSE", "common.RPM_NVRA_RE", False, msg="pattern is not end-anchored: trailing text would be ignored")
        return
    w, why, n = rx.parse_check(Rn, L, alpha)
    if w is not None and why.startswith("INCONCLUSIVE"):
        raise AnalysisError("R-NVRA-PARSE inconclusive on %r: %s" % (w, why))
    rep.ob("R-NVRA-PARSE", "common.RPM_NVRA_RE", w is None, site="productmd/common.py",
           msg="" if w is None else "for the legal NVRA string (or prefix) %r: %s" % (w, why),
           facts={"pattern": R, "oracle": Lp[:120] + "...", "product_states": n, "alphabet": len(alpha),
                  "oracle_states": L.n, "regex_states": Rn.n})
    rep.extra["states"] = rep.extra.get("states", 0) + n
    note_dollar(rep, [R])


def r_nvra_glue(model, rep):
    f = model.function("common", "parse_nvra")
    cx = facts.fctx(model, f)
    p = ("param", cx.params[0])
    # the string handed to match(): '.rpm' stripped with a slice of the literal's length
    nvra_pat = facts.module_regex(model, "common", "RPM_NVRA_RE")
    m = [ev for ev in cx.events if ev.kind == "call" and ev.value[1] == ("global", "re.match") and len(ev.value[2]) == 2
         and ev.value[2][0] == ("const", nvra_pat)]
    if not m:
        raise AnalysisError("R-NVRA-GLUE: RPM_NVRA_RE.match(...) not found in parse_nvra")
    mt = m[0].value
    arg = mt[2][1]
    ends = [ev for ev in cx.events if ev.kind == "call" and ev.value[1] == ("attr", p, "endswith")]
    ok, msg = True, ""
    if not ends or ends[0].value[2][0][0] != "const":
        ok, msg = False, "no endswith('.rpm') test"
    else:
        suffix = ends[0].value[2][0][1]
        alts = set(arg[1]) if arg[0] == "phi" else {arg}

        def is_strip(a):
            return (a[0] == "sub" and a[1] == p and a[2][0] == "slice" and a[2][1] is None and a[2][3] is None
                    and facts.fold_small(a[2][2]) == -len(suffix))
        if suffix != ".rpm":
            ok, msg = False, "suffix stripped is %r, expected '.rpm'" % suffix
        elif not (len(alts) == 2 and p in alts and any(is_strip(a) for a in alts)):
            ok, msg = False, "the string matched is %s, expected the argument with exactly len('.rpm') characters cut off when it ends with '.rpm'" % T.show(arg)
    rep.ob("R-NVRA-GLUE", "parse_nvra:rpm-suffix", ok, site=cx.site(m[0].lineno), msg=msg)
    # match is used with .match (anchored at start) -- the proof assumes it
    # result = groupdict(); epoch defaulted to 0, converted with int; returned
    gd = ("call", ("attr", mt, "groupdict"), (), ())
    rets = [ev for ev in cx.events if ev.kind == "return"]
    ok = bool(rets) and all(r.value == gd for r in rets)
    rep.ob("R-NVRA-GLUE", "parse_nvra:returns-groupdict", ok, site=cx.site(f.node),
           msg="" if ok else "parse_nvra does not return the match's groupdict()")
    st = [ev for ev in cx.events if ev.kind == "store" and ev.target == ("sub", gd, ("const", "epoch"))]
    from .builders import _establishes_non_none
    # the stores into result['epoch'] composed in program order must amount to int(<matched epoch> or 0)
    orig = ("sub", gd, ("const", "epoch"))
    cur = orig
    for ev in sorted(st, key=lambda e: e.seq):
        cur = T.subst(ev.value, lambda x, c=cur: c if x == orig else None)
    # ... evaluated per scenario: a matched epoch (a non-empty digit string) becomes int(<epoch>), a missing one (None) becomes 0
    intc = lambda x: ("call", ("global", "int"), (x,), ())
    sc_g, sc_m = facts.Scenario(cx, atoms={orig: True}), facts.Scenario(cx, atoms={orig: False})
    given, missing = sc_g.term(cur), sc_m.term(cur)
    ok = bool(st) and given == sc_g.term(intc(orig)) and missing in (("const", 0), intc(("const", 0))) \
        and not any(g for ev in st for g in T.guard_tests(ev) if not _establishes_non_none(g, mt))
    rep.ob("R-NVRA-GLUE", "parse_nvra:epoch-default-int", ok, site=cx.site(f.node),
           msg="" if ok else "epoch must default to 0 and then be converted with int()")
    other = [ev for ev in cx.events if ev.kind == "store" and ev not in st]
    rep.ob("R-NVRA-GLUE", "parse_nvra:no-other-rewrites", not other, site=cx.site(f.node),
           msg="" if not other else "parse_nvra rewrites other parts of the result: %s" % [T.show(e.target) for e in other])


def r_nevra_format(model, rep):
    f = model.own_method("rpms.Rpms", "_check_nevra")
    cx = facts.fctx(model, f)
    rets = [ev for ev in cx.events if ev.kind == "return"]
    ok, msg = False, "no (formatted, dict) return found"
    for r in rets:
        v = r.value
        if v[0] == "tuple" and len(v[1]) == 2:
            d = v[1][1]
            part = lambda k_: ("sub", d, ("const", k_))
            want = T.fmt(part("name"), "-", part("epoch"), ":", part("version"), "-", part("release"), ".", part("arch"))
            ok = v[1][0] == want
            msg = "" if ok else "canonical N-E:V-R.A is not '<name>-<epoch>:<version>-<release>.<arch>' of the parsed dict: %s" % T.show(v[1][0])[:120]
            ok2 = d[0] == "call" and d[1][0] == "global" and d[1][1].endswith("parse_nvra") and d[2] == (("param", cx.params[1]),)
            if ok and not ok2:
                ok, msg = False, "the dict formatted is not parse_nvra(<argument>)"
    rep.ob("R-NEVRA-FORMAT", "Rpms._check_nevra:canonical-format", ok, site=cx.site(f.node), msg=msg)
    # the parsed dict is only patched in its epoch entry, with "the parsed epoch, 0 when there is none"
    sts = [ev for ev in cx.events if ev.kind == "store" and ev.target[0] == "sub" and ev.target[1][0] == "call"
           and ev.target[1][1][0] == "global" and ev.target[1][1][1].endswith("parse_nvra")]
    oke = all(ev.target[2] == ("const", "epoch") and not [g for g in facts.own_guards(cx, ev, kinds=("raise",)) if g[0][0] != "exc"]
              and ev.value == ("boolop", "or", (("sub", ev.target[1], ("const", "epoch")), ("const", 0))) for ev in sts)
    rep.ob("R-NEVRA-FORMAT", "Rpms._check_nevra:epoch-kept", oke, site=cx.site(sts[0].lineno if sts else f.node),
           msg="" if oke else "the parsed epoch must be kept (only a missing one becomes 0) and nothing else of the parsed name rewritten")
    # refuses a missing epoch, converts an unparsable name into ValueError
    miss = [ev for ev in cx.events if ev.kind == "raise" and any(
        not g[1] and g[0] == ("cmp", ("in",), (("const", ":"), ("param", cx.params[1]))) for g in ev.guards)]
    rep.ob("R-NEVRA-FORMAT", "Rpms._check_nevra:missing-epoch-refused", bool(miss), site=cx.site(f.node),
           msg="" if miss else "a name without ':' (missing epoch) is no longer refused")
    conv = [ev for ev in cx.events if ev.kind == "raise" and any(g[0] == ("exc", "ValueError") for g in ev.guards)
            and ev.value[0] == "call" and ev.value[1] == ("global", "ValueError")]
    rep.ob("R-NEVRA-FORMAT", "Rpms._check_nevra:unparsable-refused", bool(conv), site=cx.site(f.node),
           msg="" if conv else "parse errors are no longer converted into ValueError")


@register("C13")
def check_c13(model, rep, tier):
    from .builders import r_opt_deref
    rep.explanation = (
        "Proof over the whole legal language, by finite-automaton analysis of the regular expression's syntax tree: "
        "RPM_NVRA_RE is translated into a prioritised Thompson NFA (ordered epsilon edges = backtracking order, group "
        "tags on edges). The oracle is the property's quantifier written as an unambiguous tagged regular grammar "
        "(dash-separated name segments, optional numeric epoch, dash-free version/release, arch from the folded "
        "RPM_ARCHES, any directory prefix). Three product searches decide, for ALL words of the oracle, that the "
        "first accepting path of the regex in backtracking order assigns every named group the oracle's span. The "
        "glue code (strip exactly '.rpm', None-check, epoch default 0 and int(), return groupdict) and the canonical "
        "re-formatting skeleton are checked on the syntax tree; the canonical form is a member of the oracle "
        "language, so re-parsing it is a fixed point by the main proof. Not decided: strings outside the stated alphabet.")
    rep.not_decided = ["names outside the stated alphabet"]
    rep.assumptions = ["regex -> prioritised NFA translation (differentially tested against re during development)",
                       "re.match semantics: leftmost, first accepting path in backtracking order"]
    r_nvra_parse(model, rep, tier)
    r_nvra_glue(model, rep)
    r_nevra_format(model, rep)
    r_opt_deref(model, rep, only=["common.parse_nvra"])
    r_stateless(model, rep, [model.function("common", "parse_nvra"), model.own_method("rpms.Rpms", "_check_nevra")])
    rep.extra["exhaustive"] = True


# =========================================================================================================
# C14
# =========================================================================================================
def r_pred_lang(model, rep):
    refs = {"RELEASE_SHORT_RE": RELEASE_NAME_REF, "RELEASE_TYPE_RE": RELEASE_NAME_REF, "RELEASE_VERSION_RE": RELEASE_VERSION_REF}
    pats = dict((k, facts.module_regex(model, "common", k)) for k in refs)
    U = rx.universe(list(pats.values()) + list(refs.values()))
    alpha = single_line(U)
    for k in sorted(refs):
        eq, w, n = rx.equivalent(rx.PNFA(pats[k], U), rx.PNFA(refs[k], U), alpha)
        rep.ob("R-PRED-LANG", "common.%s" % k, eq, site="productmd/common.py",
               msg="" if eq else "language of %r differs from the documented %r on %r" % (pats[k], refs[k], w),
               facts={"pattern": pats[k], "reference": refs[k], "dfa_pairs": n})
        rep.extra["states"] = rep.extra.get("states", 0) + n
    note_dollar(rep, pats.values())
    return pats, U


def r_pred_wiring(model, rep):
    want = {"is_valid_release_short": "RELEASE_SHORT_RE", "is_valid_release_version": "RELEASE_VERSION_RE",
            "is_valid_release_type": "RELEASE_TYPE_RE"}
    for fn, const in sorted(want.items()):
        f = model.function("common", fn)
        cx = facts.fctx(model, f)
        rets = [ev for ev in cx.events if ev.kind == "return"]
        ok = len(rets) == 1
        if ok:
            v = rets[0].value
            m = ("call", ("global", "re.match"), (("const", facts.module_regex(model, "common", const)), ("param", cx.params[0])), ())
            ok = v == ("cmp", ("is not",), (m, ("const", None))) or v == ("call", ("global", "bool"), (m,), ())
        rep.ob("R-PRED-WIRING", "common.%s" % fn, ok, site=cx.site(f.node),
               msg="" if ok else "%s must return whether %s.match(<argument>) succeeded" % (fn, const))
    f = model.function("common", "create_release_id")
    cx = facts.fctx(model, f)
    short, version, typ = [("param", x) for x in cx.params[:3]]
    for pred, arg in (("is_valid_release_short", short), ("is_valid_release_version", version), ("is_valid_release_type", typ)):
        call = ("call", ("global", pred), (arg,), ())
        r = [ev for ev in cx.events if ev.kind == "raise" and ev.value[0] == "call" and ev.value[1] == ("global", "ValueError")
             and any(T.strip_not(g[0], g[1]) == (call, False) for g in ev.guards)
             and not [g for g in facts.own_guards(cx, ev, kinds=("raise",)) if g[0][0] != "exc" and T.strip_not(g[0], g[1]) != (call, False)]]
        rep.ob("R-PRED-WIRING", "create_release_id:%s" % pred, bool(r), site=cx.site(f.node),
               msg="" if r else "create_release_id does not refuse (ValueError) what %s refuses for its %s argument"
               % (pred, arg[1]))
    # formatting, evaluated per scenario: ga implicit, otherwise short-version-type; '@' + base product id when bp_short is given
    ok, msg = True, ""
    bp = [("param", x) for x in cx.params[3:6]]
    rec = ("call", ("global", "create_release_id"), tuple(bp), ())
    isga = ("cmp", ("==",), (typ, ("const", "ga")))
    for ga_, bp_ in ((True, False), (False, False), (True, True), (False, True)):
        table = {facts.canon_guard((isga, True))[0]: ga_, isga: ga_, bp[0]: bp_}
        vals = facts.value_under(cx, facts.atoms_decider(table))
        base = (short, "-", version) if ga_ else (short, "-", version, "-", typ)
        want = T.fmt(*(base + (("@", rec) if bp_ else ())))
        if vals != [want]:
            ok = False
            msg = "release id for type %s 'ga' %s base product must be %s, found %s" % (
                "==" if ga_ else "!=", "with" if bp_ else "without", T.show(want), [T.show(x)[:120] for x in vals])
            break
    rep.ob("R-PRED-WIRING", "create_release_id:format", ok, site=cx.site(f.node), msg=msg)


RID_CLASSES = [("plain", "ga"), ("plain", "other"), ("dashed", "ga"), ("dashed", "other")]


def _rid_parts(d, prefix_p):
    """{'short': term, 'version': term, 'type': term} when ``d`` is the dict literal holding the three parts - under their plain
    names or under prefix + name - else None"""
    if d[0] != "dict" or len(d[1]) != 3:
        return None
    out = {}
    for k, v in d[1]:
        if k[0] == "const" and isinstance(k[1], str):
            out[k[1]] = v
        elif k[0] == "fmt" and len(k[1]) == 2 and (k[1][0] == prefix_p or k[1][0][0] == "const") and k[1][1][0] == "const":
            out[k[1][1][1]] = v
        else:
            return None
    return out if set(out) == {"short", "version", "type"} else None


def r_rid_roundtrip(model, rep):
    """parse_release_id(create_release_id(short, version, type)) == (short, version, type), decided by abstract interpretation
    of the parser's def-use terms on *segment strings*: the identifier is the writer's own format (scenario evaluation of
    create_release_id) instantiated with a short name of 1..3 dash-separated symbolic segments (the shape of RELEASE_SHORT_RE), a
    symbolic version free of '-' and '@' (the property's quantifier) and each known release type spelled out; the parser's
    count/split/rsplit/endswith/slice code is evaluated on that abstract string, forking where the outcome depends on the
    symbolic segments.  One obligation per class (short with/without dashes, type ga/other)."""
    from .. import absstr
    from ..absstr import AStr
    types = list(model.const("common", "RELEASE_TYPES"))
    # --- the writer's format per scenario
    w = model.function("common", "create_release_id")
    wcx = facts.fctx(model, w)
    short_p, version_p, type_p, bp_p = [("param", x) for x in wcx.params[:4]]
    fmts = {}
    for t in types:
        vals = facts.Scenario(wcx, atoms={bp_p: False}, subst={type_p: ("const", t)}).returns()
        if len(vals) != 1 or vals[0][0] != "fmt":
            raise AnalysisError("create_release_id: cannot evaluate the identifier format for type %r: %s" % (t, [T.show(v)[:80] for v in vals]))
        fmts[t] = vals[0][1]
    # --- the parser's result terms
    f = model.function("common", "_parse_release_id_part")
    cx = facts.fctx(model, f)
    rid_p = ("param", cx.params[0])
    res = None
    prefix_p = ("param", cx.params[1]) if len(cx.params) > 1 else None
    for ev in cx.events:
        if ev.kind == "bind" and ev.raw is not None and ev.raw[0] == "local" and ev.raw[3][0] == "dict":
            res = _rid_parts(ev.raw[3], prefix_p) or res
    if res is None:
        rets = [ev for ev in cx.events if ev.kind == "return"]
        for r in rets:
            res = _rid_parts(T.unwrap(r.raw), prefix_p) or res
    if res is None:
        raise AnalysisError("_parse_release_id_part: the {short, version, type} result is not recognisable (idiom not understood)")
    # 'first element of a constant table satisfying a test' loops
    firsts = {}
    for ev in cx.events:
        if ev.kind == "bind" and ev.loops and ev.value == ("elem", ev.loops[-1][1], ev.loops[-1][0]) and ev.loops[-1][1][0] == "global" \
                and ev.extra is None:
            lid = ev.loops[-1][0]
            base = tuple(cx.ex.loop_guards.get(lid, ()))
            rel = [g for g in ev.guards[len(base):]]
            brk = [b for b in cx.events if b.kind == "break" and b.loops == ev.loops and b.seq > ev.seq and tuple(b.guards) == tuple(ev.guards)]
            if len(rel) == 1 and rel[0][1] is True and brk:
                firsts[lid] = (ev.loops[-1][1][1], rel[0][0])

    def tables(name):
        v = model.const("common", name)
        if not isinstance(v, (list, tuple)):
            raise absstr.Unmodelled("table %s" % name)
        return list(v)
    results = dict((c, []) for c in RID_CLASSES)
    unmodelled = []
    n_runs = 0
    for d in (0, 1, 2):
        short = AStr.of(*sum([[("sym", "s%d" % i)] + ([("lit", "-")] if i < d else []) for i in range(d + 1)], []))
        for t in types:
            ga_ = (t == "ga")
            pieces = []
            for pc in fmts[t]:
                if pc[0] == "const":
                    pieces.append(pc[1])
                elif pc == short_p:
                    pieces.append(short)
                elif pc == version_p:
                    pieces.append(("sym", "version"))
                elif pc == type_p:
                    pieces.append(t)
                else:
                    raise AnalysisError("create_release_id: unexpected piece %s in the identifier" % T.show(pc)[:60])
            rid = AStr.of(*pieces)
            env = {rid_p: rid}
            if len(cx.params) > 1:
                env[("param", cx.params[1])] = AStr()
            want0 = [short, AStr.of(("sym", "version")), AStr.concrete(t)]
            try:
                outs = absstr.explore(env, tables, firsts, ("tuple", (res["short"], res["version"], res["type"])), watch=want0 + [rid])
            except absstr.Unmodelled as e:
                # this scenario cannot be evaluated; the others still can - a mismatch found there is a mismatch whatever happens
                # here, and only when none is found is the whole question undecided
                unmodelled.append(str(e))
                continue
            cls = ("dashed" if d else "plain", "ga" if ga_ else "other")
            for vals, trail, watched in outs:
                n_runs += 1
                want, rid_r = watched[:3], watched[3]
                if vals != want:
                    got = [v.show() if isinstance(v, AStr) else repr(v) for v in vals]
                    results[cls].append("%s -> short=%s version=%s type=%s%s" % (
                        rid_r.show(), got[0], got[1], got[2], (" (when %s)" % "; ".join(trail)) if trail else ""))
    if unmodelled and not any(results[c] for c in RID_CLASSES if c != ("dashed", "ga")):
        raise AnalysisError("_parse_release_id_part: %s is not modelled by the segment-string interpreter" % unmodelled[0])
    for cls in RID_CLASSES:
        bad = results[cls]
        rep.ob("R-RID-ROUNDTRIP", "parse_release_id:round-trip[short=%s,type=%s]" % cls, not bad, site=cx.site(f.node),
               msg="" if not bad else "the created identifier does not parse back to its parts: %s" % "; ".join(bad[:3]),
               facts={"abstract_runs": n_runs, "types": len(types), "short_shapes": 3})
    rep.extra["states"] = rep.extra.get("states", 0) + n_runs
    # glue: parse_release_id splits once on '@' and parses both halves with the same function (prefix 'bp_')
    g = model.function("common", "parse_release_id")
    gcx = facts.fctx(model, g)
    gp = ("param", gcx.params[0])
    has_at = ("cmp", ("in",), (("const", "@"), gp))
    sp = ("call", ("attr", gp, "split"), (("const", "@"),), ())
    ok = True
    for at in (False, True):
        sc = facts.Scenario(gcx, atoms={has_at: at})
        calls = [(ev, h) for ev, h in sc.events("call") if ev.value[1] == ("global", "_parse_release_id_part")]
        def prefix_of(call):
            a = facts.arg_of(call, "prefix", 1)
            return () if a is None else (("prefix", T.show(a)),)
        args = sorted((T.show(T.degate(sc.term(ev.raw[2][0]))), prefix_of(ev.raw)) for ev, h in calls if h is not False)
        if at:
            want_calls = sorted([(T.show(("idx", sp, 0)), ()), (T.show(("idx", sp, 1)), (("prefix", "'bp_'"),))])
        else:
            want_calls = [(T.show(gp), ())]
        live = [a for a in args]
        if at:
            ok = ok and live == want_calls
        else:
            ok = ok and [a for a in live if a[1] == ()] == want_calls and not [ev for ev, h in calls if h is True and prefix_of(ev.raw)]
    rep.ob("R-RID-ROUNDTRIP", "parse_release_id:base-product-split", ok, site=gcx.site(g.node),
           msg="" if ok else "parse_release_id must split once on '@' and parse the release part and the base-product part (prefix 'bp_') "
                             "with the same part parser")


def _eval_small(t, bound=None):
    """evaluate a term made of literals, string building, dict literals, lookups in them and one-generator comprehensions over
    them (what a key-renaming step is made of); raises ValueError on anything else"""
    bound = bound or {}
    k = t[0]
    if k == "const":
        return t[1]
    if k == "bound":
        if t[1] in bound:
            return bound[t[1]]
        raise ValueError("unbound %s" % t[1])
    if k == "local" and len(t) > 3 and isinstance(t[3], tuple):
        return _eval_small(t[3], bound)
    if k == "fmt":
        return "".join(str(_eval_small(x, bound)) for x in t[1])
    if k == "tuple":
        return tuple(_eval_small(x, bound) for x in t[1])
    if k in ("list",):
        return [_eval_small(x, bound) for x in t[1]]
    if k == "dict":
        return dict((_eval_small(a, bound), _eval_small(b, bound)) for a, b in t[1])
    if k == "sub":
        return _eval_small(t[1], bound)[_eval_small(t[2], bound)]
    if k == "binop" and t[1] == "+":
        return _eval_small(t[2], bound) + _eval_small(t[3], bound)
    if k == "comp" and len(t[3]) == 1 and not t[3][0][2]:
        var = t[3][0][0][1]
        src = _eval_small(t[3][0][1], bound)
        vals = [_eval_small(t[2], dict(bound, **{var: x})) for x in (sorted(src) if isinstance(src, dict) else src)]
        return dict(vals) if t[1] == "dict" else set(vals) if t[1] == "set" else vals
    if k == "call" and t[1] == ("global", "dict") and len(t[2]) == 1 and not t[3]:
        return dict(_eval_small(t[2][0], bound))
    if k == "call" and t[1] == ("global", "sorted") and len(t[2]) == 1 and not t[3]:
        return sorted(_eval_small(t[2][0], bound))
    raise ValueError("not evaluable: %s" % T.show(t)[:60])


def r_rid_result(model, rep):
    """what the two parser functions hand back: _parse_release_id_part returns the {short, version, type} it computed under the
    keys prefix+name; parse_release_id returns the release part's dict updated with the base-product part's (prefix 'bp_')"""
    f = model.function("common", "_parse_release_id_part")
    cx = facts.fctx(model, f)
    rets = [ev for ev in cx.events if ev.kind == "return"]
    ok, msg = bool(rets), "no return"
    for ev in rets:
        for prefix in ("", "bp_"):
            prefix_p = ("param", cx.params[1]) if len(cx.params) > 1 else None

            def marked(d):
                # the three computed parts replaced by markers (their values are R-RID-ROUNDTRIP's business), keys kept
                parts = _rid_parts(d, prefix_p)
                if parts is None:
                    return None
                names = dict((id(v), n) for n, v in parts.items())
                return ("dict", tuple((T.subst(k, fn), ("const", "<%s>" % names[id(v)])) for k, v in d[1]))

            def fn(x):
                if x == prefix_p:
                    return ("const", prefix)
                if x[0] == "local" and len(x) > 3 and isinstance(x[3], tuple) and x[3]:
                    return (marked(x[3]) if x[3][0] == "dict" else None) or T.subst(x[3], fn)
                if x[0] == "dict":
                    return marked(x)
                return None
            t = T.subst(ev.value, fn)
            try:
                got = _eval_small(T.canon(t))
            except (ValueError, KeyError, TypeError) as e:
                raise AnalysisError("_parse_release_id_part: the returned value is not understood (%s)" % e)
            want = dict((prefix + k, "<%s>" % k) for k in ("short", "version", "type"))
            if got != want:
                ok, msg = False, "with prefix %r the part parser returns keys %s instead of %s" % (
                    prefix, sorted(got) if isinstance(got, dict) else got, sorted(want))
    rep.ob("R-RID-ROUNDTRIP", "_parse_release_id_part:result-keys", ok, site=cx.site(f.node), msg="" if ok else msg)
    g = model.function("common", "parse_release_id")
    gcx = facts.fctx(model, g)

    def is_part(t, prefixed):
        t = T.unwrap(t)
        return t[0] == "call" and t[1] == ("global", "_parse_release_id_part") and (facts.arg_of(t, "prefix", 1) is not None) == prefixed
    rets = [ev for ev in gcx.events if ev.kind == "return"]
    upd = [ev for ev in gcx.events if ev.kind == "call" and ev.value[1][0] == "attr" and ev.value[1][2] == "update"
           and is_part(ev.value[1][1], False) and len(ev.value[2]) == 1 and is_part(ev.value[2][0], True)]
    gp = ("param", gcx.params[0])
    has_at = ("cmp", ("in",), (("const", "@"), gp))
    ok = bool(rets)
    for at in (False, True):
        # with an '@': the release part's dict, updated with the base-product part's before it is returned; without: as it is
        sc = facts.Scenario(gcx, atoms={has_at: at})
        live = [ev for ev in rets if sc.holds(ev) is not False]
        merged = [ev for ev in upd if sc.holds(ev) is not False]
        ok = ok and len(live) == 1 and is_part(live[0].value, False) and len(merged) == (1 if at else 0) \
            and all(u.seq < live[0].seq for u in merged)
    rep.ob("R-RID-ROUNDTRIP", "parse_release_id:result-merged", ok, site=gcx.site(g.node),
           msg="" if ok else "parse_release_id must return the release part's result updated with the base-product part's "
                             "(exactly when the identifier has an '@')")


def r_types_table(model, rep, pats, U):
    types = model.const("common", "RELEASE_TYPES")
    missing = [t for t in RELEASE_TYPES_MIN if t not in types]
    rep.ob("R-TYPES-TABLE", "RELEASE_TYPES:documented-values", not missing, site="productmd/common.py",
           msg="" if not missing else "known release types lost: %s" % missing)
    U = rx.universe(list(pats.values()), extra="".join(types))
    p = rx.PNFA(pats["RELEASE_TYPE_RE"], U)
    for t in types:
        try:
            acc = rx.accepts(p, t)
        except rx.Unsupported:
            acc = False
        rep.ob("R-TYPES-TABLE", "RELEASE_TYPES:%s in L(RELEASE_TYPE_RE)" % t, acc, site="productmd/common.py",
               msg="" if acc else "known release type %r is rejected by is_valid_release_type" % t)
    # (a table entry that is a suffix of a later one can shadow it in the parser's endswith() search: whether it does is decided
    # by R-RID-ROUNDTRIP on the parser actually in the tree, for every entry of the table)
    # parser uses the table
    f = model.function("common", "_parse_release_id_part")
    cx = facts.fctx(model, f)
    RT = ("global", "RELEASE_TYPES")
    uses = any(ev.loops and ev.loops[-1][1] == RT for ev in cx.events) or any(
        T.contains(t, lambda x: x[0] == "comp" and any(g[1] == RT for g in x[3]))
        for ev in cx.events for t in (ev.value, ev.target) if t is not None)
    rep.ob("R-TYPES-TABLE", "_parse_release_id_part:uses-RELEASE_TYPES", uses, site=cx.site(f.node),
           msg="" if uses else "the release-id parser no longer searches the known-type table")


@register("C14")
def check_c14(model, rep, tier):
    rep.explanation = (
        "Decided: (1) the three predicate regexes accept exactly the documented languages -- DFA equivalence (on-the-fly "
        "subset construction over a representative alphabet with one code point per membership signature) against the "
        "reference grammars [a-z][a-z0-9]*(-[a-z0-9]+)* and [0-9]+(.[0-9]+)* | [^0-9].* ; (2) each is_valid_* predicate "
        "returns whether its own constant matched; create_release_id applies the three predicates to (short, version, "
        "type), raises ValueError before formatting, formats ga implicitly and appends '@' + the base product id; "
        "(3) every known release type is in L(type regex), the table contains the documented values and no entry is "
        "shadowed by an earlier entry that is its suffix; (4) the round trip parse_release_id(create_release_id(...)), by "
        "abstract interpretation of the parser's def-use terms over segment strings: the identifier is the writer's own "
        "format (scenario evaluation of create_release_id) with a short name of one to three dash-separated symbolic "
        "segments, a symbolic version free of '-' and '@' and each known release type; count/split/rsplit/endswith/"
        "slice-by-length and the 'first known type that is a suffix' search are evaluated on that abstract string, "
        "splitting cases where the outcome depends on what a symbolic segment stands for; one obligation per class "
        "(short with/without dashes x type ga/other) plus the '@' glue. The class (dashed short, ga) fails on the pinned "
        "tree: known finding K3. Not decided: versions that themselves contain '-' or '@' (outside the quantifier).")
    rep.not_decided = ["round trip for versions containing '-' or '@' (outside the property's quantifier)"]
    rep.assumptions = ["regex -> NFA translation", "re.match semantics",
                       "segment-string domain: short-name segments and versions are non-empty and free of '-' and '@' (RELEASE_SHORT_RE shape, "
                       "quantifier of C14)", "semantics of str.count/split/rsplit/endswith and s[:-len(x)] as modelled in pmdcheck/absstr.py"]
    pats, U = r_pred_lang(model, rep)
    r_pred_wiring(model, rep)
    r_types_table(model, rep, pats, U)
    r_rid_roundtrip(model, rep)
    r_stateless(model, rep, [model.function("common", n) for n in (
        "is_valid_release_short", "is_valid_release_version", "is_valid_release_type", "create_release_id", "parse_release_id",
        "_parse_release_id_part", "split_version")])
    try:
        r_rid_result(model, rep)
    except AnalysisError as e:
        # a result the evaluator cannot follow (a cache in front of it ...): if the rules above already report the function,
        # that report stands; otherwise the check cannot decide
        if not rep.failed():
            raise
        rep.note("result rules skipped: %s" % e)
    rep.extra["exhaustive"] = True


# =========================================================================================================
# C15
# =========================================================================================================
def compose_suffix_ladder(model):
    """Compose.type_suffix as a table type -> suffix; (table, has_else_raise)"""
    f = model.own_method("composeinfo.Compose", "type_suffix")
    cx = facts.fctx(model, f)
    table = {}
    # table-lookup form:  return SUFFIXES[self.type]  with a raise for unknown types
    for ev in cx.events:
        if ev.kind == "return" and ev.value[0] == "sub" and cx.self_attr(ev.value[2]) == "type":
            try:
                d = cx.const_of(T.unwrap(ev.value[1])) if T.unwrap(ev.value[1])[0] != "dict" else dict(
                    (k[1], v[1]) for k, v in T.unwrap(ev.value[1])[1] if k[0] == "const" and v[0] == "const")
            except Exception:
                d = None
            if isinstance(d, dict) and d:
                unknown = [e2 for e2 in cx.events if e2.kind == "raise" and (
                    facts.has_guard(e2, ("cmp", ("in",), (ev.value[2], ev.value[1])), False) or any(g[0] == ("exc", "KeyError") for g in e2.guards))]
                if not unknown:
                    # try: return TABLE[type]  except KeyError: pass  ... raise
                    for n in ast.walk(f.node):
                        if isinstance(n, ast.Try) and any(isinstance(r_, ast.Return) and r_.lineno == ev.lineno for b_ in n.body for r_ in ast.walk(b_)):
                            names = [dotted(h_) for h in n.handlers
                                     for h_ in ((h.type.elts if isinstance(h.type, ast.Tuple) else [h.type]) if h.type is not None else [])]
                            swallowed = all(not any(isinstance(z, (ast.Return, ast.Raise)) for b_ in h.body for z in ast.walk(b_)) for h in n.handlers)
                            if ("KeyError" in names or "LookupError" in names) and swallowed:
                                unknown = [e2 for e2 in cx.events if e2.kind == "raise" and e2.seq > ev.seq and not [g for g in e2.guards if g[0][0] != "exc"]
                                           and not e2.loops]
                return dict(d), bool(unknown), cx, f
    for ev in cx.events:
        if ev.kind == "return":
            pos = [g for g in ev.guards if g[1]]
            if len(pos) != 1 or ev.value[0] != "const":
                raise AnalysisError("Compose.type_suffix: unexpected return shape at line %s" % ev.lineno)
            g = pos[0][0]
            if not (g[0] == "cmp" and g[1] == ("==",) and cx.self_attr(g[2][0]) == "type" and g[2][1][0] == "const"):
                raise AnalysisError("Compose.type_suffix: unexpected condition %s" % T.show(g))
            table[g[2][1][1]] = ev.value[1]
    raises = [ev for ev in cx.events if ev.kind == "raise" and not [g for g in ev.guards if g[1]]]
    return table, bool(raises), cx, f


def r_suffix_tables(model, rep):
    table, has_raise, cx, f = compose_suffix_ladder(model)
    types = model.const("composeinfo", "COMPOSE_TYPES")
    dec = model.const("composeinfo", "COMPOSE_TYPE_SUFFIXES")
    missing = [t for t in COMPOSE_TYPES_MIN if t not in types]
    rep.ob("R-SUFFIX-TABLES", "COMPOSE_TYPES:documented-values", not missing, site="productmd/composeinfo.py",
           msg="" if not missing else "compose types lost: %s" % missing)
    for t in types:
        rep.ob("R-SUFFIX-TABLES", "type_suffix:covers:%s" % t, t in table, site=cx.site(f.node),
               msg="" if t in table else "Compose.type_suffix has no branch for compose type %r" % t)
    rep.ob("R-SUFFIX-TABLES", "type_suffix:else-raises", has_raise, site=cx.site(f.node),
           msg="" if has_raise else "unknown compose types no longer raise in type_suffix")
    for t, s in sorted(table.items()):
        if s == "":
            ok = t == "production"
            msg = "" if ok else "the empty suffix belongs to %r but the decoder's default is 'production'" % t
        else:
            ok = s.startswith(".") and dec.get(s[1:]) == t
            msg = "" if ok else "encoder writes %r for type %r but the decoder maps %r to %r" % (s, t, s[1:], dec.get(s[1:]))
        rep.ob("R-SUFFIX-TABLES", "encoder->decoder:%s" % t, ok, site=cx.site(f.node), msg=msg)
    for k, v in sorted(dec.items()):
        rep.ob("R-SUFFIX-TABLES", "decoder-key:%s" % k, v in types, site="productmd/composeinfo.py",
               msg="" if v in types else "decoder suffix %r maps to unknown compose type %r" % (k, v))
    # documented suffixes: none, .n/.nightly, .t/.test, .ci, .d
    for k, t in (("n", "nightly"), ("nightly", "nightly"), ("t", "test"), ("test", "test"), ("ci", "ci"), ("d", "development")):
        rep.ob("R-SUFFIX-TABLES", "documented-suffix:.%s" % k, dec.get(k) == t, site="productmd/composeinfo.py",
               msg="" if dec.get(k) == t else "documented suffix .%s is decoded as %r, expected %r" % (k, dec.get(k), t))
    return table


def applied_regex(model, fref):
    """the regular expression a function applies to its argument: (pattern, method, call event).  The pattern may be
    compiled in the function or be a module-level constant."""
    from ..model import RegexConst, NotConst
    cx = facts.fctx(model, fref)
    found = []
    for ev in cx.events:
        if ev.kind != "call":
            continue
        f = ev.value[1]
        meth = None
        pat = None
        if f[0] == "attr" and f[2] in ("match", "search", "fullmatch"):
            meth = f[2]
            recv = T.unwrap(f[1])
            if recv[0] == "call" and recv[1] == ("global", "re.compile") and recv[2] and recv[2][0][0] == "const":
                pat = recv[2][0][1]
            else:
                try:
                    v = cx.const_of(recv)
                    if isinstance(v, RegexConst):
                        pat = v.pattern
                except NotConst:
                    pass
        elif f[0] == "global" and f[1] in ("re.match", "re.search", "re.fullmatch") and ev.value[2] and ev.value[2][0][0] == "const":
            meth = f[1][3:]
            pat = ev.value[2][0][1]
        elif f[0] == "global" and f[1].endswith((".match", ".search", ".fullmatch")):
            meth = f[1].rsplit(".", 1)[1]
            try:
                v = cx.const_of(("global", f[1].rsplit(".", 1)[0]))
                if isinstance(v, RegexConst):
                    pat = v.pattern
            except NotConst:
                pass
        if meth and pat is not None:
            found.append((pat, meth, ev))
    return found


def decoder_pattern(model):
    f = model.function("composeinfo", "get_date_type_respin")
    found = applied_regex(model, f)
    if len(found) != 1:
        raise AnalysisError("get_date_type_respin: expected exactly one applied regular expression, found %d" % len(found))
    pat, meth, ev = found[0]
    if meth == "search":
        # search = match with a lazy scan for the leftmost starting position
        pat = "(?:.|\\n)*?(?:" + pat.lstrip("^") + ")" if not pat.startswith("^") else pat
    elif meth == "fullmatch" and not pat.endswith("$"):
        pat = "(?:" + pat + ")$"
    return pat, f


def encoder_grammar(table, respin):
    sufs = sorted(set(s for s in table.values() if s))
    alt = "|".join(_re.escape(s) for s in sufs)
    return r"^[^\n]*-(?P<date>[0-9]{8})(?:(?P<type>%s))?\.(?P<respin>%s)$" % (alt, respin)


def r_cid_validator(model, rep, table):
    cls = model.cls("composeinfo.Compose")
    pats = [p for a in facts.assertions_of(model, cls) if a.field == "id" and a.kind == "re" for p in a.arg]
    if not pats:
        rep.ob("R-CID-VALIDATOR", "Compose._validate_id", False, msg="no id pattern")
        return
    enc = encoder_grammar(table, "[0-9]+")
    U = rx.universe(pats + [enc])
    alpha = single_line(U)
    E = rx.PNFA(enc, U)
    ok_any = False
    w = None
    for p in pats:
        inc, w, n = rx.included(E, rx.PNFA(p, U), alpha)
        rep.extra["states"] = rep.extra.get("states", 0) + n
        ok_any = ok_any or inc
    rep.ob("R-CID-VALIDATOR", "Compose._validate_id:accepts-every-created-id", ok_any, site="productmd/composeinfo.py",
           msg="" if ok_any else "the compose id %r, which create_compose_id can produce, fails the id validator" % w,
           facts={"encoder_language": enc, "validator": pats})


K1_CONSTRUCT = "composeinfo.get_date_type_respin:respin>=10^7-digits"


def r_cid_decode(model, rep, table, tier):
    R, f = decoder_pattern(model)
    Rp = R
    if not R.endswith("$"):
        if R.endswith(".*"):
            Rp = R + "$"      # a trailing greedy '.*' over single-line strings: anchoring does not change the first parse
        else:
            rep.ob("R-CID-DECODE", "get_date_type_respin:pattern", False, site=f.module.site(f.node),
                   msg="decoder pattern %r neither ends in '.*' nor is end-anchored; cannot relate it to the encoder" % R)
            return
    for digits, construct, claim in (("[0-9]{1,7}", "get_date_type_respin:respin<10^7", "respins below 10^7"),
                                     ("[0-9]{8}", K1_CONSTRUCT, "respins of 8 digits")):
        Lp = encoder_grammar(table, digits)
        U = rx.universe([Rp, Lp])
        alpha = single_line(U)
        L = rx.PNFA(Lp, U)
        okL, w, why = rx.self_unambiguous(L, alpha)
        if not okL:
            raise AnalysisError("compose-id oracle grammar is ambiguous (%r: %s)" % (w, why))
        Rn = rx.PNFA(Rp, U)
        if set(Rn.groupnames.values()) != {"date", "type", "respin"}:
            rep.ob("R-CID-DECODE", construct, False, msg="named groups are %s" % sorted(Rn.groupnames.values()))
            continue
        w, why, n = rx.parse_check(Rn, L, alpha)
        rep.extra["states"] = rep.extra.get("states", 0) + n
        if w is not None and why.startswith("INCONCLUSIVE"):
            raise AnalysisError("R-CID-DECODE inconclusive on %r: %s" % (w, why))
        rep.ob("R-CID-DECODE", construct, w is None, site=f.module.site(f.node),
               msg="" if w is None else "for %s the created id (or prefix) %r is decoded differently: %s" % (claim, w, why),
               facts={"decoder": R, "encoder_language": Lp, "product_states": n})


def r_cid_glue(model, rep):
    f = model.function("composeinfo", "get_date_type_respin")
    cx = facts.fctx(model, f)
    rets = [ev for ev in cx.events if ev.kind == "return"]
    # no match -> (None, None, None)
    nomatch = [r for r in rets if r.value == ("tuple", (("const", None),) * 3)]
    rep.ob("R-DECODE-GLUE", "get_date_type_respin:no-match", bool(nomatch), site=cx.site(f.node),
           msg="" if nomatch else "no-match no longer returns (None, None, None)")
    main = [r for r in rets if r not in nomatch]
    # the match object and its three groups, however they are taken (groupdict()[k], group(k), group(a, b, c) unpacked)
    found = applied_regex(model, f)
    groups = {}
    for r in main:
        for x in T.walk(r.raw if r.raw is not None else r.value):
            if x[0] == "call" and x[1][0] == "attr" and x[1][2] == "group" and len(x[2]) == 1 and x[2][0][0] == "const":
                groups.setdefault(x[2][0][1], x)
    if not main or set(groups) != {"date", "type", "respin"} or len(set(g[1][1] for g in groups.values())) != 1:
        rep.ob("R-DECODE-GLUE", "get_date_type_respin:result", False, site=cx.site(f.node), msg="unexpected result shape")
        return
    M = groups["date"][1][1]
    gt, gr, gd_ = groups["type"], groups["respin"], groups["date"]
    r_none = ("cmp", ("is",), (gr, ("const", None)))
    look = ("sub", ("global", "COMPOSE_TYPE_SUFFIXES"), ("sub", gt, ("slice", ("const", 1), None, None)))
    # what is returned in each of the four cases (type suffix present?, respin present?)
    ok_res, ok_respin, ok_type, why = True, True, True, ""
    for has_type in (False, True):
        for respin_none in (False, True):
            sc = facts.Scenario(cx, atoms={M: True, gt: has_type, r_none: respin_none})
            vals = []
            for r in main:
                if sc.holds(r) is False:
                    continue
                v = T.degate(sc.term(r.raw if r.raw is not None else r.value))
                if v not in vals:
                    vals.append(v)
            if len(vals) != 1 or vals[0][0] != "tuple" or len(vals[0][1]) != 3:
                ok_res, why = False, "result for type %s / respin %s is %s" % (
                    "present" if has_type else "missing", "missing" if respin_none else "present", [T.show(v)[:80] for v in vals])
                continue
            d, t, rs = vals[0][1]
            ok_res = ok_res and d == gd_
            want_r = [("call", ("global", "int"), (("const", 0),), ()), ("const", 0)] if respin_none else [("call", ("global", "int"), (gr,), ())]
            if rs not in want_r:
                ok_respin = False
            want_t = look if has_type else ("const", "production")
            if t != want_t:
                ok_type, why = False, "with the type suffix %s the type is decoded as %s" % ("present" if has_type else "missing", T.show(t)[:80])
    rep.ob("R-DECODE-GLUE", "get_date_type_respin:result", ok_res, site=cx.site(f.node),
           msg="" if ok_res else "result is not (groups['date'], <type>, int(<respin>)): %s" % why)
    rep.ob("R-DECODE-GLUE", "get_date_type_respin:missing-respin-is-0", ok_respin, site=cx.site(f.node),
           msg="" if ok_respin else "the respin must be decoded as int(group) and a missing respin as 0")
    rep.ob("R-DECODE-GLUE", "get_date_type_respin:type-decoding", ok_type, site=cx.site(f.node),
           msg="" if ok_type else "type decoding is not: missing -> 'production', else COMPOSE_TYPE_SUFFIXES[suffix without dot]: %s" % why)
    unk = [ev for ev in cx.events if ev.kind == "raise" and ev.value[0] == "call" and ev.value[1] == ("global", "ValueError")
           and any(g[0] == ("exc", "KeyError") for g in ev.guards)]
    rep.ob("R-DECODE-GLUE", "get_date_type_respin:unknown-suffix-refused", bool(unk), site=cx.site(f.node),
           msg="" if unk else "an unknown type suffix no longer raises ValueError")
    # uses .match (anchored at the start)
    found = applied_regex(model, f)
    ok = len(found) == 1 and found[0][2].value[2][-1] == ("param", cx.params[0])
    rep.ob("R-DECODE-GLUE", "get_date_type_respin:applies-pattern-to-argument", ok, site=cx.site(f.node),
           msg="" if ok else "decoder must apply its pattern to its argument")


def r_cid_format(model, rep):
    f = model.own_method("composeinfo.ComposeInfo", "create_compose_id")
    cx = facts.fctx(model, f)
    S = ("param", cx.selfname)
    A = lambda *names: T.attr_chain_term(S, names)
    layered_t = A("release", "is_layered")
    rel = (A("release", "short"), "-", A("release", "version"), A("release", "type_suffix"))
    bpp = ("-", A("base_product", "short"), "-", A("base_product", "version"), A("base_product", "type_suffix"))
    tail = ("-", A("compose", "date"), A("compose", "type_suffix"), ".", A("compose", "respin"))
    res = {}
    for layered in (False, True):
        for hack in (False, True):
            # the documented RHEL-5 hack: every condition other than is_layered guards only that extra part
            vals = facts.value_under(cx, facts.atoms_decider({layered_t: layered}, default=hack), past_refusals=True)
            stored = [x for x in vals if x[0] != "fmt" and T.contains(x, lambda y: y == A("compose", "id"))]
            if stored:
                # the id handed out is (or can be) the one stored earlier: after a respin, a promotion or a version bump it
                # no longer encodes the compose's current date, type and respin
                rep.ob("R-CID-FORMAT", "create_compose_id:computed-from-current-fields", False, site=cx.site(f.node),
                       msg="create_compose_id can return the stored compose.id (%s) instead of the id built from the current "
                           "release, date, type and respin" % ", ".join(T.show(x)[:80] for x in stored))
                return
            if len(vals) != 1 or vals[0][0] != "fmt":
                raise AnalysisError("create_compose_id: cannot evaluate the result for layered=%s hack=%s: %s" % (
                    layered, hack, [T.show(x)[:100] for x in vals]))
            res[(layered, hack)] = list(vals[0][1])
    n_rel = len(T.fmt(*rel)[1])
    n_tail = len(T.fmt(*tail)[1])
    n_bp = len(T.fmt(*bpp)[1])
    ok1 = all(tuple(p[:n_rel]) == T.fmt(*rel)[1] for p in res.values())
    rep.ob("R-CID-FORMAT", "create_compose_id:starts-with-release", ok1, site=cx.site(f.node),
           msg="" if ok1 else "id does not always start with '%s-%s%s' % (release.short, release.version, release.type_suffix)")
    ok2 = all(tuple(p[-n_tail:]) == T.fmt(*tail)[1] for p in res.values())
    rep.ob("R-CID-FORMAT", "create_compose_id:ends-with-date-type-respin", ok2, site=cx.site(f.node),
           msg="" if ok2 else "id does not always end with '-%s%s.%s' % (compose.date, compose.type_suffix, compose.respin)")
    ok3 = all(tuple(res[(True, h)][n_rel:n_rel + n_bp]) == T.fmt(*bpp)[1] for h in (False, True))
    rep.ob("R-CID-FORMAT", "create_compose_id:base-product-part", ok3, site=cx.site(f.node),
           msg="" if ok3 else "layered-product part '-%s-%s%s' % (base_product.short, .version, .type_suffix) must directly follow the release part")
    ok4 = ok3 and all(not any(T.contains(x, lambda y: y == A("base_product", "short")) for x in res[(False, h)][n_rel:]) for h in (False, True))
    rep.ob("R-CID-FORMAT", "create_compose_id:base-product-iff-layered", ok4, site=cx.site(f.node),
           msg="" if ok4 else "base product part must be present exactly when release.is_layered")
    # any other middle part may only be the documented RHEL-5 variant hack
    ok5, others = True, []
    for (layered, hack), p in res.items():
        mid = p[n_rel + (n_bp if layered else 0):len(p) - n_tail]
        if not hack:
            ok5 = ok5 and not mid
        else:
            ok5 = ok5 and (not mid or (len(mid) == 2 and mid[0] == ("const", "-") and T.show(mid[1]).startswith("sorted(self.variants.variants)")))
        if mid:
            others.append("".join(T.show(x) for x in mid))
    rep.ob("R-CID-FORMAT", "create_compose_id:no-other-parts", ok5, site=cx.site(f.node),
           msg="" if ok5 else "unexpected additional id parts: %s" % sorted(set(others)))
    # Release/BaseProduct.type_suffix: '' for ga/None, '-' + lower otherwise
    g = model.own_method("composeinfo.BaseProduct", "type_suffix")
    gcx = facts.fctx(model, g)
    # (case by case, whatever the spelling: one test with 'or', two guard clauses, a conditional expression)
    ty = ("attr", ("param", gcx.selfname), "type")
    low = ("call", ("attr", ty, "lower"), (), ())
    is_ga = ("cmp", ("==",), (low, ("const", "ga")))
    ok = True
    for set_ in (False, True):
        for ga_ in (False, True):
            vals = [T.degate(v) for v in facts.Scenario(gcx, atoms={ty: set_, is_ga: ga_}).returns()]
            want = ("const", "") if (not set_ or ga_) else T.fmt("-", low)
            ok = ok and vals == [want]
    rep.ob("R-BP-SUFFIX", "BaseProduct.type_suffix", ok, site=gcx.site(g.node),
           msg="" if ok else "type_suffix must be '' for ga/unset and '-' + lower-cased type otherwise")
    if "type_suffix" in model.cls("composeinfo.Release").methods:
        rep.ob("R-BP-SUFFIX", "Release.type_suffix(override)", False, msg="Release overrides type_suffix")


def r_legacy_compose(model, rep):
    """the < 0.3 reader derives date/type/respin from the id"""
    f = model.own_method("composeinfo.Compose", "deserialize_0_3")
    cx = facts.fctx(model, f)
    call = None
    for ev in cx.events:
        if ev.kind == "call" and ev.value[1] == ("global", "get_date_type_respin"):
            call = ev.value
    ok = call is not None and len(call[2]) == 1 and cx.self_attr(call[2][0]) in ("id",) or (
        call is not None and T.contains(call[2][0], lambda x: x == ("const", "id")))
    rep.ob("R-LEGACY-COMPOSE", "Compose.deserialize_0_3:decodes-id", bool(ok), site=cx.site(f.node),
           msg="" if ok else "legacy reader no longer derives date/type/respin from the compose id")
    if not ok:
        return
    last = {}
    for ev in cx.events:
        if ev.kind == "store" and cx.self_attr(ev.target) in ("date", "type", "respin"):
            last[cx.self_attr(ev.target)] = ev.value
    want = {"date": ("idx", call, 0), "type": ("idx", call, 1), "respin": ("idx", call, 2)}
    rep.ob("R-LEGACY-COMPOSE", "Compose.deserialize_0_3:field-order", last == want, site=cx.site(f.node),
           msg="" if last == want else "date/type/respin are not bound to the decoder's (date, type, respin) in that order")
    # the id itself is read first
    ids = [ev for ev in cx.events if ev.kind == "store" and cx.self_attr(ev.target) == "id"]
    calls = [ev for ev in cx.events if ev.kind == "call" and ev.value == call]
    ok = bool(ids) and ids[0].seq < calls[0].seq
    rep.ob("R-LEGACY-COMPOSE", "Compose.deserialize_0_3:id-read-first", ok, site=cx.site(f.node),
           msg="" if ok else "the id must be read before it is decoded")


@register("C15")
def check_c15(model, rep, tier):
    rep.explanation = (
        "Encoder and decoder of compose ids are related statically. Tables: the if-ladder of Compose.type_suffix is "
        "extracted as a type->suffix table; it must cover every COMPOSE_TYPES entry, raise otherwise, and for every "
        "suffix the folded decoder table COMPOSE_TYPE_SUFFIXES must map it back (empty suffix <-> decoder default "
        "'production'); every documented suffix is decoded. Languages: the set of ids the encoder can produce "
        "(prefix '-' 8 digits, an encoder suffix, '.' digits) is included in the id validator's language (subset "
        "construction). Decoding: prioritised-automaton proof that for ALL created ids the decoder regex's first "
        "backtracking parse yields the date/type/respin spans of the encoder grammar -- proven for respins below "
        "10^7; for 8-digit respins the analysis finds a counterexample (known finding K1). Glue code of encoder and "
        "decoder is checked on def-use terms.")
    rep.not_decided = []
    rep.assumptions = ["regex -> prioritised NFA translation", "re.match semantics",
                       "release short/version are single-line strings (prefix alphabet = any character but newline)"]
    table = r_suffix_tables(model, rep)
    r_cid_validator(model, rep, table)
    from .validation import r_assert_helpers
    r_assert_helpers(model, rep)      # R-CID-VALIDATOR assumes the helper applies pattern.match (prefix semantics)
    r_cid_decode(model, rep, table, tier)
    r_cid_glue(model, rep)
    r_cid_format(model, rep)
    r_legacy_compose(model, rep)
    # the legacy reader (date, type and respin decoded from the id) runs only when the header's version gate says so
    from .validation import r_version_tuple_fresh
    r_version_tuple_fresh(model, rep)
    r_stateless(model, rep, [model.function("composeinfo", "get_date_type_respin"), model.own_method("composeinfo.ComposeInfo", "create_compose_id"),
                             model.own_method("composeinfo.Compose", "type_suffix"), model.own_method("composeinfo.BaseProduct", "type_suffix")])
    rep.extra["exhaustive"] = True
