# -*- coding: utf-8 -*-
"""
C01 composeinfo, C02 images, C03 rpms/modules/extra-files, C04 treeinfo/discinfo round trips,
C05 legacy versions, C17 [general] section.

All rules compare *tables extracted from the writer* with *tables extracted from the reader* (def-use terms),
or check structural facts about the code that moves data between object and document.
"""
from __future__ import annotations

import ast

from .. import facts
from .. import terms as T
from ..core import AnalysisError
from ..model import FuncRef, NotConst, dotted
from . import register
from .schema import (r_schema, r_fields, r_composite, r_gate, r_hdr_current, r_setcur, current_version, SCHEMA_CLASSES,
                     r_defassign)

FLOORS = dict(SCHEMA_CLASSES)


def P(n):
    return ("param", n)


# ---------------------------------------------------------------------------------------------------------
# shared: the I/O chain
# ---------------------------------------------------------------------------------------------------------
def r_io_chain(model, rep):
    """dumps -> dump -> serialize -> build_file(json.dump);  loads -> load -> parse_file(json.load) -> deserialize"""
    f = model.own_method("common.MetadataBase", "build_file")
    cx = facts.fctx(model, f)
    jd = cx.calls("dump")
    ok = len(jd) == 1 and jd[0].value[1] == ("global", "json.dump") and jd[0].value[2][:2] == (P(cx.params[1]), P(cx.params[2]))
    rep.ob("R-IO-CHAIN", "MetadataBase.build_file", ok, site=cx.site(f.node),
           msg="" if ok else "build_file must json.dump(parser, f, ...) the document it was given")
    f = model.own_method("common.MetadataBase", "parse_file")
    cx = facts.fctx(model, f)
    rets = [ev for ev in cx.events if ev.kind == "return"]
    ok = bool(rets) and not cx.ex.falls_through and all(x[0] == "call" and x[1] == ("global", "json.load") for r_ in rets for x in T.alts(r_.value))
    rep.ob("R-IO-CHAIN", "MetadataBase.parse_file", ok, site=cx.site(f.node),
           msg="" if ok else "parse_file must return json.load(<file>)")
    f = model.own_method("common.MetadataBase", "dump")
    cx = facts.fctx(model, f)
    gp = cx.calls("_get_parser", on_self=True)
    se = cx.calls("serialize", on_self=True)
    bf = cx.calls("build_file", on_self=True)
    ok = bool(gp and se and bf) and se[0].value[2][0] == gp[0].value and bf[0].value[2][0] == gp[0].value
    rep.ob("R-IO-CHAIN", "MetadataBase.dump", ok, site=cx.site(f.node),
           msg="" if ok else "dump must serialise into the object returned by _get_parser() and hand the same object to build_file()")
    f = model.own_method("common.MetadataBase", "dumps")
    cx = facts.fctx(model, f)
    rets = [ev for ev in cx.events if ev.kind == "return"]
    d = cx.calls("dump", on_self=True)
    ok = bool(d) and len(rets) == 1 and rets[0].value[0] == "call" and rets[0].value[1][0] == "attr" and rets[0].value[1][2] == "read" \
        and d[0].value[2][0] == rets[0].value[1][1]
    seek = [ev for ev in cx.calls("seek") if ev.value[2] == (("const", 0),)]
    ok = ok and bool(seek) and d[0].seq < seek[0].seq < rets[0].seq
    rep.ob("R-IO-CHAIN", "MetadataBase.dumps", ok, site=cx.site(f.node),
           msg="" if ok else "dumps must dump into a buffer, rewind it and return its whole content")


# ---------------------------------------------------------------------------------------------------------
# C01 specifics
# ---------------------------------------------------------------------------------------------------------
def collects_all(cx, S, term, attr):
    """``term`` denotes the collection { child.<attr> : child in all children of self }: one unconditional generator over the
    ids of self.variants (or of self), child = self.variants[id] -- a comprehension or a local filled by .add/.append in a loop"""
    all_ids = (S, ("attr", S, "variants"))
    all_ids = all_ids + tuple(("call", ("global", w), (x,), ()) for w in ("sorted", "list") for x in all_ids)
    for c in facts.collections_of(cx, term):
        if len(c.gens) == 1 and not c.conds and c.its[0] in all_ids \
                and c.elt in (("attr", ("sub", ("attr", S, "variants"), c.els[0]), attr), ("attr", ("sub", S, c.els[0]), attr)):
            return True
    return False


def r_variant_tree(model, rep):
    # (i) writer: the 'variants' list is exactly the ids of the children that were serialised
    f = model.own_method("composeinfo.Variant", "serialize")
    cx, emits = facts.writer_emits(model, f)
    S = P(cx.selfname)
    ve = [e for e in emits if e.path and e.path[-1] == ("const", "variants")]
    ok, msg = len(ve) == 1, "no 'variants' child-id list is emitted"
    if ok:
        v = ve[0].value
        ok = v[0] == "call" and v[1] == ("global", "sorted") and len(v[2]) == 1 and not v[3] and v[2][0][0] == "local"
        msg = "child ids are not emitted as sorted(<collected ids>)"
        if ok:
            loc = v[2][0]
            ok = collects_all(cx, S, loc, "id")
            msg = "the id list is not collected from all children (every variant.id of self.variants.values())"
            if ok:
                g = [x for x in facts.non_gate_guards(ve[0].ev)]
                ok = len(g) == 1 and g[0][1] and g[0][0][0] == "local" and T.same_local(g[0][0], loc)
                msg = "the 'variants' key must be present exactly when there are children"
    rep.ob("R-VARIANT-TREE", "Variant.serialize:child-id-list", ok, site=cx.site(f.node), msg="" if ok else msg)
    # children are written into the same flat mapping as the parent
    sers = [ev for ev in cx.events if ev.kind == "call" and ev.value[1][0] == "attr" and ev.value[1][2] == "serialize" and ev.loops
            and T.contains(ev.value[1][1], lambda x: x[0] == "elem")]
    ok = bool(sers) and sers[0].value[2] == (P(cx.params[1]),)
    rep.ob("R-VARIANT-TREE", "Variant.serialize:children-in-flat-mapping", ok, site=cx.site(f.node),
           msg="" if ok else "child variants must be serialised into the same UID-keyed mapping as their parent")
    att = [ev for ev in cx.events if ev.kind == "call" and ev.value[1] == ("attr", P(cx.params[1]), "setdefault")]
    ok = len(att) == 1 and att[0].value[2][0] == ("attr", S, "uid") and not T.guard_tests(att[0])
    rep.ob("R-VARIANT-TREE", "Variant.serialize:stored-under-uid", ok, site=cx.site(f.node),
           msg="" if ok else "a variant must be stored under its own uid")
    # (ii) reader: children
    f = model.own_method("composeinfo.Variant", "deserialize")
    cx = facts.fctx(model, f)
    S = P(cx.selfname)
    V = current_version(model)
    full = P(cx.params[1])
    dat = ("sub", full, P(cx.params[2]))
    adds = [ev for ev in cx.events if ev.kind == "call" and ev.value[1] == ("attr", S, "add") and ev.loops and facts.active_at(ev, V)]
    ok, msg = len(adds) == 1, "children are not attached through self.add() in a loop"
    if ok:
        ad = adds[0]
        child = ad.value[2][0]
        it = ad.loops[-1][1]
        elem = ("elem", it, ad.loops[-1][0])
        des = [ev for ev in cx.events if ev.kind == "call" and ev.value[1] == ("attr", child, "deserialize") and ev.loops == ad.loops]
        par = [ev for ev in cx.events if ev.kind == "store" and ev.target == ("attr", child, "parent") and ev.loops == ad.loops]
        ok = len(des) == 1 and len(par) == 1 and par[0].value == S and par[0].seq < des[0].seq < ad.seq \
            and des[0].value[2] == (full, elem) and not T.guard_tests(ad) and not T.guard_tests(des[0])
        msg = "for each child: parent must be set to self before child.deserialize(full mapping, child uid), then self.add(child)"
        if ok:
            # the uid list: '%s-%s' % (self.uid, i) for i in sorted(data['variants']), when the key is present
            ok = False
            for a in T.alts(it):
                for c in facts.collections_of(cx, a):
                    if c.kind == "list" and len(c.gens) == 1 and not c.conds and c.elt == T.fmt(("attr", S, "uid"), "-", c.els[0]) \
                            and c.its[0] == ("call", ("global", "sorted"), (("sub", dat, ("const", "variants")),), ()):
                        ok = True
            msg = "child UIDs are not built as '%s-%s' % (self.uid, id) for id in sorted(data['variants'])"
            if ok:
                # ... and the list is looked for under the key it is read from
                rd_ = ("sub", dat, ("const", "variants"))
                users = [ev for ev in cx.events if ev.kind in ("bind", "call") and ev.value is not None and T.contains(ev.value, lambda x: x == rd_)]
                probes = [facts.canon_guard_pair(g_) for ev in users for g_ in ev.guards
                          if g_[0][0] == "cmp" and len(g_[0][1]) == 1 and g_[0][1][0] in ("in", "not in") and g_[0][2][1] == dat and g_[0][2][0][0] == "const"]
                ok = bool(users) and bool(probes) and all(p_[1] and p_[0][2][0] == ("const", "variants") for p_ in probes)
                msg = "the 'variants' list is read under a probe for another key: children are never found"
    rep.ob("R-VARIANT-TREE", "Variant.deserialize:children", ok, site=cx.site(f.node), msg="" if ok else msg)
    # paths and layered-product release are read from the variant's own entry
    pd = [ev for ev in cx.events if ev.kind == "call" and ev.value[1] == ("attr", ("attr", S, "paths"), "deserialize")]
    ok = len(pd) == 1 and pd[0].value[2] == (("sub", dat, ("const", "paths")),) and not T.guard_tests(pd[0])
    rep.ob("R-VARIANT-TREE", "Variant.deserialize:paths", ok, site=cx.site(f.node),
           msg="" if ok else "paths must be read from data[uid]['paths'] unconditionally")
    rd = [ev for ev in cx.events if ev.kind == "call" and ev.value[1] == ("attr", ("attr", S, "release"), "deserialize")]
    wantg = (("cmp", ("==",), (("attr", S, "type"), ("const", "layered-product"))), True)
    ok = len(rd) == 1 and rd[0].value[2] == (dat,) and list(rd[0].guards) == [wantg]
    rep.ob("R-VARIANT-TREE", "Variant.deserialize:layered-release", ok, site=cx.site(f.node),
           msg="" if ok else "the layered-product release must be read from the variant's entry exactly when type == 'layered-product' (as written)")
    # (iii)/(iv) top level
    f = model.own_method("composeinfo.Variants", "deserialize")
    cx = facts.fctx(model, f)
    S = P(cx.selfname)
    sec = ("sub", P(cx.params[1]), ("attr", S, "_section"))
    # the top-level entries are those whose UID is not '<uid of some entry>-<one of its children>'
    app = [ev for ev in cx.events if ev.kind == "call" and ev.value[1][0] == "attr" and ev.value[1][2] == "append"
           and facts.active_at(ev, V) and ev.loops]
    ok, msg = len(app) == 1, "top-level variant selection changed"
    comp_form = None
    if not app:
        # the selection spelled as a comprehension (or a loop that does nothing but collect, which reads as one): the list the
        # variants are then created from
        mk = [ev for ev in cx.events if ev.kind == "call" and ev.value[1] == ("attr", S, "add") and ev.loops]
        if len(mk) == 1:
            it = T.unwrap(mk[0].loops[-1][1])
            while it[0] == "call" and it[1] in (("global", "sorted"), ("global", "list")) and len(it[2]) == 1:
                it = T.unwrap(it[2][0])
            if it[0] == "comp" and it[1] in ("list", "gen") and len(it[3]) == 1 and it[3][0][1] == sec:
                comp_form = it
    if comp_form is not None:
        var = ("bound", comp_form[3][0][0][1])
        conds = []
        for c in comp_form[3][0][2]:
            c = facts.simplify_at_version(c, V)
            if c[0] == "const" and c[1]:
                continue
            conds.append(facts.canon_guard_pair((c, True)))
        ok = comp_form[2] == var and len(conds) == 1 and not conds[0][1] and conds[0][0][0] == "cmp" and conds[0][0][1] == ("in",) \
            and conds[0][0][2][0] == var
        msg = "top-level variants must be exactly the entries whose UID is not a collected child UID"
        if ok:
            cset = conds[0][0][2][1]
            ok = False
            msg = "child UIDs must be collected as '%s-%s' % (entry['uid'], child) over every entry's 'variants' list"
            for c in facts.collections_of(cx, cset):
                if len(c.gens) == 2 and not c.conds and c.its[0] == sec:
                    var2 = ("sub", sec, c.els[0])
                    if c.its[1] == ("call", ("attr", var2, "get"), (("const", "variants"), ("list", ())), ()) \
                            and c.elt == T.fmt(("sub", var2, ("const", "uid")), "-", c.els[1]):
                        ok = True
    elif ok:
        # (a condition that is itself chosen by the format version - a predicate helper with a legacy branch - is what it says
        # for the current version)
        ng = facts.guards_at_version(app[0], V) or []
        uid = app[0].value[2][0]
        ngc = [facts.canon_guard_pair(g) for g in ng]      # (``if uid in children: continue`` and ``if uid not in children:`` alike)
        if not ngc:
            # the selection spelled as "skip, else append": the append happens when no skip of the current version was taken
            conts = [c for c in cx.events if c.kind == "continue" and c.loops == app[0].loops and c.seq < app[0].seq and facts.active_at(c, V)]
            if len(conts) == 1:
                cg = facts.non_gate_guards(conts[0])
                if len(cg) == 1:
                    t_, p_ = facts.canon_guard_pair(cg[0])
                    ngc = [(t_, not p_)]
        ok = len(ngc) == 1 and not ngc[0][1] and ngc[0][0][0] == "cmp" and ngc[0][0][1] == ("in",) and ngc[0][0][2][0] == uid \
            and app[0].loops[-1][1] == sec and uid == ("elem", sec, app[0].loops[-1][0])
        msg = "top-level variants must be exactly the entries whose UID is not a collected child UID"
        if ok:
            cset = ngc[0][0][2][1]
            ok = False
            msg = "child UIDs must be collected as '%s-%s' % (entry['uid'], child) over every entry's 'variants' list"
            for c in facts.collections_of(cx, cset):
                if len(c.gens) == 2 and not c.conds and c.its[0] == sec:
                    var = ("sub", sec, c.els[0])
                    if c.its[1] == ("call", ("attr", var, "get"), (("const", "variants"), ("list", ())), ()) \
                            and c.elt == T.fmt(("sub", var, ("const", "uid")), "-", c.els[1]):
                        ok = True
    rep.ob("R-VARIANT-TREE", "Variants.deserialize:top-level-detection", ok, site=cx.site(f.node), msg="" if ok else msg)
    adds = [ev for ev in cx.events if ev.kind == "call" and ev.value[1] == ("attr", S, "add") and ev.loops]
    ok = len(adds) == 1
    if ok:
        ad = adds[0]
        child = ad.value[2][0]
        des = [ev for ev in cx.events if ev.kind == "call" and ev.value[1] == ("attr", child, "deserialize") and ev.loops == ad.loops]
        ok = len(des) == 1 and des[0].value[2] == (sec, ("elem", ad.loops[-1][1], ad.loops[-1][0])) and des[0].seq < ad.seq \
            and not T.guard_tests(ad) and not T.guard_tests(des[0]) and len(ad.value[2]) == 1
    rep.ob("R-VARIANT-TREE", "Variants.deserialize:attach", ok, site=cx.site(f.node),
           msg="" if ok else "each top-level variant must be deserialised from the 'variants' section under its uid and attached with self.add()")
    # writer side of the container
    f = model.own_method("composeinfo.Variants", "serialize")
    cx, emits = facts.writer_emits(model, f)
    n = [e for e in emits if e.kind == "nested"]
    ok = len(n) == 1 and [T.show(p) for p in n[0].path] == ["'variants'"]
    rep.ob("R-VARIANT-TREE", "Variants.serialize:section", ok, site=cx.site(f.node),
           msg="" if ok else "top-level variants must be serialised into the 'variants' section")


DOC_PATH_CATEGORIES = ["os_tree", "packages", "repository", "isos", "images", "jigdos", "source_tree", "source_packages",
                       "source_repository", "source_isos", "source_jigdos", "debug_tree", "debug_packages", "debug_repository"]


def r_paths(model, rep):
    cls = model.cls("composeinfo.VariantPaths")
    fields = model.class_attr_const(cls, "_fields")
    ok = list(fields) == DOC_PATH_CATEGORIES
    rep.ob("R-PATHS", "VariantPaths._fields", ok, site=cls.module.site(cls.node),
           msg="" if ok else "path categories are %s, documented: %s" % (fields, DOC_PATH_CATEGORIES))
    # writer
    f = model.own_method("composeinfo.VariantPaths", "serialize")
    cx, emits = facts.writer_emits(model, f)
    S = P(cx.selfname)
    arches = ("call", ("global", "sorted"), (("attr", ("attr", S, "_variant"), "arches"),), ())
    st = [e for e in emits if e.kind == "store"]
    ok, msg = len(st) == 1, "expected exactly one path store"
    if ok:
        e = st[0]
        fields_it = ("attr", S, "_fields")
        la = [l for l in e.loops if l[1] == arches]
        lf = [l for l in e.loops if l[1] == fields_it]
        ok = len(e.loops) == 2 and len(la) == 1 and len(lf) == 1
        msg = "the writer must iterate sorted(variant.arches) x self._fields"
        if ok:
            arch = ("elem", la[0][1], la[0][0])
            name = ("elem", lf[0][1], lf[0][0])
            val = ("call", ("attr", ("call", ("global", "getattr"), (S, name), ()), "get"), (arch, ("const", None)), ())
            ok = e.path == [name, arch] and e.value == val and facts.canon_guards(e.guards) == frozenset([facts.canon_guard((val, True))])
            msg = "paths must be written as out[category][arch] = getattr(self, category).get(arch), skipping empty values only"
    rep.ob("R-PATHS", "VariantPaths.serialize", ok, site=cx.site(f.node), msg="" if ok else msg)
    # reader
    f = model.own_method("composeinfo.VariantPaths", "deserialize")
    cx = facts.fctx(model, f)
    S = P(cx.selfname)
    IN = P(cx.params[1])
    st = [ev for ev in cx.events if ev.kind == "store"]
    ok, msg = len(st) == 1, "expected exactly one path store"
    if ok:
        e = st[0]
        arches = ("call", ("global", "sorted"), (("attr", ("attr", S, "_variant"), "arches"),), ())
        la = [l for l in e.loops if l[1] == arches]
        lf = [l for l in e.loops if l[1] == ("attr", S, "_fields")]
        ok = len(e.loops) == 2 and len(la) == 1 and len(lf) == 1
        msg = "the reader must iterate sorted(variant.arches) x self._fields"
        if ok:
            arch = ("elem", la[0][1], la[0][0])
            name = ("elem", lf[0][1], lf[0][0])
            val = ("call", ("attr", ("call", ("attr", IN, "get"), (name, ("dict", ())), ()), "get"), (arch, ("const", None)), ())
            ok = e.target == ("sub", ("call", ("global", "getattr"), (S, name), ()), arch) and e.value == val \
                and facts.canon_guards(e.guards) == frozenset([facts.canon_guard((val, True))])
            msg = "paths must be read as getattr(self, category)[arch] = doc.get(category, {}).get(arch), skipping empty values only"
    rep.ob("R-PATHS", "VariantPaths.deserialize", ok, site=cx.site(f.node), msg="" if ok else msg)


@register("C01")
def check_c01(model, rep, tier):
    from .forest import r_uid_format
    rep.explanation = (
        "Writer/reader agreement for composeinfo, decided on def-use terms extracted from serialize()/deserialize(): for "
        "each section class the table (section, key) -> attribute written equals the table read by the reader branch "
        "selected for the current VERSION; conditionally written keys are read softly with the attribute's initial "
        "value as default; every (writer transform, reader transform) pair is in the table of confirmed inverse pairs; "
        "every public attribute is emitted; the composite writer and reader visit the same children under the same "
        "conditions and in a legal order; the variant tree is flattened and rebuilt with the same child-UID formula "
        "(writer id list = serialised children; reader sets parent before reading the child, attaches with add(); "
        "top-level = not a collected child UID); the 14 documented path categories are written and read by symmetric "
        "loops; the dump/load call chain reaches json.dump/json.load. Not decided: value equality after reload and byte "
        "equality (they follow from these clauses plus C08, but are not themselves computed).")
    rep.not_decided = ["value equality after reload", "byte equality of the second dump"]
    rep.assumptions = ["validated values are JSON-native (str/int/bool/None, lists and dicts of them)"]
    for q in ("common.Header", "composeinfo.Compose", "composeinfo.BaseProduct", "composeinfo.Release", "composeinfo.Variant"):
        r_schema(model, rep, q, FLOORS[q])
        r_fields(model, rep, q)
    r_composite(model, rep, "composeinfo.ComposeInfo", ["header", "compose", "release", "base_product", "variants"])
    r_doc_sections(model, rep, [q for q in sorted(DOC_SECTIONS) if q.startswith(("common.", "composeinfo."))])
    r_variant_tree(model, rep)
    r_uid_format(model, rep)
    r_paths(model, rep)
    r_io_chain(model, rep)
    # the forest that is written is the one add() built: a refused add() that leaves a trace (an id claimed in a container, a
    # child taken from its previous parent) makes dump() write child lists without entries, which load() cannot read
    from .forest import builder_refs as _brefs
    from .atomic import check_atomic as _catomic
    from .validation import _install_validate_summary as _ivs
    _ivs(model)
    _catomic(model, rep, "R-ADD-ATOMIC", model.own_method("composeinfo.VariantBase", "add"), _brefs(model))
    rep.floor("R-SCHEMA", 60)


# ---------------------------------------------------------------------------------------------------------
# C02
# ---------------------------------------------------------------------------------------------------------
def r_cells(model, rep):
    f = model.own_method("images.Images", "serialize")
    cx, emits = facts.writer_emits(model, f)
    S = P(cx.selfname)
    n = [e for e in emits if e.kind == "nested" and e.loops]
    ok, msg = len(n) == 1, "no per-image serialize() call"
    if ok:
        e = n[0]
        ok = len(e.loops) == 3 and len(e.path) == 4
        msg = "images must be written by three nested loops (variant, arch, image)"
        if ok:
            im = ("attr", S, "images")
            vkey, akey = T.norm_items(e.path[2]), T.norm_items(e.path[3])
            its = [T.norm_items(l[1]) for l in e.loops]

            def draws_key(key, container):
                if key[0] == "elem" and T.norm_items(key[1]) == container:
                    return True
                if key[0] == "idx" and key[2] == 0 and key[1][0] == "elem":
                    src = key[1][1]
                    return (src[0] == "call" and src[1][0] == "attr" and src[1][2] in ("items", "iteritems") and T.norm_items(src[1][1]) == container) \
                        or (src[0] == "call" and src[1] == ("global", "six.iteritems") and T.norm_items(src[2][0]) == container)
                return False
            cell = ("sub", ("sub", im, vkey), akey)
            recv = e.value[1][1]
            ok = e.path[:2] == [("const", "payload"), ("const", "images")] and draws_key(vkey, im) and draws_key(akey, ("sub", im, vkey)) \
                and its[2] == cell and recv == ("elem", e.loops[2][1], e.loops[2][0]) and e.value[1][2] == "serialize" \
                and not T.guard_tests(e.ev)
            msg = "every image of self.images[variant][arch] must be serialised into payload/images/<same variant>/<same arch>"
    rep.ob("R-CELLS", "Images.serialize:cells", ok, site=cx.site(f.node), msg="" if ok else msg)
    # a (variant, arch) entry appears in the output only together with an image: the reader creates cells only by adding
    # images, so an empty list written for an empty cell (left behind by a refused add, say) is gone after a reload and the
    # second dump differs
    empties = [e for e in emits if e.kind == "store" and len(e.path) == 4 and e.path[:2] == [("const", "payload"), ("const", "images")]
               and len(e.loops) < 3 and not any(T.contains(g[0], lambda x: x[0] == "sub" and T.contains(x, lambda y: y == ("attr", S, "images")))
                                                for g in e.ev.guards)]
    # (the same creation spelled d.setdefault(variant, {}).setdefault(arch, []) outside the image loop)
    def sd_depth(t):
        """number of keys below payload/images a chain of [k] / .setdefault(k, ...) creates or reaches"""
        if t[0] == "call" and t[1][0] == "attr" and t[1][2] == "setdefault" and len(t[2]) >= 1:
            d = sd_depth(t[1][1])
            return None if d is None else d + 1
        if t[0] == "sub":
            if t == ("sub", ("sub", t[1][1], ("const", "payload")), ("const", "images")) and t[1][0] == "sub" and t[1][1][0] == "param":
                return 0
            d = sd_depth(t[1])
            return None if d is None else d + 1
        return None
    class _E(object):
        pass
    for ev in cx.events:
        if ev.kind == "call" and len(ev.loops) < 3 and ev.value[0] == "call" and ev.value[1][0] == "attr" and ev.value[1][2] == "setdefault" \
                and sd_depth(ev.value) == 2 and not any(
                    T.contains(g[0], lambda x: x[0] == "sub" and T.contains(x, lambda y: y == ("attr", S, "images"))) for g in ev.guards):
            e_ = _E()
            e_.ev = ev
            empties.append(e_)
    rep.ob("R-CELLS", "Images.serialize:no-empty-cells", not empties, site=cx.site(empties[0].ev.lineno if empties else f.node),
           msg="" if not empties else "payload/images/<variant>/<arch> is created once per cell, images or not: an empty cell is written "
                                      "as [] but not re-created on load")
    lids = set(l[0] for e in n for l in e.loops)
    bad = [ev for ev in cx.events if ev.kind in ("break", "continue", "return") and set(l[0] for l in ev.loops) & lids]
    rep.ob("R-CELLS", "Images.serialize:no-early-exit", not bad, site=cx.site(f.node),
           msg="" if not bad else "%s inside the image loops (line %s)" % (bad[0].kind, bad[0].lineno))
    # Image.serialize appends exactly one dict on every normal path
    g = model.own_method("images.Image", "serialize")
    gcx = facts.fctx(model, g)
    app = [ev for ev in gcx.events if ev.kind == "call" and ev.value[1] == ("attr", P(gcx.params[1]), "append")]
    rets = [ev for ev in gcx.events if ev.kind == "return"]
    ok = len(app) == 1 and not app[0].guards and not app[0].loops and not rets and app[0].value[2][0][0] == "local"
    rep.ob("R-CELLS", "Image.serialize:one-record", ok, site=gcx.site(g.node),
           msg="" if ok else "Image.serialize must append exactly one record on every path")
    # reader
    f = model.own_method("images.Images", "deserialize")
    cx = facts.fctx(model, f)
    S = P(cx.selfname)
    V = current_version(model)
    IN = P(cx.params[1])
    adds = [ev for ev in cx.events if ev.kind == "call" and ev.value[1] == ("attr", S, "add") and facts.active_at(ev, V)]
    ok, msg = len(adds) == 1, "expected one self.add() for the current version"
    if ok:
        ad = adds[0]
        tab = ("sub", ("sub", IN, ("const", "payload")), ("const", "images"))
        ok = len(ad.loops) == 3 and len(ad.value[2]) >= 3
        msg = "images must be read by three nested loops"
        if ok:
            # both loop idioms are accepted:  for k in T / for k, v in T.items()   (v is rewritten to T[k])
            vkey, akey, img = [T.norm_items(x) for x in ad.value[2][:3]]
            its = [T.norm_items(l[1]) for l in ad.loops]

            def draws_key(key, it, container):
                # key is the element of a loop over <container> or the key component of a loop over <container>.items()
                if key[0] == "elem" and T.norm_items(key[1]) == container:
                    return True
                if key[0] == "idx" and key[2] == 0 and key[1][0] == "elem":
                    src = key[1][1]
                    return (src[0] == "call" and src[1][0] == "attr" and src[1][2] in ("items", "iteritems") and T.norm_items(src[1][1]) == container) \
                        or (src[0] == "call" and src[1] == ("global", "six.iteritems") and T.norm_items(src[2][0]) == container)
                return False
            cell = ("sub", ("sub", tab, vkey), akey)
            # conditions that mention the version are evaluated at the current version: nothing may remain
            sc = facts.at_version(cx, V)
            ok = draws_key(vkey, its[0], tab) and draws_key(akey, its[1], ("sub", tab, vkey)) and its[2] == cell \
                and all(sc.truth(g[0]) is g[1] for g in facts.non_gate_guards(ad))
            msg = "every record of payload/images/<variant>/<arch> must be filed with add(<same variant>, <same arch>, image)"
            if ok:
                i = ("elem", ad.loops[2][1], ad.loops[2][0])
                des = [ev for ev in cx.events if ev.kind == "call" and ev.value[1][0] == "attr" and ev.value[1][2] == "deserialize"
                       and ev.value[1][1] == ad.value[2][2] and ev.loops == ad.loops]
                ok = len(des) == 1 and des[0].value[2] == (i,) and des[0].seq < ad.seq and not T.guard_tests(des[0]) \
                    and T.unwrap(ad.value[2][2]) == ("call", ("global", "Image"), (S,), ())
                msg = "each record must be turned into Image(self), deserialised from the record, then added"
    rep.ob("R-CELLS", "Images.deserialize:cells", ok, site=cx.site(f.node), msg="" if ok else msg)
    lids = set(l[0] for ev in adds for l in ev.loops)
    bad = [ev for ev in cx.events if ev.kind in ("break", "continue", "return") and set(l[0] for l in ev.loops) & lids]
    rep.ob("R-CELLS", "Images.deserialize:no-early-exit", not bad, site=cx.site(f.node),
           msg="" if not bad else "%s inside the image loops (line %s)" % (bad[0].kind, bad[0].lineno))


MANIFEST_STATE = {
    "images.Images": {"header", "compose", "images"},
    "rpms.Rpms": {"header", "compose", "rpms"},
    "modules.Modules": {"header", "compose", "modules"},
    "extra_files.ExtraFiles": {"header", "compose", "extra_files"},
}


def r_no_hidden_state(model, rep, classes):
    """the public mapping is the whole state of a manifest object: no other instance attribute is ever assigned (a cache or
    index that shadows part of the table goes stale when the table is replaced on load or edited through __delitem__)"""
    for q in classes:
        cls = model.cls(q)
        assigned = {}
        for name, fn in cls.methods.items():
            if not fn.args.args:
                continue
            selfname = fn.args.args[0].arg
            for node in ast.walk(fn):
                targets = []
                if isinstance(node, ast.Assign):
                    targets = node.targets
                elif isinstance(node, (ast.AugAssign, ast.AnnAssign)):
                    targets = [node.target]
                for t in targets:
                    for tt in ast.walk(t):
                        if isinstance(tt, ast.Attribute) and isinstance(tt.value, ast.Name) and tt.value.id == selfname and isinstance(tt.ctx, ast.Store):
                            assigned.setdefault(tt.attr, "%s (line %s)" % (name, node.lineno))
                if isinstance(node, ast.Call) and dotted(node.func) == "setattr" and node.args and isinstance(node.args[0], ast.Name) and node.args[0].id == selfname:
                    assigned.setdefault("<setattr>", "%s (line %s)" % (name, node.lineno))
        extra = sorted(set(assigned) - MANIFEST_STATE[q])
        rep.ob("R-NO-HIDDEN-STATE", q, not extra, site=cls.module.site(cls.node),
               msg="" if not extra else "%s keeps state besides %s: %s" % (q, sorted(MANIFEST_STATE[q]), ", ".join("%s assigned in %s" % (a, assigned[a]) for a in extra)),
               facts={"attributes": sorted(assigned)})


@register("C02")
def check_c02(model, rep, tier):
    rep.explanation = (
        "Writer/reader agreement for image manifests on def-use terms: the 15-attribute table of Image.serialize equals the "
        "table of Image.deserialize (same key, same attribute, inverse transforms, conditional keys unified/"
        "additional_variants read softly with the __init__ defaults); every public attribute is emitted; Images.serialize "
        "writes every image of every (variant, arch) cell into the list stored under the same loop variables, with no "
        "filter or early exit, and Image.serialize appends exactly one record; Images.deserialize turns every record into "
        "an Image and files it with add() under the unchanged loop variables; header and compose section are written and "
        "read unconditionally. Not decided: value equality.")
    rep.not_decided = ["value equality after reload", "byte equality of the second dump"]
    # a writer that keeps state on the object (a cached record, say) writes that state, not the object: decided first, because
    # the table extraction below presupposes that serialize() emits the fields it reads
    from .canonical import r_writer_pure
    r_writer_pure(model, rep, only=("images.Image.", "images.Images."))
    if rep.failed():
        rep.note("the writer/reader table rules were not evaluated: the writer is not a pure function of the object")
        return
    r_schema(model, rep, "images.Image", FLOORS["images.Image"])
    r_fields(model, rep, "images.Image")
    for q in ("common.Header", "composeinfo.Compose"):
        r_schema(model, rep, q, FLOORS[q])
    r_composite(model, rep, "images.Images", ["header", "compose"])
    r_cells(model, rep)
    # "writing the re-read manifest reproduces the file byte for byte": the position of an image in its cell's list must not
    # depend on set iteration order; "no image gained or lost ... the same image object filed under several cells": what add()
    # files is the image it was given
    from .canonical import r_cell_order
    from .sources import r_add_insertion, r_identity_hash, r_fresh_enforces
    r_cell_order(model, rep)
    r_add_insertion(model, rep)
    r_fresh_enforces(model, rep, tier)     # "every image the library agrees to write is read back": what add() accepts on a new manifest loads again
    r_identity_hash(model, rep)      # cells are sets of Image objects: value-based equality would merge distinct images
    r_no_hidden_state(model, rep, ["images.Images"])
    r_io_chain(model, rep)


# ---------------------------------------------------------------------------------------------------------
# C03
# ---------------------------------------------------------------------------------------------------------
def r_payload_verbatim(model, rep):
    V = current_version(model)
    for q, key in (("rpms.Rpms", "rpms"), ("modules.Modules", "modules"), ("extra_files.ExtraFiles", "extra_files")):
        f = model.own_method(q, "serialize")
        cx, emits = facts.writer_emits(model, f)
        w = [e for e in emits if e.kind == "store" and [T.show(p) for p in e.path] == ["'payload'", "'%s'" % key]]
        ok = bool(w) and cx.self_attr(w[-1].value) == key and not w[-1].guards and not w[-1].loops
        rep.ob("R-PAYLOAD", "%s.serialize" % q, ok, site=cx.site(f.node),
               msg="" if ok else "payload[%r] must be written from self.%s unchanged" % (key, key))
        other = [e for e in emits if e.kind == "store" and len(e.path) == 2 and e.path[0] == ("const", "payload") and e.path[1] != ("const", key)]
        rep.ob("R-PAYLOAD", "%s.serialize:no-other-tables" % q, not other, site=cx.site(f.node),
               msg="" if not other else "unexpected payload keys %s" % [T.show(e.path[1]) for e in other])
        g = model.own_method(q, "deserialize")
        reads = facts.reader_reads(model, g, version=V)
        r = [x for x in reads if x.attr == key]
        ok = len(r) == 1 and len(r[0].sources) == 1 and r[0].sources[0][1] == "hard" \
            and [T.show(p) for p in r[0].sources[0][0]] == ["'payload'", "'%s'" % key] and r[0].value == r[0].sources[0][3] \
            and not r[0].guards and not r[0].loops
        rep.ob("R-PAYLOAD", "%s.deserialize" % q, ok, site="%s:%s" % (g.module.rel(), g.node.lineno),
               msg="" if ok else "self.%s must be read back from payload[%r] unchanged by the current-version reader" % (key, key))
        # nothing rewrites the table (or the document it came from) in place
        gcx = facts.fctx(model, g)
        touched = []
        inl = [g] + ([model.own_method(q, "deserialize_1_0")] if "deserialize_1_0" in model.cls(q).methods else [])
        for h in inl:
            hcx = facts.fctx(model, h)
            for ev in hcx.events:
                tgt = None
                if ev.kind in ("store", "del") and ev.target is not None and hcx.self_attr(ev.target) != key:
                    tgt = ev.target
                elif ev.kind == "call" and ev.value[1][0] == "attr" and ev.value[1][2] in (
                        "update", "pop", "setdefault", "clear", "append", "extend", "remove", "sort", "popitem", "insert"):
                    tgt = ev.value[1][1]
                if tgt is not None and (T.contains(tgt, lambda x: hcx.self_attr(x) == key) or T.contains(tgt, lambda x: x == ("param", hcx.params[1]) if len(hcx.params) > 1 else False)):
                    touched.append("line %s: %s" % (ev.lineno, T.show(tgt)[:80]))
        rep.ob("R-PAYLOAD", "%s.deserialize:no-in-place-rewrite" % q, not touched, site=gcx.site(g.node),
               msg="" if not touched else "the current-version reader rewrites the payload in place (%s): the re-read mapping differs from what was written" % "; ".join(touched[:3]))
        wt = []
        for ev in cx.events:
            tgt = None
            if ev.kind in ("store", "del") and ev.target is not None and T.contains(ev.target, lambda x: cx.self_attr(x) == key):
                tgt = ev.target
            elif ev.kind == "call" and ev.value[1][0] == "attr" and ev.value[1][2] in ("update", "pop", "setdefault", "clear", "append", "extend", "remove", "sort", "popitem", "insert") \
                    and T.contains(ev.value[1][1], lambda x: cx.self_attr(x) == key):
                tgt = ev.value[1][1]
            if tgt is not None:
                wt.append("line %s: %s" % (ev.lineno, T.show(tgt)[:80]))
        rep.ob("R-PAYLOAD", "%s.serialize:no-in-place-rewrite" % q, not wt, site=cx.site(f.node),
               msg="" if not wt else "the writer modifies the payload table (%s)" % "; ".join(wt[:3]))
        later = [x for x in reads if x.attr == key and x is not (r[0] if r else None)]
        rep.ob("R-PAYLOAD", "%s.deserialize:single-assignment" % q, not later, site=gcx.site(g.node),
               msg="" if not later else "self.%s is assigned more than once by the current-version reader" % key)
        # the returned document is the one that was filled
        rets = [ev for ev in cx.events if ev.kind == "return"]
        ok = all(ev.value == P(cx.params[1]) for ev in rets)
        rep.ob("R-PAYLOAD", "%s.serialize:returns-document" % q, ok, trivial=True, site=cx.site(f.node))


@register("C03")
def check_c03(model, rep, tier):
    rep.explanation = (
        "For rpms, modules and extra-files manifests the payload table is stored and restored verbatim: decided on def-use "
        "terms that serialize() writes data['payload'][k] = self.<k> (last store, unconditional, no transform) and the "
        "reader branch selected for the current VERSION assigns self.<k> = data['payload'][k] exactly once with a hard "
        "access and no transform, for k in {rpms, modules, extra_files}; header and compose section are written and read "
        "unconditionally by the composite writer/reader; the compose section and header tables agree (R-SCHEMA); neither "
        "side rewrites the table in place. That the mapping produced by add() has the documented layout is C12's business "
        "(R-KEYS) and is not re-evaluated here. A transform or key change on one side is the only way these three can fail to "
        "round-trip. Not decided: JSON fidelity of caller-supplied leaf values (size, koji_tag, ...).")
    rep.not_decided = ["JSON fidelity of caller-supplied leaf values", "byte equality (follows with C08)"]
    r_payload_verbatim(model, rep)
    for q in ("rpms.Rpms", "modules.Modules", "extra_files.ExtraFiles"):
        r_composite(model, rep, q, ["header", "compose"])
    for q in ("common.Header", "composeinfo.Compose"):
        r_schema(model, rep, q, FLOORS[q])
    r_no_hidden_state(model, rep, ["rpms.Rpms", "modules.Modules", "extra_files.ExtraFiles"])
    r_io_chain(model, rep)
    # "a manifest built through the library's add operations is read back as ... every RPM under its source package with its path,
    # signing key and category; every module with ... ; every extra file with size and checksums": what add() files is part of it
    from .builders import r_keys
    from .regexes import r_nvra_glue, r_nvra_parse
    r_keys(model, rep)
    r_nvra_glue(model, rep)
    # the key an RPM is filed under is what parse_nvra reads out of the caller's string: the proof that the pattern's first
    # parse yields the intended name/epoch/version/release/arch for every legal NEVRA is part of "filed where the arguments say"
    r_nvra_parse(model, rep, tier)
    r_reader_not_stricter(model, rep)
    # an output method that rewrites the stored entries (dump_for_tree stripping the base path *in* the manifest's own dicts)
    # changes what the next dump writes
    from .canonical import r_writer_pure
    r_writer_pure(model, rep, only=("extra_files.ExtraFiles.", "rpms.Rpms.", "modules.Modules."))


def r_reader_not_stricter(model, rep):
    """what add() files must load again: a refusal the current-version reader makes on a field of a stored record (a payload check
    added on the read side) must be one add() makes as well, under conditions at least as wide - record['sigkey'] refused for
    not being a string while add() accepts None is the library rejecting its own output"""
    V = current_version(model)
    alias = {"file": "path"}
    for q in ("rpms.Rpms", "modules.Modules", "extra_files.ExtraFiles"):
        rf = model.own_method(q, "deserialize")
        rcx = facts.fctx(model, rf)
        # the reader the dispatcher selects for the current version
        for ev in rcx.events:
            if ev.kind == "call" and ev.value[1][0] == "attr" and rcx.is_self(ev.value[1][1]) and ev.value[1][2].startswith("deserialize_") \
                    and facts.active_at(ev, V) and model.cls(q).lookup(ev.value[1][2]):
                rf = model.own_method(q, ev.value[1][2])
                rcx = facts.fctx(model, rf)
                break
        af = model.own_method(q, "add")
        acx = facts.fctx(model, af)
        aparams = set(acx.params[1:])
        IN = P(rcx.params[1])

        def field_atoms(ev, cx_, mapper):
            out = set()
            # (conditions of the refusal itself: what merely says "no earlier refusal fired" is not part of it)
            for a in facts.flat_atoms(g for g in facts.own_guards(cx_, ev, kinds=("raise",)) if g[0][0] != "exc"):
                t, pol = facts.canon_guard((mapper(a[0]), a[1]))
                out.add("%s:%s" % (T.show(t), "T" if pol else "F"))
            return out

        def map_record(t):
            # <anything rooted at the document>["k"]  ->  the add() parameter of that name
            def fn(x):
                if x[0] == "sub" and x[2][0] == "const" and isinstance(x[2][1], str) and T.root_of(x) == IN:
                    name = alias.get(x[2][1], x[2][1])
                    if name in aparams:
                        return ("param", name)
                return None
            return T.subst(t, fn)
        builder = []
        for ev in acx.events:
            if ev.kind == "raise":
                builder.append(field_atoms(ev, acx, lambda t: t))
        bad = []
        n = 0
        for ev in rcx.events:
            if ev.kind != "raise" or not facts.active_at(ev, V):
                continue
            own = [g for g in ev.guards if g[0][0] != "exc" and g[1] and not facts.is_pure_gate(g[0])]
            if not own:
                continue
            leaf = map_record(own[-1][0])
            if not T.contains(leaf, lambda x: x[0] == "param" and x[1] in aparams) or T.contains(leaf, lambda x: x == IN):
                continue        # a refusal about the structure of the document, not about a field add() takes
            n += 1
            mine = field_atoms(ev, rcx, map_record)
            # only the atoms that speak about add()'s parameters count on the reader side (the rest is how the reader got there)
            mine_p = set(a for a in mine if any(("%s" % p_) in a for p_ in aparams))
            if not any(b and b <= mine_p for b in builder):
                bad.append("line %s: refused when %s" % (ev.lineno, " and ".join(sorted(mine_p))[:160]))
        rep.ob("R-PAYLOAD", "%s.deserialize:not-stricter-than-add" % q, not bad, site=rcx.site(rf.node),
               msg="" if not bad else "the reader refuses a stored record that add() would have filed: %s" % "; ".join(bad[:2]),
               facts={"reader_refusals_on_record_fields": n}, trivial=(n == 0))


# ---------------------------------------------------------------------------------------------------------
# C04
# ---------------------------------------------------------------------------------------------------------
K2_CONSTRUCT = "treeinfo.Images.deserialize:platform-suffix-stripped"


def r_section_prefix(model, rep):
    f = model.own_method("treeinfo.Images", "serialize")
    cx, emits = facts.writer_emits(model, f)
    secs = [e for e in emits if e.kind == "section"]
    ok = len(secs) == 1 and secs[0].path[0][0] == "fmt" and len(secs[0].path[0][1]) == 2 and secs[0].path[0][1][0][0] == "const" \
        and secs[0].path[0][1][1][0] != "const"
    prefix = None
    if ok:
        prefix = secs[0].path[0][1][0][1]
    rep.ob("R-SECTION-PREFIX", "treeinfo.Images.serialize:section-name", ok, site=cx.site(f.node),
           msg="" if ok else "image sections are not named '<prefix>%s' % platform")
    if not ok:
        return
    sets = [e for e in emits if e.kind == "set"]
    S = P(cx.selfname)
    ok = len(sets) == 1 and len(sets[0].loops) == 2
    if ok:
        e = sets[0]
        plat = ("elem", e.loops[0][1], e.loops[0][0])
        cell = ("sub", ("attr", S, "images"), plat)
        it = e.loops[1][1]
        el = ("elem", it, e.loops[1][0])
        whole = lambda x, d: x == d or (x[0] == "call" and x[1] in (("global", "sorted"), ("global", "list")) and x[2] == (d,))
        ok = whole(e.loops[0][1], ("attr", S, "images")) and whole(it, cell) and e.path == [T.fmt(prefix, plat), el] \
            and e.value == ("sub", cell, el)
        ng = facts.non_gate_guards(e.ev)
        ok = ok and all(T.strip_not(g[0], g[1]) == (("attr", S, "images"), True) for g in ng)
    rep.ob("R-SECTION-PREFIX", "treeinfo.Images.serialize:every-image", ok, site=cx.site(f.node),
           msg="" if ok else "every (image, path) of every platform must be written as section[image] = path")
    g = model.own_method("treeinfo.Images", "deserialize")
    gcx = facts.fctx(model, g)
    S = P(gcx.selfname)
    IN = P(gcx.params[1])
    st = [ev for ev in gcx.events if ev.kind == "store" and ev.target[0] == "sub" and ev.target[1][0] == "sub"
          and ev.target[1][1] == ("attr", S, "images")]
    ok, msg = len(st) == 1, "expected one store self.images[platform][image] = path"
    if ok:
        e = st[0]
        sec = ("elem", ("call", ("attr", IN, "sections"), (), ()), e.loops[0][0])
        # startswith filter
        sw = [gd for gd in e.guards if T.contains(gd[0], lambda x: x[0] == "call" and x[1] == ("attr", sec, "startswith"))]
        ok = len(sw) == 1 and T.strip_not(sw[0][0], sw[0][1]) == (("call", ("attr", sec, "startswith"), (("const", prefix),), ()), True)
        msg = "the reader must select exactly the sections starting with %r" % prefix
        if ok:
            plat = e.target[1][2]
            cut = ("sub", sec, ("slice", ("const", len(prefix)), None, None))
            alts = set(plat[1]) if plat[0] == "phi" else {plat}
            ok = cut in alts
            msg = "platform must be the section name with exactly len(%r) == %d characters cut off" % (prefix, len(prefix))
            if ok:
                others = alts - {cut}
                rep.ob("R-SECTION-PREFIX", K2_CONSTRUCT, not others, site=gcx.site(e.lineno),
                       msg="" if not others else "the platform read back is not always the platform written: besides section[%d:] the reader "
                       "also produces %s (a platform named '<x>-<tree arch>' is written as [images-<x>-<arch>] and read back as '<x>', "
                       "which then fails _validate_platforms)" % (len(prefix), [T.show(o)[:90] for o in others]))
            if ok:
                # key and value
                it = e.loops[1][1]
                el = ("elem", it, e.loops[1][0])
                ok = e.target[2] == ("idx", el, 0) and it == ("call", ("attr", IN, "items"), (sec,), ()) \
                    and e.value == ("call", ("attr", S, "_fix_path"), (("call", ("attr", IN, "get"), (sec, ("idx", el, 0)), ()),), ())
                msg = "every option of the section must be read as images[platform][option] = _fix_path(value)"
    rep.ob("R-SECTION-PREFIX", "treeinfo.Images.deserialize", ok, site=gcx.site(g.node), msg="" if ok else msg)


def section_prefixes_of_property(model, qname, prop):
    f = model.own_method(qname, prop)
    cx = facts.fctx(model, f)
    out = set()
    for ev in cx.events:
        if ev.kind == "return":
            for a in T.alts(ev.value):
                if a[0] == "fmt" and len(a[1]) == 2 and a[1][0][0] == "const" and T.attr_chain(a[1][1]) == "%s.uid" % cx.selfname:
                    out.add(a[1][0][1])
                else:
                    out.add("<unrecognised: %s>" % T.show(a)[:40])
    reads = set()
    for ev in cx.events:
        for t in [ev.value] + [g[0] for g in ev.guards]:
            if t is not None:
                reads |= set(cx.self_attrs_in(t))
    return out, reads


def r_section_dep(model, rep):
    """a reader must not locate its section through a derived property while the field the property depends on is
    still a guess and is assigned from the file later (use before definition through a property)"""
    q = "treeinfo.Variant"
    prefixes, depends = section_prefixes_of_property(model, q, "_section")
    V = current_version(model)
    rf = model.own_method(q, "deserialize")
    reads = facts.reader_reads(model, rf, version=V)
    cls = model.cls(q)
    # fields assigned from the document, by the order of the stores (inlined helper events follow the caller's prefix)
    seq = 0
    first_doc_store = {}
    uses = []
    for r in reads:
        seq += 1
        if r.sources and r.attr not in first_doc_store:
            first_doc_store[r.attr] = seq
        for s in r.sources:
            for p in s[0]:
                if T.contains(p, lambda x: T.attr_chain(x) == "self._section"):
                    uses.append((seq, r, s))
    guess_fields = [fld for fld in depends if fld in first_doc_store and fld != "uid"]
    bad = []
    for sq, r, s in uses:
        for fld in guess_fields:
            if sq <= first_doc_store[fld]:
                bad.append((r, fld))
    ok = not bad
    rep.ob("R-SECTION-DEP", "%s.deserialize:section-before-type" % q, ok, site="%s:%s" % (cls.module.rel(), bad[0][0].ev.lineno if bad else rf.node.lineno),
           msg="" if ok else "self.%s is read from the section named by the property _section, which depends on self.%s -- still the caller's "
                             "guess at that point and only assigned from the file afterwards; the writer names the section after the real "
                             "value (children of type 'variant'/'optional' are written to [variant-UID] but looked up in [addon-UID])"
                             % (bad[0][0].attr, bad[0][1]))
    # cross-check: the section-name shapes the reader tries for the identifying keys cover what the writer can produce
    tried = set()
    for r in reads:
        if r.attr in ("id", "uid", "name", "type"):
            for s in r.sources:
                sec = s[0][0]
                alts = sec[1] if sec[0] == "phi" else (sec,)
                for a in alts:
                    if a[0] == "fmt" and len(a[1]) == 2 and a[1][0][0] == "const" and a[1][1][0] != "const":
                        tried.add(a[1][0][1])
                    elif T.attr_chain(a) == "self._section":
                        tried.add("<_section>")
    ok2 = prefixes <= tried if "<_section>" not in tried else ok
    rep.ob("R-SECTION-DEP", "%s:section-shapes-cover-writer" % q, ok2, site="%s:%s" % (cls.module.rel(), rf.node.lineno),
           msg="" if ok2 else "the writer can name the section %s but the reader only tries %s" % (sorted(prefixes), sorted(tried)),
           facts={"writer_prefixes": sorted(prefixes), "reader_tries": sorted(tried), "property_depends_on": sorted(depends)})


def r_ti_variant_tree(model, rep):
    V = current_version(model)
    # [tree]/variants
    f = model.own_method("treeinfo.Variants", "serialize")
    cx, emits = facts.writer_emits(model, f)
    S = P(cx.selfname)
    w = [e for e in emits if e.kind == "set" and [T.show(p) for p in e.path] == ["'tree'", "'variants'"]]
    ok = len(w) == 1 and not w[0].guards
    if ok:
        v = w[0].value
        ok = v[0] == "call" and v[1] == ("attr", ("const", ","), "join") and len(v[2]) == 1 \
            and T.unwrap(v[2][0])[0] == "call" and T.unwrap(v[2][0])[1] == ("global", "sorted") and collects_all(cx, S, v[2][0], "uid")
    rep.ob("R-TI-VARIANT-TREE", "treeinfo.Variants.serialize:[tree]/variants", ok, site=cx.site(f.node),
           msg="" if ok else "[tree]/variants must be the sorted comma list of the uid of every top-level variant")
    g = model.own_method("treeinfo.Variants", "deserialize_1_0")
    gcx = facts.fctx(model, g)
    rets = [ev for ev in gcx.events if ev.kind == "return" and T.unwrap(ev.value) != ("list", ())]
    IN = P(gcx.params[1])
    src = ("call", ("attr", ("call", ("attr", IN, "get"), (("const", "tree"), ("const", "variants")), ()), "split"), (("const", ","),), ())
    ok = len(rets) == 1 and T.contains(rets[0].value, lambda x: x == src)
    rep.ob("R-TI-VARIANT-TREE", "treeinfo.Variants.deserialize_1_0", ok, site=gcx.site(g.node),
           msg="" if ok else "top-level variant uids must be read from [tree]/variants split on ','")
    h = model.own_method("treeinfo.Variants", "deserialize")
    hcx = facts.fctx(model, h)
    S = P(hcx.selfname)
    adds = [ev for ev in hcx.events if ev.kind == "call" and ev.value[1] == ("attr", S, "add") and ev.loops]
    ok = len(adds) == 1
    if ok:
        ad = adds[0]
        child = ad.value[2][0]
        el = ("elem", ad.loops[-1][1], ad.loops[-1][0])
        des = [ev for ev in hcx.events if ev.kind == "call" and ev.value[1] == ("attr", child, "deserialize") and ev.loops == ad.loops]
        ok = len(des) == 1 and des[0].value[2] == (P(hcx.params[1]), el) and des[0].seq < ad.seq and not T.guard_tests(ad) \
            and facts.arg_of(ad.value, "variant_id", 1) == ("attr", child, "uid")
    rep.ob("R-TI-VARIANT-TREE", "treeinfo.Variants.deserialize:attach", ok, site=hcx.site(h.node),
           msg="" if ok else "every listed variant must be deserialised under its uid and attached with add(variant, variant_id=variant.uid)")
    # children: addons list
    f = model.own_method("treeinfo.Variant", "serialize")
    cx, emits = facts.writer_emits(model, f)
    S = P(cx.selfname)
    w = [e for e in emits if e.kind == "set" and e.path[-1] == ("const", "addons")]
    ok = len(w) == 1
    if ok:
        v = w[0].value
        ok = v[0] == "call" and v[1] == ("attr", ("const", ","), "join") and len(v[2]) == 1
        if ok:
            src = v[2][0]
            if src[0] == "call" and src[1] == ("global", "sorted") and len(src[2]) == 1:
                src = src[2][0]        # whether the list is sorted is C08's business
            ok = collects_all(cx, S, src, "uid")
    rep.ob("R-TI-VARIANT-TREE", "treeinfo.Variant.serialize:addons", ok, site=cx.site(f.node),
           msg="" if ok else "'addons' must be the comma list of the uid of all children")
    g = model.own_method("treeinfo.Variant", "deserialize_1_0")
    gcx = facts.fctx(model, g)
    S = P(gcx.selfname)
    IN = P(gcx.params[1])
    adds = [ev for ev in gcx.events if ev.kind == "call" and ev.value[1] == ("attr", S, "add") and ev.loops]
    ok, msg = len(adds) == 1, "children are not attached with self.add()"
    if ok:
        ad = adds[0]
        child = ad.value[2][0]
        el = ("elem", ad.loops[-1][1], ad.loops[-1][0])
        des = [ev for ev in gcx.events if ev.kind == "call" and ev.value[1] == ("attr", child, "deserialize") and ev.loops == ad.loops]
        ok = len(des) == 1 and des[0].value[2][:2] == (IN, el) and des[0].seq < ad.seq
        msg = "every listed child must be deserialised under its uid and then attached"
        if ok:
            it = T.unwrap(ad.loops[-1][1])
            # (the list of non-empty uids: a filtering comprehension, or - the canonical form of the same - the split itself looped
            # over with the empty pieces skipped)
            ok = (it[0] == "comp" or (it[0] == "call" and it[1][0] == "attr" and it[1][2] == "split" and any(
                T.contains(g_[0], lambda y: y == el) for g_ in T.guard_tests(ad)))) \
                and T.contains(it, lambda x: x[0] == "call" and x[1][0] == "attr" and x[1][2] == "split" and x[2] == (("const", ","),)
                                                and x[1][1][0] == "call" and x[1][1][1] == ("attr", IN, "get") and x[1][1][2][1] == ("const", "addons"))
            msg = "child uids must be read from the 'addons' option split on ','"
        if ok:
            ng = [facts.canon_guard_pair(g_) for g_ in facts.non_gate_guards(ad)]      # ``if has: ...`` and ``if not has: return``
            ng = [g_ for g_ in ng if not (g_[0] == el and g_[1])]       # the filter on empty pieces of the split (see above)
            ok = len(ng) == 1 and ng[0][1] and ng[0][0][0] == "call" and ng[0][0][1] == ("attr", IN, "has_option") and ng[0][0][2][1] == ("const", "addons")
            msg = "children must be read exactly when the 'addons' option exists"
    rep.ob("R-TI-VARIANT-TREE", "treeinfo.Variant.deserialize_1_0:children", ok, site=gcx.site(g.node), msg="" if ok else msg)
    # the section in which 'addons' is looked up is the section that was written (self._section *after* type is known)
    # -> covered by R-SECTION-DEP ordering
    # variant paths: symmetric field loops
    cls = model.cls("treeinfo.VariantPaths")
    fields = model.class_attr_const(cls, "_fields")
    want = ["packages", "repository", "source_packages", "source_repository", "debug_packages", "debug_repository", "identity"]
    rep.ob("R-TI-PATHS", "treeinfo.VariantPaths._fields", list(fields) == want, site=cls.module.site(cls.node),
           msg="" if list(fields) == want else "path kinds are %s, documented: %s" % (fields, want))
    f = model.own_method("treeinfo.VariantPaths", "serialize")
    cx, emits = facts.writer_emits(model, f)
    S = P(cx.selfname)
    st = [e for e in emits if e.kind == "set"]
    ok = len(st) == 1 and len(st[0].loops) == 1 and st[0].loops[0][1] == ("attr", S, "_fields")
    if ok:
        e = st[0]
        name = ("elem", e.loops[0][1], e.loops[0][0])
        val = ("call", ("global", "getattr"), (S, name, ("const", None)), ())
        ok = e.path == [("attr", ("attr", S, "_variant"), "_section"), name] and e.value in (val, ("call", ("global", "getattr"), (S, name), ())) \
            and [(g[0], g[1]) for g in e.guards] == [(("cmp", ("is",), (e.value, ("const", None))), False)]
    rep.ob("R-TI-PATHS", "treeinfo.VariantPaths.serialize", ok, site=cx.site(f.node),
           msg="" if ok else "every non-None path kind must be written as [variant section]/<kind>")
    g = model.own_method("treeinfo.VariantPaths", "deserialize_1_0")
    gcx = facts.fctx(model, g)
    S = P(gcx.selfname)
    IN = P(gcx.params[1])
    sa = [ev for ev in gcx.events if ev.kind == "call" and ev.value[1] == ("global", "setattr")]
    ok = len(sa) == 1 and len(sa[0].loops) == 1 and sa[0].loops[0][1] == ("attr", S, "_fields")
    if ok:
        e = sa[0]
        name = ("elem", e.loops[0][1], e.loops[0][0])
        sec = ("attr", ("attr", S, "_variant"), "_section")
        got = ("call", ("attr", IN, "get"), (sec, name), ())
        has = ("call", ("attr", IN, "has_option"), (sec, name), ())
        raw = e.raw[2][2]
        present = T.degate(facts.Scenario(gcx, atoms={has: True}).term(raw))
        absent = T.degate(facts.Scenario(gcx, atoms={has: False}).term(raw))
        ok = e.value[2][:2] == (S, name) and present == got and absent == ("const", None) and not T.guard_tests(e)
    rep.ob("R-TI-PATHS", "treeinfo.VariantPaths.deserialize_1_0", ok, site=gcx.site(g.node),
           msg="" if ok else "every path kind must be read from [variant section]/<kind> when present, None otherwise")
    # the dispatching wrapper itself must not touch the fields for current-version files
    w = model.own_method("treeinfo.VariantPaths", "deserialize")
    wcx = facts.fctx(model, w)
    extra = [ev for ev in wcx.events if facts.active_at(ev, V) and (
        (ev.kind == "store" and wcx.self_attr(ev.target) is not None) or (ev.kind == "call" and ev.value[1] == ("global", "setattr")))]
    rep.ob("R-TI-PATHS", "treeinfo.VariantPaths.deserialize:no-post-processing", not extra, site=wcx.site(extra[0].lineno if extra else w.node),
           msg="" if not extra else "for current-version files the reader rewrites path fields after reading them (line %s: %s): the value "
                                   "read back is not the value written" % (extra[0].lineno, T.show(extra[0].target or extra[0].value)[:80]))


DOC_SECTIONS = {
    "common.Header": "header", "composeinfo.Compose": "compose", "composeinfo.BaseProduct": "base_product",
    "composeinfo.Release": "release", "composeinfo.Variants": "variants", "treeinfo.BaseProduct": "base_product",
    "treeinfo.Release": "release", "treeinfo.Tree": "tree", "treeinfo.Stage2": "stage2", "treeinfo.Checksums": "checksums",
    "treeinfo.Media": "media", "treeinfo.General": "general",
}


def r_doc_sections(model, rep, classes):
    """the section / top-level key a section object reads and writes is the documented one (a subclass that forgets to set its
    own inherits its parent's: Release would then share base_product's section)"""
    for q in classes:
        cls = model.cls(q)
        ia = cls.init_attrs(model).get("_section")
        try:
            v = model.fold(ia.value, ia.cls.module) if ia is not None and ia.value is not None else None
        except NotConst:
            v = None
        ok = v == DOC_SECTIONS[q]
        rep.ob("R-SCHEMA", "%s:section-name" % q, ok, site="%s" % cls.module.rel(),
               msg="" if ok else "%s reads and writes section %r, documented: %r" % (q, v, DOC_SECTIONS[q]))


def r_option_lookup(model, rep, rule_id="R-LEGACY-MAP"):
    """SortedConfigParser.option_lookup (the legacy readers' 'first place that has it' helper): the value of the first
    (section, option) pair that exists, else the default"""
    f = model.own_method("common.SortedConfigParser", "option_lookup")
    cx = facts.fctx(model, f)
    S = P(cx.selfname)
    lst, dflt = P(cx.params[1]), P(cx.params[2])
    rets = [ev for ev in cx.events if ev.kind == "return"]
    inl = [r for r in rets if r.loops]
    out = [r for r in rets if not r.loops]
    ok = len(inl) == 1 and len(out) == 1 and not cx.ex.falls_through
    if ok:
        r = inl[0]
        it = r.loops[-1][1]
        el = ("elem", it, r.loops[-1][0])
        sec, opt = ("idx", el, 0), ("idx", el, 1)
        has = ("call", ("attr", S, "has_option"), (sec, opt), ())
        ok = it == lst and r.value == ("call", ("attr", S, "get"), (sec, opt), ()) \
            and [(g[0], g[1]) for g in r.guards if g[0][0] != "exc"] == [(has, True)] \
            and out[0].value == dflt and not [g for g in facts.own_guards(cx, out[0]) if g[0][0] != "exc"]
    else:
        # first-match spelling: next((self.get(s, o) for s, o in pairs if self.has_option(s, o)), default)
        ok = len(rets) == 1 and rets[0].value[0] == "call" and rets[0].value[1] == ("global", "next") and len(rets[0].value[2]) == 2 \
            and rets[0].value[2][1] == dflt and rets[0].value[2][0][0] == "comp" and len(rets[0].value[2][0][3]) == 1
        if ok:
            comp = rets[0].value[2][0]
            var = ("bound", comp[3][0][0][1])
            sec, opt = ("idx", var, 0), ("idx", var, 1)
            ok = comp[3][0][1] == lst and comp[2] == ("call", ("attr", S, "get"), (sec, opt), ()) \
                and tuple(comp[3][0][2]) == (("call", ("attr", S, "has_option"), (sec, opt), ()),)
    if not ok and len(rets) == 2 and not inl:
        # the pair is searched first and read afterwards:
        #   found = next(((s, o) for s, o in pairs if self.has_option(s, o)), None); if found is None: return default; return self.get(*found)
        b = ("bound", "$0")
        sec, opt = ("idx", b, 0), ("idx", b, 1)
        N = ("call", ("global", "next"), (("comp", "gen", ("tuple", (sec, opt)), ((("names", "$0"), lst, (
            ("call", ("attr", S, "has_option"), (sec, opt), ()),)),)), ("const", None)), ())
        none = ("cmp", ("is",), (N, ("const", None)))
        want = {(dflt, ((none, True),)), (("call", ("attr", S, "get"), (("starred", N),), ()), ((none, False),))}
        got = set((r.value, tuple((g[0], g[1]) for g in r.guards if g[0][0] != "exc")) for r in rets)
        ok = got == want and not cx.ex.falls_through
    rep.ob(rule_id, "SortedConfigParser.option_lookup", ok, site=cx.site(f.node),
           msg="" if ok else "option_lookup must return self.get(section, option) for the first listed pair for which "
                             "self.has_option(section, option) holds, else the default")


def r_parser_symmetry(model, rep):
    f = model.own_method("treeinfo.TreeInfo", "_get_parser")
    cx = facts.fctx(model, f)
    rets = [ev for ev in cx.events if ev.kind == "return"]
    w = rets[0].value if len(rets) == 1 else None
    g = model.own_method("treeinfo.TreeInfo", "parse_file")
    gcx = facts.fctx(model, g)
    rets = [ev for ev in gcx.events if ev.kind == "return"]
    r = rets[0].value if len(rets) == 1 else None
    ok = w is not None and r is not None and w[0] == "call" and r[0] == "call" and w[1] == r[1] and w[1] == ("global", "productmd.common.SortedConfigParser") \
        and not w[2] and not r[2]
    rep.ob("R-PARSER-SYMMETRY", "TreeInfo._get_parser/parse_file", ok, site=cx.site(f.node),
           msg="" if ok else "writer and reader must use the same parser class (SortedConfigParser, default arguments)")
    rf = [ev for ev in gcx.calls("read_file")]
    ok = len(rf) == 1 and rf[0].value[1][1] == r and rf[0].value[2] == (P(gcx.params[1]),)
    rep.ob("R-PARSER-SYMMETRY", "TreeInfo.parse_file:read_file", ok, site=gcx.site(g.node),
           msg="" if ok else "parse_file must read the given file into the parser it returns")
    b = model.own_method("treeinfo.TreeInfo", "build_file")
    bcx = facts.fctx(model, b)
    wr = bcx.calls("write")
    ok = len(wr) == 1 and wr[0].value[1][1] == P(bcx.params[1]) and wr[0].value[2] == (P(bcx.params[2]),)
    rep.ob("R-PARSER-SYMMETRY", "TreeInfo.build_file", ok, site=bcx.site(b.node),
           msg="" if ok else "build_file must parser.write(f)")
    o = model.own_method("common.SortedConfigParser", "optionxform")
    ocx = facts.fctx(model, o)
    rets = [ev for ev in ocx.events if ev.kind == "return"]
    ok = len(rets) == 1 and rets[0].value == P(ocx.params[1])
    rep.ob("R-PARSER-SYMMETRY", "SortedConfigParser.optionxform", ok, site=ocx.site(o.node),
           msg="" if ok else "optionxform must be the identity (option names keep their case both ways)")
    # the parser is a plain ConfigParser apart from dict_type: any other option (comment prefixes, delimiters,
    # interpolation, strict ...) makes what is read differ from what was written
    i = model.own_method("common.SortedConfigParser", "__init__")
    icx = facts.fctx(model, i)
    keys = set()
    for ev in icx.events:
        if ev.kind == "store" and ev.target[0] == "sub" and ev.target[1] == ("param", "kwargs") and ev.target[2][0] == "const":
            keys.add(ev.target[2][1])
        if ev.kind == "call" and ev.value[1][0] == "attr" and ev.value[1][2] in ("__init__",):
            for k, v in ev.value[3]:
                if k != "**":
                    keys.add(k)
        if ev.kind == "call" and ev.value[1][0] == "attr" and ev.value[1][1] == ("param", "kwargs") and ev.value[1][2] in ("update", "setdefault"):
            keys.add("<kwargs.%s>" % ev.value[1][2])
    ok = keys <= {"dict_type"}
    rep.ob("R-PARSER-SYMMETRY", "SortedConfigParser.__init__:options", ok, site=icx.site(i.node),
           msg="" if ok else "SortedConfigParser changes ConfigParser options %s: values are then read differently from how they were "
                             "written" % sorted(keys - {"dict_type"}))
    extra = [n for n in model.cls("common.SortedConfigParser").methods if n not in ("__init__", "optionxform", "option_lookup", "read_file")]
    rep.ob("R-PARSER-SYMMETRY", "SortedConfigParser:overrides", not extra, site=icx.site(i.node),
           msg="" if not extra else "SortedConfigParser overrides %s" % extra)


def r_discinfo_pos(model, rep):
    f = model.own_method("discinfo.DiscInfo", "serialize")
    cx, emits = facts.writer_emits(model, f)
    S = P(cx.selfname)
    app = sorted([e for e in emits if e.kind == "append"], key=lambda e: e.ev.seq)
    # the lines written, evaluated for both cases of the 'ALL' sentinel (if/else statement, conditional expression ... alike)
    isall = ("cmp", ("==",), (("attr", S, "disc_numbers"), ("list", (("const", "ALL"),))))
    strip = lambda x: ("call", ("attr", x, "strip"), (), ())
    head = [strip(("call", ("global", "str"), (("attr", S, "timestamp"),), ())), strip(("attr", S, "description")), strip(("attr", S, "arch"))]
    joined = ("call", ("attr", ("const", ","), "join"), (("comp", "gen", ("call", ("global", "str"), (("bound", "$0"),), ()),
                                                           ((("names", "$0"), ("attr", S, "disc_numbers"), ()),)),), ())
    seqs = {}
    for case in (True, False):
        sc = facts.Scenario(cx, atoms={isall: case})
        seqs[case] = [T.unwrap(T.degate(sc.term(facts.emit_raw(e)))) for e in app if facts.emit_raw(e) is not None and sc.holds(e.ev) is not False]
    ok = seqs[True] == head + [("const", "ALL")] and seqs[False] == head + [joined]
    rep.ob("R-DISCINFO-POS", "DiscInfo.serialize:lines", ok, site=cx.site(f.node),
           msg="" if ok else "lines must be, in this order: str(timestamp).strip(), description.strip(), arch.strip(), then 'ALL' (exactly when "
                             "disc_numbers == ['ALL']) or the comma-joined disc numbers: %s" % dict((k, [T.show(x)[:50] for x in v]) for k, v in seqs.items()))
    rep.ob("R-DISCINFO-POS", "DiscInfo.serialize:ALL-sentinel", ok, site=cx.site(f.node), trivial=True,
           msg="" if ok else "'ALL' must be written exactly when disc_numbers == ['ALL']")
    g = model.own_method("discinfo.DiscInfo", "deserialize")
    reads = facts.reader_reads(model, g)
    gcx = facts.fctx(model, g)
    table = {}
    for r in reads:
        for s in r.sources:
            table.setdefault(r.attr, set()).add(T.show(s[0][0]))
    ok = table == {"timestamp": {"0"}, "description": {"1"}, "arch": {"2"}, "disc_numbers": {"3"}}
    rep.ob("R-DISCINFO-POS", "DiscInfo.deserialize:line-positions", ok, site=gcx.site(g.node),
           msg="" if ok else "lines must be read as 0 timestamp, 1 description, 2 arch, 3 disc numbers: %s" % dict((k, sorted(v)) for k, v in table.items()))
    shapes = dict()
    for r in reads:
        shapes.setdefault(r.attr, []).append(r.value)
    IN_ = ("param", gcx.params[1])

    def line(i):
        return ("call", ("attr", ("sub", IN_, ("const", i)), "strip"), (), ())
    ok = shapes.get("timestamp") == [("call", ("global", "float"), (line(0),), ())] \
        and [T.show(x) for x in shapes.get("description", [])] == ["parser[1].strip().strip('\"\\'')".replace("parser", gcx.params[1])] \
        and shapes.get("arch") == [line(2)]
    dn = shapes.get("disc_numbers", [])
    # (the two alternatives in either order: which branch of the if comes first is spelling)
    dn = sorted(dn, key=lambda x: T.unwrap(x) != ("list", (("const", "ALL"),)))
    okd = len(dn) == 2 and T.unwrap(dn[0]) == ("list", (("const", "ALL"),))
    if okd:
        c = T.unwrap(dn[1])
        # [int(i) for i in <line 3>.split(",")]  -- a filter on empty items is tolerated
        okd = c[0] == "comp" and c[1] == "list" and len(c[3]) == 1 and len(c[3][0][0]) == 2
        if okd:
            var = ("bound", c[3][0][0][1])
            elt_ok = c[2] in (("call", ("global", "int"), (var,), ()), ("call", ("global", "int"), (("call", ("attr", var, "strip"), (), ()),), ()))
            it = c[3][0][1]
            it_ok = it[0] == "call" and it[1][0] == "attr" and it[1][2] == "split" and it[2] == (("const", ","),) \
                and T.contains(it[1][1], lambda x: x == line(3))
            conds_ok = all(cx_ in (var, ("call", ("attr", var, "strip"), (), ())) for cx_ in c[3][0][2])
            okd = elt_ok and it_ok and conds_ok
    rep.ob("R-DISCINFO-POS", "DiscInfo.deserialize:line-values", ok and okd, site=gcx.site(g.node),
           msg="" if ok and okd else "line decoding changed: %s" % dict((k, [T.show(x)[:80] for x in v]) for k, v in shapes.items()))
    p = model.own_method("discinfo.DiscInfo", "parse_file")
    pcx = facts.fctx(model, p)
    b = model.own_method("discinfo.DiscInfo", "build_file")
    bcx = facts.fctx(model, b)
    wr = bcx.calls("write")
    ok = len(wr) == 1 and wr[0].value[2] == (("call", ("attr", ("const", "\n"), "join"), (P(bcx.params[1]),), ()),)
    rl = pcx.calls("readlines")
    ok = ok and len(rl) == 1
    rep.ob("R-DISCINFO-POS", "DiscInfo.build_file/parse_file", ok, site=bcx.site(b.node),
           msg="" if ok else "the file must be the lines joined with newlines / read back with readlines()")
    r_discinfo_lines(model, rep)


def r_discinfo_lines(model, rep, rule_id="R-DISCINFO-POS"):
    """DiscInfo.parse_file hands every line of the file to the positional reader, in order and without dropping any: a filter
    would shift the following lines into the place of a blank one (which then never reaches the not-blank validators)"""
    p = model.own_method("discinfo.DiscInfo", "parse_file")
    pcx = facts.fctx(model, p)
    F = P(pcx.params[1])
    rets = [ev for ev in pcx.events if ev.kind == "return"]

    def all_lines(t):
        t = T.unwrap(t)
        return t in (("call", ("attr", F, "readlines"), (), ()), F,
                     ("call", ("attr", ("call", ("attr", F, "read"), (), ()), "splitlines"), (), ()),
                     ("call", ("attr", ("call", ("attr", F, "read"), (), ()), "split"), (("const", "\n"),), ()))
    ok = bool(rets) and not pcx.ex.falls_through
    for r in rets:
        good = all_lines(r.value)
        def undecoded(t):
            # bytes lines decoded to text: the same line
            return T.phi_form(T.subst(t, lambda y: y[1][1] if y[0] == "call" and y[1][0] == "attr" and y[1][2] == "decode" else None))
        for c in facts.collections_of(pcx, r.value):
            if len(c.gens) == 1 and not c.conds and all_lines(c.its[0]):
                e = c.els[0]
                elt = undecoded(c.elt)
                good = elt == e or (elt[0] == "call" and elt[1][0] == "attr" and elt[1][1] == e
                                    and elt[1][2] in ("strip", "rstrip") and not elt[3])
        ok = ok and good
    rep.ob(rule_id, "DiscInfo.parse_file:every-line-kept", ok, site=pcx.site(p.node),
           msg="" if ok else "parse_file must return every line of the file (stripped), none dropped: the reader is positional, a "
                             "dropped blank line moves the next field into its place and the blank field is never validated")


def r_fix_path_identity(model, rep, classes=("treeinfo.Images", "treeinfo.Stage2", "treeinfo.Checksums"), rule_id="R-FIX-PATH",
                        relative_clause=False):
    """_fix_path returns its argument unchanged for every format version but the pre-productmd one"""
    V = current_version(model)
    for q in classes:
        f = model.own_method(q, "_fix_path")
        cx = facts.fctx(model, f)
        p_ = P(cx.params[1])
        # evaluated per format version: for every version but the pre-productmd one, every path returns the argument itself
        ok = bool([ev for ev in cx.events if ev.kind == "return"]) and not cx.ex.falls_through and bool(facts.version_terms(cx))
        for v in facts.version_grid("thorough"):
            if v == (0, 0):
                continue
            ok = ok and facts.at_version(cx, v).returns() == [p_]
        rep.ob(rule_id, "%s._fix_path" % q, ok, site=cx.site(f.node),
               msg="" if ok else "%s._fix_path changes paths of current-version files (it must return its argument unchanged except for "
                                 "format 0.0): what is read back is not what was written" % q)
        if relative_clause:
            # the legacy rewriting concerns absolute build paths only: on relative paths _fix_path is the identity for *every*
            # version, hence injective -- two distinct relative paths of a legacy file never collapse onto one key
            absolute = ("call", ("attr", p_, "startswith"), (("const", "/"),), ())
            ok2 = facts.at_version(cx, (0, 0), atoms={absolute: False}).returns() == [p_]
            rep.ob(rule_id, "%s._fix_path:relative-paths-unchanged" % q, ok2, site=cx.site(f.node),
                   msg="" if ok2 else "%s._fix_path rewrites relative paths of pre-productmd files as well (the documented conversion strips "
                                      "absolute build prefixes only): distinct paths can collapse onto one key, so a path can carry a "
                                      "checksum written for another" % q)


def r_checksums_schema(model, rep):
    f = model.own_method("treeinfo.Checksums", "serialize")
    cx, emits = facts.writer_emits(model, f)
    S = P(cx.selfname)
    st = [e for e in emits if e.kind == "set"]
    ok = len(st) == 1 and len(st[0].loops) == 1
    if ok:
        e = st[0]
        it = e.loops[0][1]
        d = ("attr", S, "checksums")
        el = ("elem", it, e.loops[0][0])
        ok = (it == d or (it[0] == "call" and it[1] in (("global", "sorted"), ("global", "list")) and it[2] == (d,))) \
            and e.path == [("const", "checksums"), el] \
            and e.value == T.fmt(("idx", ("sub", d, el), 0), ":", ("idx", ("sub", d, el), 1))
    rep.ob("R-CKS-FORMAT", "treeinfo.Checksums.serialize", ok, site=cx.site(f.node),
           msg="" if ok else "every checksum must be written as [checksums]/<path> = '<type>:<value>'")
    return ok


@register("C04")
def check_c04(model, rep, tier):
    from .checksums import r_cks_reader
    rep.explanation = (
        "Writer/reader agreement for .treeinfo (INI flavour) and .discinfo on def-use terms: per section class the "
        "(section, option) -> attribute tables of serialize() and of the reader branch selected for the current VERSION "
        "agree, including typed getters (getint/getfloat/getboolean) in the transform pairs, guarded writes vs has_option/"
        "has_section reads, and defaults; the composite writer and reader visit the same nine sections under the same "
        "conditions; image sections use the same 'images-' prefix with a slice of exactly its length; variant sections are "
        "located by the reader under every name the writer can produce, and never through the type-dependent _section "
        "property before the type has been read from the file (use-before-definition through a property); [tree]/variants, "
        "'addons' lists and the seven path kinds are written and read by symmetric code; writer and reader use the same "
        "case-preserving parser class; discinfo lines are written and read at the same positions with inverse encodings. "
        "Not decided: representability in INI syntax and value equality.")
    rep.not_decided = ["representability of values in INI syntax", "value equality after reload", "byte equality"]
    for q in ("treeinfo.Header", "treeinfo.BaseProduct", "treeinfo.Release", "treeinfo.Tree", "treeinfo.Variant",
              "treeinfo.Stage2", "treeinfo.Media"):
        r_schema(model, rep, q, FLOORS[q])
        r_fields(model, rep, q)
    r_composite(model, rep, "treeinfo.TreeInfo", ["header", "release", "base_product", "tree", "variants", "checksums",
                                                  "images", "stage2", "media"])
    r_section_prefix(model, rep)
    r_fix_path_identity(model, rep)
    r_section_dep(model, rep)
    r_ti_variant_tree(model, rep)
    r_checksums_schema(model, rep)
    r_cks_reader(model, rep, rule_id="R-CKS-FORMAT", format_only=True)
    r_parser_symmetry(model, rep)
    r_doc_sections(model, rep, [q for q in sorted(DOC_SECTIONS) if q.startswith(("common.", "treeinfo."))])
    r_discinfo_pos(model, rep)
    rep.floor("R-SCHEMA", 50)


# ---------------------------------------------------------------------------------------------------------
# C05
# ---------------------------------------------------------------------------------------------------------
# documented legacy mappings: reader function -> {attribute: set of source paths (text)}
LEGACY_MAP = {
    "composeinfo.Compose.deserialize_0_3": {
        "id": {"'compose'/'id'"}, "label": {"'compose'/'label'"}, "final": {"'compose'/'final'"},
        "type": {"'compose'/'type'", "<get_date_type_respin(id)>"}, "date": {"<get_date_type_respin(id)>"},
        "respin": {"<get_date_type_respin(id)>"}},
    "composeinfo.Release.deserialize_0_3": {
        "name": {"'product'/'name'"}, "version": {"'product'/'version'"}, "short": {"'product'/'short'"},
        "type": {"'product'/'type'"}, "is_layered": {"'product'/'is_layered'"}},
    "treeinfo.Release.deserialize_0_3": {
        "name": {"'product'/'name'"}, "version": {"'product'/'version'"}, "short": {"'product'/'short'"},
        "is_layered": {"'product'/'is_layered'"}},
    "treeinfo.Release.deserialize_0_0": {
        "name": {"'general'/'family'", "<const>"}, "version": {"'general'/'version'", "<derived>"}, "short": {"<const>"}},
    "treeinfo.Tree.deserialize_0_0": {
        "arch": {"'general'/'arch'"}, "build_timestamp": {"'general'/'timestamp'", "<const>"}},
    "treeinfo.Media.deserialize_0_0": {
        "discnum": {"'general'/'discnum'", "<const>"}, "totaldiscs": {"'general'/'totaldiscs'", "<derived>"}},
    "treeinfo.Variant.deserialize_0_3": {
        "id": {"<section>/'id'"}, "uid": {"<section>/'uid'"}, "name": {"<section>/'name'"}, "type": {"<section>/'type'"}},
}


# the transforms of the pinned legacy readers (confirmed by reading; □ = the value read)
LEGACY_SHAPES = {
    ("composeinfo.Compose.deserialize_0_3", "id", "id"): "□",
    ("composeinfo.Compose.deserialize_0_3", "label", "label"): "(□ or None)",
    ("composeinfo.Compose.deserialize_0_3", "type", "type"): "□",
    ("composeinfo.Compose.deserialize_0_3", "final", "final"): "bool(□)",
    ("composeinfo.Release.deserialize_0_3", "name", "name"): "□",
    ("composeinfo.Release.deserialize_0_3", "version", "version"): "□",
    ("composeinfo.Release.deserialize_0_3", "short", "short"): "□",
    ("composeinfo.Release.deserialize_0_3", "type", "type"): "□.lower()",
    ("composeinfo.Release.deserialize_0_3", "is_layered", "is_layered"): "bool(□)",
    ("treeinfo.Media.deserialize_0_0", "discnum", "discnum"): "getint(□)",
    ("treeinfo.Media.deserialize_0_0", "totaldiscs", "totaldiscs"): "getint(□)",
    ("treeinfo.Release.deserialize_0_0", "name", "family"): "□",
    ("treeinfo.Release.deserialize_0_0", "version", "version"): "□",
    ("treeinfo.Release.deserialize_0_3", "name", "name"): "□",
    ("treeinfo.Release.deserialize_0_3", "version", "version"): "□",
    ("treeinfo.Release.deserialize_0_3", "short", "short"): "□",
    ("treeinfo.Release.deserialize_0_3", "is_layered", "is_layered"): "getboolean(□)",
    ("treeinfo.Tree.deserialize_0_0", "arch", "arch"): "□",
    ("treeinfo.Tree.deserialize_0_0", "build_timestamp", "timestamp"): "int(getfloat(□))",
    ("treeinfo.Variant.deserialize_0_3", "id", "id"): "□",
    ("treeinfo.Variant.deserialize_0_3", "uid", "uid"): "□",
    ("treeinfo.Variant.deserialize_0_3", "name", "name"): "□",
    ("treeinfo.Variant.deserialize_0_3", "type", "type"): "□",
}


def _legacy_table(model, q):
    mod, cls, name = q.split(".")
    f = model.own_method("%s.%s" % (mod, cls), name)
    cx = facts.fctx(model, f)
    reads = facts.reader_reads(model, f, inline=False)
    table = {}
    for r in reads:
        srcs = set()
        for s in r.sources:
            path = [T.show(p) for p in s[0]]
            if len(path) == 2 and not path[0].startswith("'"):
                path[0] = "<section>"
            srcs.add("/".join(path))
        if not r.sources:
            v = r.value
            if T.contains(v, lambda x: x[0] == "call" and x[1] == ("global", "get_date_type_respin")):
                srcs.add("<get_date_type_respin(id)>")
            elif _const_rooted(cx, v):
                srcs.add("<const>")
            else:
                srcs.add("<derived>")
        table.setdefault(r.attr, set()).update(srcs)
    return cx, f, table


def _const_rooted(cx, v):
    """a literal, or an entry of a module-level constant table (looked up / iterated in whatever way)"""
    if v[0] == "const":
        return True
    if v[0] == "unary":
        return _const_rooted(cx, v[2])
    if v[0] in ("elem", "idx", "sub"):
        return _const_rooted(cx, v[1])
    if v[0] == "call" and v[1][0] == "attr" and v[1][2] == "get" and len(v[2]) in (1, 2):
        return _const_rooted(cx, v[1][1]) and (len(v[2]) == 1 or _const_rooted(cx, v[2][1]))
    if v[0] == "call" and v[1][0] == "global" and v[1][1].endswith(".get") and len(v[2]) in (1, 2):
        return _const_rooted(cx, ("global", v[1][1][:-4])) and (len(v[2]) == 1 or _const_rooted(cx, v[2][1]))
    if v[0] == "phi":
        return all(_const_rooted(cx, a) for a in v[1])
    if v[0] == "global":
        try:
            cx.const_of(v)
            return True
        except Exception:
            return False
    return False


def r_legacy_map(model, rep):
    for q, want in sorted(LEGACY_MAP.items()):
        cx, f, table = _legacy_table(model, q)
        for attr in sorted(set(want) | set(table)):
            ok = table.get(attr) == want.get(attr)
            rep.ob("R-LEGACY-MAP", "%s:%s" % (q, attr), ok, site=cx.site(f.node),
                   msg="" if ok else "legacy reader fills self.%s from %s, documented mapping: %s" % (
                       attr, sorted(table.get(attr, [])) or "nothing", sorted(want.get(attr, [])) or "nothing"))
    # the transform a legacy reader applies to a key it shares with the current-version reader: the confirmed one of the pinned
    # tree, or whatever its sibling applies today (the two are implementations of one mapping)
    from .schema import rshape, _const_key
    V = current_version(model)
    n = 0
    for q in sorted(LEGACY_MAP):
        mod, cls, name = q.split(".")
        f = model.own_method("%s.%s" % (mod, cls), name)
        cur = facts.reader_reads(model, model.own_method("%s.%s" % (mod, cls), "deserialize"), version=V)
        for r in facts.reader_reads(model, f, inline=False):
            for s_ in r.sources:
                k = _const_key(s_[0][-1]) if s_[0] else None
                if k is None or len(s_) < 4:
                    continue
                shape = rshape(r.value, [s_])
                mates = set(rshape(c.value, [cs]) for c in cur if c.attr == r.attr for cs in c.sources
                            if cs[0] and _const_key(cs[0][-1]) == k and len(cs) > 3)
                pinned = LEGACY_SHAPES.get((q, r.attr, k))
                if pinned is None and not mates:
                    continue
                n += 1
                ok = shape == pinned or shape in mates
                rep.ob("R-LEGACY-MAP", "%s:%s:transform" % (q, r.attr), ok, site="%s:%s" % (f.module.rel(), r.ev.lineno),
                       msg="" if ok else "legacy reader turns %r into self.%s as %s; the confirmed mapping is %s%s" % (
                           k, r.attr, shape, pinned, (" and the current-version reader applies %s" % sorted(mates)) if mates else ""))
    if n < 18:
        raise AnalysisError("vacuity guard: R-LEGACY-MAP compared %d legacy transforms (floor 18)" % n)
    # keys that older documents of the same major format lack have a documented default (image format 'iso', release type 'ga')
    from .schema import DOCUMENTED_DEFAULTS
    for (q_, k_), dflt_ in sorted(DOCUMENTED_DEFAULTS.items()):
        rf_ = model.own_method(q_, "deserialize")
        cls_ = model.cls(q_)
        rcx_ = facts.fctx(model, rf_)
        hits = []
        for r_ in facts.reader_reads(model, rf_, version=V):
            for s_ in r_.sources:
                if s_[0] and _const_key(s_[0][-1]) == k_:
                    hits.append(s_)
        okd_ = bool(hits) and all(s_[1] == "soft" and s_[2] is not None and rcx_.try_const(facts.pick_at_version(s_[2], V), object()) == dflt_
                                  for s_ in hits)
        rep.ob("R-LEGACY-MAP", "%s:documented-default:%s" % (q_, k_), okd_, site=cls_.module.rel(),
               msg="" if okd_ else "a document without %r must be read as %r (older documents lack the key)" % (k_, dflt_))
    # images <= 1.0: subvariant default "", format default "iso"
    f = model.own_method("images.Image", "deserialize")
    cx = facts.fctx(model, f)
    IN = P(cx.params[1])
    # what a 1.0 document and a 1.1 document make of the key (separate stores under a gate, one store of a conditional value, a
    # version-dependent default ... alike)
    old = [facts.pick_at_version(r.value, (1, 0)) for r in facts.reader_reads(model, f, version=(1, 0)) if r.attr == "subvariant"]
    new = [facts.pick_at_version(r.value, (1, 1)) for r in facts.reader_reads(model, f, version=(1, 1)) if r.attr == "subvariant"]
    ok = old == [("call", ("attr", IN, "get"), (("const", "subvariant"), ("const", "")), ())] \
        and new == [("sub", IN, ("const", "subvariant"))]
    rep.ob("R-LEGACY-MAP", "images.Image.deserialize:subvariant", ok, site=cx.site(f.node),
           msg="" if ok else "subvariant must default to '' up to format 1.0 and be mandatory from 1.1 on")
    # rpms 0.3
    f = model.own_method("rpms.Rpms", "deserialize_0_3")
    cx = facts.fctx(model, f)
    S = P(cx.selfname)
    IN = P(cx.params[1])
    man = ("sub", ("sub", IN, ("const", "payload")), ("const", "manifest"))
    adds = [ev for ev in cx.events if ev.kind == "call" and ev.value[1] == ("attr", S, "add")]
    ok = len(adds) == 2 and all(T.contains(ev.loops[0][1], lambda x: x == man) for ev in adds)
    rep.ob("R-LEGACY-MAP", "rpms.Rpms.deserialize_0_3:manifest", ok, site=cx.site(f.node),
           msg="" if ok else "the 0.3 reader must rebuild the table from payload/manifest through add()")
    if ok:
        b = adds[0]
        cat = b.value[2][5]
        alts = set(cat[1]) if cat[0] == "phi" else {cat}
        okc = ("const", "binary") in alts and any(a[0] == "sub" and a[2] == ("const", "type") for a in alts) and len(alts) == 2
        conv = [ev for ev in cx.events if ev.kind == "bind" and ev.value == ("const", "binary")]
        okc = okc and len(conv) == 1 and conv[0].guards and conv[0].guards[-1][1] and conv[0].guards[-1][0][0] == "cmp" \
            and conv[0].guards[-1][0][1] == ("==",) and conv[0].guards[-1][0][2][1] == ("const", "package")
        rep.ob("R-LEGACY-MAP", "rpms.Rpms.deserialize_0_3:type-package->binary", okc, site=cx.site(f.node),
               msg="" if okc else "legacy type 'package' must be mapped to category 'binary' (other types kept)")
    rst = [ev for ev in cx.events if ev.kind == "store" and cx.self_attr(ev.target) == "rpms"]
    ok = len(rst) == 1 and T.unwrap(rst[0].value) == ("dict", ()) and (not adds or rst[0].seq < adds[0].seq)
    rep.ob("R-LEGACY-MAP", "rpms.Rpms.deserialize_0_3:starts-empty", ok, site=cx.site(f.node),
           msg="" if ok else "the 0.3 reader must start from an empty table")
    rep.floor("R-LEGACY-MAP", 25)


# stores of the *current-version* reader path whose value is not taken from the document but derived from other fields of
# the object: each is a documented fallback, confirmed by reading
SELF_DERIVED_OK = {
    ("treeinfo.Release", "short"): "documented fallback: a missing 'short' defaults to the release name",
    ("treeinfo.Variant", "uid"): "the uid under which the document lists the variant (parameter), then overwritten from the file",
    ("treeinfo.Variant", "type"): "the caller's hint for addons, then overwritten from the file",
}


def r_convert_once(model, rep):
    """conversion happens exactly once: for current-version documents no reader derives a field from other fields of the
    object (a legacy conversion that is not gated to legacy versions is applied again when the re-written file is loaded)"""
    V = current_version(model)
    n = 0
    for cls in facts.metadata_classes(model):
        if "deserialize" not in cls.methods:
            continue
        f = FuncRef(cls.module, cls, cls.methods["deserialize"])
        cx = facts.fctx(model, f)
        if len(cx.params) < 2:
            continue
        reads = facts.reader_reads(model, f, version=V)
        for r in reads:
            n += 1
            if r.sources or not isinstance(r.attr, str):
                continue
            data_attrs = cls.init_attrs(model)
            derived = [a for a in cx.self_attrs_in(r.value) if not a.startswith("_") and a in data_attrs
                       and a not in cls.properties]
            if not derived:
                continue
            key = (cls.qname, r.attr)
            ok = key in SELF_DERIVED_OK
            rep.ob("R-CONVERT-ONCE", "%s.%s" % key, ok, site="%s:%s" % (cls.module.rel(), r.ev.lineno),
                   msg="" if ok else "for current-version documents self.%s is derived from self.%s instead of being read from the "
                                     "document: a conversion that runs again every time the file is re-loaded" % (r.attr, "/".join(derived)),
                   trivial=ok)
    if n < 60:
        raise AnalysisError("vacuity guard: R-CONVERT-ONCE looked at %d stores (floor 60)" % n)
    rep.ob("R-CONVERT-ONCE", "current-version-readers", True, facts={"stores_examined": n})


def r_upgrade_reloadable(model, rep):
    """what the current-version loader refuses is refused for every version, or re-checked before a converted document is
    written -- otherwise an old document that loads is written as a current-version file that does not load again.  Instance:
    the identity-collision refusal of Images.add is gated on the header version"""
    f = model.own_method("images.Images", "add")
    cx = facts.fctx(model, f)
    gated = [ev for ev in cx.events if ev.kind == "raise" and any(facts.mentions_version(g[0]) for g in ev.guards)
             and any(T.contains(g[0], lambda x: x[0] == "call" and x[1] == ("global", "identify_image")) for g in ev.guards)]
    if not gated:
        inl = [ev for ev in cx.events if ev.kind == "raise" and any(facts.mentions_version(g[0]) for g in ev.guards)]
        gated = [ev for ev in inl if any(e2.kind == "call" and e2.value[1] == ("global", "identify_image") for e2 in cx.events)]
    cls = model.cls("images.Images")
    rechecked = False
    for name, (defcls, fn) in facts.validator_methods(cls).items():
        vcx = facts.fctx(model, FuncRef(defcls.module, defcls, fn))
        if any(ev.kind == "call" and ev.value[1] == ("global", "identify_image") for ev in vcx.events) \
                and any(ev.kind == "raise" for ev in vcx.events):
            rechecked = True
    ok = not gated or rechecked
    rep.ob("R-UPGRADE-RELOADABLE", "images.Images:identity-collisions-survive-upgrade", ok, site=cx.site(gated[0].lineno if gated else f.node),
           msg="" if ok else "Images.add refuses identity collisions only for header versions >= 1.1 and nothing re-checks them before the "
                             "document is written: a 1.0 document with two images that agree on all identity attributes (they differed "
                             "only in what later became 'subvariant') and have different checksums loads, is written as a current-version "
                             "file, and that file is rejected on reload",
           facts={"gated_refusals": len(gated), "rechecked_by_validator": rechecked})


@register("C05")
def check_c05(model, rep, tier):
    rep.explanation = (
        "Version dispatch and upgrade structure, decided statically: every if/elif chain over header.version_tuple (22 "
        "sites) is evaluated by constant folding on a grid of versions and must equal the documented dispatch (so "
        "equivalent rewrites are silent and an off-by-one operator is caught at the version where the map differs); both "
        "Header writers always emit the current VERSION and the object's own metadata type; every top-level class creates "
        "its header with the literal type of its module; every top-level reader with gated behaviour ends every path with "
        "set_current_version() after the last gated read (conversion happens exactly once); the key->attribute tables of "
        "the legacy reader branches equal the frozen documented mapping ('product' section, compose date/type/respin "
        "derived from the id, pre-productmd [general] keys, subvariant default, rpms 0.3 manifest). Not decided: that "
        "converted content equals the source at value level; the fixture corpus.")
    rep.not_decided = ["value-level equality of converted content", "behaviour on the shipped fixture corpus"]
    r_gate(model, rep, tier)
    r_hdr_current(model, rep)
    r_setcur(model, rep)
    # every gate reads header.version_tuple: it must be recomputed from the version string on each access (a memo that one of
    # the writers of ``version`` forgets to clear makes a legacy document read as current, or the other way round)
    from .validation import r_version_tuple_fresh
    r_version_tuple_fresh(model, rep)
    r_legacy_map(model, rep)
    r_option_lookup(model, rep)
    r_doc_sections(model, rep, sorted(DOC_SECTIONS))
    # "a second write is byte-identical": what a converted document is written as may not depend on the order in which the
    # legacy file listed things (an unsorted [tree]/variants list is legal) - the order-provenance rule of C08 on the writers
    from .canonical import r_order
    r_order(model, rep)
    from .legacy_fp import r_legacy_facts, r_fix_path_conversion, r_legacy_values
    r_legacy_facts(model, rep)
    r_legacy_values(model, rep)
    r_fix_path_conversion(model, rep)
    # the 0.3 rpm manifest reader reads the compose section like the current one
    f03 = model.own_method("rpms.Rpms", "deserialize_0_3")
    c03 = facts.fctx(model, f03)
    want03 = ("call", ("attr", ("attr", P(c03.selfname), "compose"), "deserialize"), (("sub", P(c03.params[1]), ("const", "payload")),), ())
    ok03 = any(ev.kind == "call" and ev.value == want03 and not ev.guards and not ev.loops for ev in c03.events)
    rep.ob("R-LEGACY-MAP", "rpms.Rpms.deserialize_0_3:compose", ok03, site=c03.site(f03.node),
           msg="" if ok03 else "the 0.3 reader must read the compose section from data['payload'] unconditionally")
    r_fix_path_identity(model, rep, relative_clause=True)
    r_upgrade_reloadable(model, rep)
    from .sources import r_src_route
    from .regexes import r_legacy_compose, r_suffix_tables, r_cid_decode
    # a converted tree is written under the section names the writer derives from the converted type; the legacy readers set that
    # type late (deserialize_0_0 forces 'addon' at the end), so the name must be derived from the fields at the time of writing
    r_section_dep(model, rep)
    # documents older than 0.3 carry date, type and respin only inside the compose id: the legacy reader is as faithful as the decoder
    r_cid_decode(model, rep, r_suffix_tables(model, rep), tier)
    r_src_route(model, rep)
    r_legacy_compose(model, rep)
    r_convert_once(model, rep)
    rep.extra["exhaustive"] = True


# ---------------------------------------------------------------------------------------------------------
# C17
# ---------------------------------------------------------------------------------------------------------
def r_general_prov(model, rep):
    f = model.own_method("treeinfo.General", "serialize")
    cx, emits = facts.writer_emits(model, f)
    S = P(cx.selfname)
    M = "%s._metadata" % cx.selfname
    # a value copied from an authoritative section that is already in the document (parser.get('release', 'name')) is what
    # the sibling writer put there; valid because TreeInfo.serialize writes release and tree before general (checked below)
    OUT = P(cx.params[1])
    sibling = {}
    for child, q_ in (("release", "treeinfo.Release"), ("tree", "treeinfo.Tree")):
        wf = model.own_method(q_, "serialize")
        wcx, wem = facts.writer_emits(model, wf)
        for x in wem:
            if x.kind == "set" and len(x.path) == 2 and x.path[0][0] == "const" and x.path[1][0] == "const" and not x.guards and not x.loops:
                val = T.subst(x.value, lambda y, c=child, w=wcx: ("attr", ("attr", S, "_metadata"), c) if y == ("param", w.selfname) else None)
                sibling[(x.path[0][1], x.path[1][1])] = val
    copied = []

    def from_sibling(y):
        if y[0] == "call" and y[1] == ("attr", OUT, "get") and len(y[2]) == 2 and y[2][0][0] == "const" and y[2][1][0] == "const" \
                and (y[2][0][1], y[2][1][1]) in sibling:
            copied.append(y[2][0][1])
            return sibling[(y[2][0][1], y[2][1][1])]
        return None
    E = {}
    for e in emits:
        if e.kind == "set" and e.path[0] == ("const", "general") and e.path[1][0] == "const":
            e.value = T.subst(e.value, from_sibling)
            E.setdefault(e.path[1][1], []).append(e)
    if copied:
        t_ = model.own_method("treeinfo.TreeInfo", "serialize")
        tcx_ = facts.fctx(model, t_)
        order = [(ev.seq, T.show(T.unwrap(ev.value[1][1]))) for ev in tcx_.calls("serialize")]
        gen = [sq for sq, who in order if "General" in who]
        before = all(any(sq < gen[0] and who.endswith("." + c) for sq, who in order) for c in set(copied)) if gen else False
        rep.ob("R-GENERAL-PROV", "general:copied-sections-written-first", before, site=tcx_.site(t_.node),
               msg="" if before else "[general] copies values from section(s) %s that TreeInfo.serialize has not written yet" % sorted(set(copied)))

    def chains(t):
        return sorted(set(T.attr_chains(t)))

    def one(key):
        if len(E.get(key, [])) != 1:
            rep.ob("R-GENERAL-PROV", "general/%s" % key, False, site=cx.site(f.node),
                   msg="[general]/%s is written %d times, expected once" % (key, len(E.get(key, []))))
            return None
        return E[key][0]

    def ob(key, ok, msg, e=None):
        rep.ob("R-GENERAL-PROV", "general/%s" % key, ok, site=cx.site(e.ev.lineno if e else f.node), msg="" if ok else msg,
               facts={"value": T.show(e.value)[:160]} if e else None)
    e = one("family")
    if e:
        ob("family", e.value == ("attr", ("attr", ("attr", S, "_metadata"), "release"), "name") and not e.guards,
           "family must be release.name: %s" % T.show(e.value), e)
    e = one("version")
    if e:
        ob("version", T.attr_chain(e.value) == M + ".release.version" and not e.guards, "version must be release.version: %s" % T.show(e.value), e)
    e = one("name")
    if e:
        v = e.value
        ok = v[0] == "fmt" and len(v[1]) == 3 and v[1][1] == ("const", " ") \
            and [T.attr_chain(v[1][0]), T.attr_chain(v[1][2])] == [M + ".release.name", M + ".release.version"] and not e.guards
        ob("name", ok, "name must be '%%s %%s' %% (release.name, release.version): %s" % T.show(v), e)
    e = one("arch")
    if e:
        ob("arch", T.attr_chain(e.value) == M + ".tree.arch" and not e.guards, "arch must be tree.arch: %s" % T.show(e.value), e)
    e = one("platforms")
    if e:
        v = e.value
        plat = ("attr", ("attr", ("attr", S, "_metadata"), "tree"), "platforms")
        arch = ("attr", ("attr", ("attr", S, "_metadata"), "tree"), "arch")
        alt = ("call", ("attr", ("const", ","), "join"), (("call", ("global", "sorted"), (("binop", "|", plat, ("set", (arch,))),), ()),), ())
        ok = v == alt and not e.guards
        ob("platforms", ok, "platforms must be the sorted comma list of tree.platforms plus tree.arch: %s" % T.show(v), e)
        # sibling agreement with Tree.serialize
        tf = model.own_method("treeinfo.Tree", "serialize")
        tcx, temits = facts.writer_emits(model, tf)
        tp = [x for x in temits if x.kind == "set" and [T.show(p) for p in x.path] == ["'tree'", "'platforms'"]]
        same = False
        if len(tp) == 1:
            def fn(x):
                if x == ("param", tcx.selfname):
                    return ("attr", ("attr", S, "_metadata"), "tree")
                return None
            same = T.subst(tp[0].value, fn) == v
        rep.ob("R-GENERAL-PROV", "general/platforms==tree/platforms", same, site=cx.site(e.ev.lineno),
               msg="" if same else "[general]/platforms and [tree]/platforms are computed differently")
    e = one("timestamp")
    if e:
        v = e.value
        want = ("call", ("global", "str"), (("call", ("global", "int"), (("attr", ("attr", ("attr", S, "_metadata"), "tree"), "build_timestamp"),), ()),), ())
        ob("timestamp", v == want and not e.guards, "timestamp must be str(int(tree.build_timestamp)): %s" % T.show(v), e)
    e = one("variants")
    vloc = None
    if e:
        v = e.value
        ok = v[0] == "call" and v[1] == ("attr", ("const", ","), "join") and len(v[2]) == 1
        src = v[2][0] if ok else None
        is_sorted = False
        if ok and src[0] == "local":
            vloc = src
            init = src[3]
            ok = init == ("call", ("global", "list"), (("attr", ("attr", S, "_metadata"), "variants"),), ())
            sorts = [ev for ev in cx.events if ev.kind == "call" and ev.value[1][0] == "attr" and ev.value[1][2] == "sort"
                     and ev.value[1][1][0] == "local" and T.same_local(ev.value[1][1], src) and not ev.guards and not ev.value[2] and not ev.value[3]]
            is_sorted = bool(sorts) and sorts[0].seq < e.ev.seq
        elif ok and src[0] == "call" and src[1] == ("global", "sorted"):
            is_sorted = True
            ok = src[2] == (("attr", ("attr", S, "_metadata"), "variants"),)
        ob("variants", ok and is_sorted and not e.guards, "variants must be the sorted comma list of the top-level variant ids: %s" % T.show(v), e)
    e = one("variant")
    mv = None
    if e:
        v = e.value
        mvp = P("main_variant") if "main_variant" in cx.params else None
        raw = facts.emit_raw(e)
        ok = mvp is not None and raw is not None
        if ok:
            isnone = ("cmp", ("is",), (mvp, ("const", None)))
            given = T.degate(facts.Scenario(cx, atoms={isnone: False}).term(raw))
            dflt = T.degate(facts.Scenario(cx, atoms={isnone: True}).term(raw))
            ok = given == mvp and dflt[0] == "sub" and dflt[2] == ("const", 0)
            if ok:
                lst = dflt[1]
                if lst[0] == "local":
                    # list(<variants>) sorted in place before element 0 is taken
                    sorts = [ev for ev in cx.events if ev.kind == "call" and ev.value[1][0] == "attr" and ev.value[1][2] == "sort"
                             and T.same_local(ev.value[1][1], lst) and not ev.guards and not ev.value[2] and not ev.value[3]]
                    ok = lst[3] == ("call", ("global", "list"), (("attr", ("attr", S, "_metadata"), "variants"),), ()) \
                        and bool(sorts) and sorts[0].seq < e.ev.seq and (vloc is None or T.same_local(lst, vloc))
                else:
                    ok = lst == ("call", ("global", "sorted"), (("attr", ("attr", S, "_metadata"), "variants"),), ())
        mv = e.value
        mv_raw = raw if raw is not None else mv
        ob("variant", ok and not e.guards, "variant must be main_variant when given, else the first of the sorted top-level ids: %s" % T.show(v), e)
    for key, primary, fallback in (("packagedir", "packages", "source_packages"), ("repository", "repository", "source_repository")):
        es = E.get(key, [])
        ok = bool(es)
        msg = "[general]/%s must be written from paths.%s, falling back to paths.%s only in a 'src' tree" % (key, primary, fallback)
        if ok and mv is not None:
            # what is written in each of the eight cases (binary path set?, src tree?, source path set?), whatever the spelling:
            # if/elif with two writes, one write of a value chosen before, a helper per option ...
            base = ("attr", ("sub", ("attr", ("attr", S, "_metadata"), "variants"), mv_raw), "paths")
            pv = ("attr", base, primary)
            fv = ("attr", base, fallback)
            p_none = ("cmp", ("is",), (pv, ("const", None)))
            f_none = ("cmp", ("is",), (fv, ("const", None)))
            is_src = ("cmp", ("==",), (("attr", ("attr", ("attr", S, "_metadata"), "tree"), "arch"), ("const", "src")))
            for pn in (False, True):
                for sr in (False, True):
                    for fn_ in (False, True):
                        sc = facts.Scenario(cx, atoms={p_none: pn, is_src: sr, f_none: fn_})
                        want_v = pv if not pn else (fv if sr and not fn_ else None)
                        got = []
                        for e_ in es:
                            h = sc.holds(e_.ev)
                            if h is False:
                                continue
                            raw = facts.emit_raw(e_)
                            val = T.degate(sc.term(raw)) if raw is not None else e_.value
                            got.append((h, val))
                        if want_v is None:
                            ok = ok and not got
                        else:
                            ok = ok and len(got) == 1 and got[0][0] is True and got[0][1] == T.degate(want_v)
        rep.ob("R-GENERAL-PROV", "general/%s" % key, ok, site=cx.site(es[0].ev.lineno if es else f.node), msg="" if ok else msg)
    # main_variant passed through unchanged
    t = model.own_method("treeinfo.TreeInfo", "serialize")
    tcx = facts.fctx(model, t)
    gs = [ev for ev in tcx.calls("serialize") if T.unwrap(ev.value[1][1])[0] == "call" and T.unwrap(ev.value[1][1])[1] == ("global", "General")]
    ok = len(gs) == 1 and facts.arg_of(gs[0].value, "main_variant", 1) == P("main_variant") and not gs[0].guards \
        and T.unwrap(gs[0].value[1][1])[2] == (P(tcx.selfname),)
    rep.ob("R-GENERAL-PROV", "TreeInfo.serialize:passes-main_variant", ok, site=tcx.site(t.node),
           msg="" if ok else "TreeInfo.serialize must write General(self) with main_variant passed through, unconditionally")
    d = model.own_method("treeinfo.TreeInfo", "dump")
    dcx = facts.fctx(model, d)
    se = dcx.calls("serialize", on_self=True)
    ok = len(se) == 1 and facts.arg_of(se[0].value, "main_variant", 1) == P("main_variant")
    rep.ob("R-GENERAL-PROV", "TreeInfo.dump:passes-main_variant", ok, site=dcx.site(d.node),
           msg="" if ok else "TreeInfo.dump must pass main_variant on to serialize()")
    rep.floor("R-GENERAL-PROV", 8)


@register("C17")
def check_c17(model, rep, tier):
    rep.explanation = (
        "Field provenance of the [general] compatibility section, decided on def-use terms of General.serialize: for each "
        "key the set of model fields flowing into the value and the normalisers on the way must be the authoritative ones "
        "(family <- release.name; version <- release.version; name <- '%s %s' of both in that order; arch <- tree.arch; "
        "platforms <- sorted comma list of tree.platforms plus tree.arch, computed exactly like [tree]/platforms; "
        "timestamp <- str(int(build_timestamp)); variants <- sorted top-level ids; variant <- main_variant when given, "
        "else element 0 of the sorted list; packagedir/repository <- that variant's packages/repository, falling back to "
        "the source paths only when tree.arch == 'src'); TreeInfo.dump/serialize pass main_variant through. "
        "Not decided: textual equality after ConfigParser formatting.")
    rep.not_decided = ["textual equality after ConfigParser formatting"]
    r_general_prov(model, rep)
    # sibling agreement: the [variant-*] section carries the same untransformed attribute values [general] copies
    f = model.own_method("treeinfo.VariantPaths", "serialize")
    cx, emits = facts.writer_emits(model, f)
    S = P(cx.selfname)
    st = [e for e in emits if e.kind == "set"]
    ok = len(st) == 1 and len(st[0].loops) == 1 and st[0].loops[0][1] == ("attr", S, "_fields")
    if ok:
        name = ("elem", st[0].loops[0][1], st[0].loops[0][0])
        ok = st[0].value in (("call", ("global", "getattr"), (S, name, ("const", None)), ()), ("call", ("global", "getattr"), (S, name), ()))
    rep.ob("R-GENERAL-PROV", "variant-section-paths-untransformed", ok, site=cx.site(f.node),
           msg="" if ok else "[variant-*] paths are written through a transformation while [general] copies the raw attribute: packagedir / "
                             "repository no longer equal the main variant's packages / repository as written")
