# -*- coding: utf-8 -*-
"""placeholder until R-SCHEMA lands"""


def r_required(model, rep):
    return
