# -*- coding: utf-8 -*-
"""
Writer/reader agreement rules shared by C01..C05, C07, C17:
R-SCHEMA, R-FIELDS, R-COMPOSITE, R-REQUIRED, R-GATE, R-HDR-CURRENT, R-SETCUR.
"""
from __future__ import annotations

import ast

from .. import facts
from .. import terms as T
from ..core import AnalysisError
from ..model import FuncRef, NotConst
from .oracle_tables import REQUIRED_KEYS_SOFT_OK, REQUIRED_IN_OPTIONAL_SECTION
from .pinned_keys import PINNED_KEYS

HOLE = ("bound", "□")


def current_version(model):
    v = model.const("common", "VERSION")
    if not (isinstance(v, tuple) and len(v) == 2):
        raise AnalysisError("common.VERSION is not a pair")
    return v


# ---------------------------------------------------------------------------------------------------------
# R-SCHEMA
# ---------------------------------------------------------------------------------------------------------
# keys the writer emits that the current reader does not store (derived / checked instead of stored)
SCHEMA_SKIP = {
    ("treeinfo.Header", "version"): "written from the VERSION constant, read into self.version (R-HDR-CURRENT)",
}
WRITTEN_ONLY = {
    ("common.Header", "type"): "read and compared with the expected type (R-HDR-GATE), not stored",
    ("treeinfo.Header", "type"): "read and compared with the expected type (R-HDR-GATE), not stored",
    ("treeinfo.Variant", "parent"): "derived: the reader re-creates the parent link from the 'addons' list",
    ("treeinfo.Variant", "addons"): "read into a local and turned into child variants (R-TI-VARIANT-TREE)",
    ("composeinfo.Variant", "variants"): "read into a local and turned into child variants (R-VARIANT-TREE)",
}
READ_ONLY = {}
# a guarded write may depend on these attributes besides its own
COMPANIONS = {
    ("composeinfo.Compose", "final"): {"label"},
    ("images.Image", "additional_variants"): {"unified"},
}
# attributes a guarded *read* may depend on (confirmed by reading), with the reason
READ_COMPANIONS = {
}
# dropping the key when the companion is unset is not a documented normalisation: validate() must refuse that combination
OMISSION_REFUSED = {("images.Image", "additional_variants")}
# documented defaults that differ from the attribute's __init__ value
DOCUMENTED_DEFAULTS = {
    ("images.Image", "format"): "iso",     # format did not exist before 1.0 documents; every image then was an ISO
    ("composeinfo.BaseProduct", "type"): "ga",
    ("composeinfo.Release", "type"): "ga",
}
# (writer shape, reader shape) pairs confirmed by reading to be inverse on the validated domain.
# □ is the attribute on the writer side and the document value on the reader side.
INVERSE_PAIRS = {
    ("□", "□"): "identity",
    ("□", "dict(□)"): "shallow copy of a JSON object",
    ("□", "list(□)"): "shallow copy of a JSON array",
    ("□", "(□ or None)"): "label: empty/None label is stored as absent and read back as None",
    ("□", "bool(□)"): "writer-side validator asserts bool (final next to a label, bootable)",
    ("bool(□)", "bool(□)"): "bool both ways",
    ("□", "□.lower()"): "release type is case-folded on read (documented normalisation)",
    ("sorted(□)", "set(□)"): "set <-> sorted list",
    ("□", "int(□)"): "writer-side validator asserts int (mtime, size, disc_number, disc_count)",
    ("'true'", "getboolean(□)"): "INI boolean: 'true' written under a truthy guard, read with getboolean",
    ("str(□)", "int(getfloat(□))"): "integer build timestamps (quantifier: integer timestamps): str <-> int(getfloat)",
    ("str(int(□))", "getint(□)"): "media numbers: str(int(x)) <-> getint",
    ("','.join(sorted((□ | {self.arch})))", "set<$0 for $0 in □.split(',') if $0>"):
        "platforms: sorted comma list of the set (plus the tree arch, C17) <-> set of the non-empty items",
    ("□", "self._fix_path(□)"): "_fix_path is the identity for every version but 0.0 (R-GATE)",
    ("','.join(sorted((□ | {self.arch})))", "set<$0.strip() for $0 in □.split(',') if $0.strip()>"):
        "platforms read tolerantly (blanks around names dropped): inverse when the validator refuses padded names",
}


# pairs that are inverse only on a restricted domain, which the writer-side validator must guarantee
PAIR_PRECONDITION = {
    ("','.join(sorted((□ | {self.arch})))", "set<$0.strip() for $0 in □.split(',') if $0.strip()>"): ("elements-unpadded",),
    ("□", "int(□)"): ("int",),
    ("□", "bool(□)"): ("bool",),
}


def normalize_shape(t):
    """value-preserving rewrites so that equivalent spellings give one shape"""
    def fn(x):
        if x[0] == "call" and x[1][0] == "global" and len(x[2]) == 1 and not x[3]:
            f, a = x[1][1], x[2][0]
            # set([a, b]) / set((a, b))  ->  {a, b}
            if f == "set" and a[0] in ("list", "tuple") and a[1]:
                return ("set", a[1])
            # sorted(list(X)) / sorted(tuple(X)) / set(list(X)) -> drop the inner copy
            if f in ("sorted", "set", "list", "tuple", "frozenset") and a[0] == "call" and a[1][0] == "global" \
                    and a[1][1] in ("list", "tuple") and len(a[2]) == 1 and not a[3]:
                return ("call", x[1], (a[2][0],), ())
            if f in ("list", "tuple") and a[0] == "call" and a[1] == ("global", "sorted"):
                return a
        return None
    return T.subst(t, fn)


def wshape(cx, value, attrs):
    def fn(x):
        a = cx.self_attr(x)
        if a is not None and a in attrs:
            return HOLE
        return None
    return T.show(normalize_shape(T.subst(value, fn)))


def rshape(value, sources):
    terms = [s[3] for s in sources]

    def hole_for(t):
        # INI typed getters are part of the transform
        if t[0] == "call" and t[1][0] == "attr" and t[1][2] in ("getint", "getfloat", "getboolean"):
            return ("call", ("global", t[1][2]), (HOLE,), ())
        return HOLE

    def rec(t):
        if t in terms:
            return hole_for(t)
        if not isinstance(t, tuple) or not t or t[0] == "const":
            return t
        if isinstance(t[0], str) and t[0] in T._KINDS:
            return (t[0],) + tuple(rec(x) for x in t[1:])
        return tuple(rec(x) for x in t)
    return T.show(normalize_shape(rec(value)))


def _const_key(t):
    return t[1] if t[0] == "const" else None


def schema_tables(model, qname, reader_in=1):
    """(writer ctx, {key: [Emit]}, reader reads {key: [Read]}, section terms)"""
    V = current_version(model)
    wf = model.own_method(qname, "serialize")
    wcx, emits = facts.writer_emits(model, wf)
    rf = model.own_method(qname, "deserialize")
    reads = facts.reader_reads(model, rf, in_index=reader_in, version=V)
    W = {}
    wsec = set()
    for e in emits:
        if e.kind in ("store", "set") and e.path:
            k = _const_key(e.path[-1])
            if k is None or e.value == ("dict", ()):
                continue
            W.setdefault(k, []).append(e)
            wsec.add(tuple(T.show(p) for p in e.path[:-1]))
    R = {}
    rsec = set()
    unkeyed = []
    for r in reads:
        keyed = False
        for s in r.sources:
            k = _const_key(s[0][-1]) if s[0] else None
            if k is not None:
                R.setdefault(k, []).append((r, s))
                rsec.add(tuple(T.show(p) for p in s[0][:-1]))
                keyed = True
        if not keyed:
            unkeyed.append(r)
    return wcx, W, R, wsec, rsec, unkeyed, emits, reads


SECTION_BY_RULE = {"treeinfo.Variant": "the section name depends on the variant type: decided by R-SECTION-DEP"}
SECTION_EQUIV = {
    # writer section text -> reader section text accepted as the same place, with the reason
    ("composeinfo.Variant", ("self.uid",), ("variant_uid",)): "Variants/Variant.deserialize pass the key the variant is stored under",
    ("images.Image", ("'[]'",), ()): "one list element <-> one dict handed to Image.deserialize",
    ("treeinfo.Tree", ("'tree'",), ("('tree' if parser.has_section('tree') else 'general')",)): "[tree], with the documented legacy fallback to [general]",
}


def _attr_polarities(cx, t, pol):
    """[(attribute of self, +1 | -1 | 0)] for every occurrence in the condition ``t`` (required to be ``pol``): +1 when the
    condition asks for the attribute to be set (truthy / not None), -1 when it asks for it to be unset, 0 when it is compared
    in some other way"""
    out = []

    def rec(x, sign):
        a = cx.self_attr(x)
        if a is not None:
            out.append((a, sign))
            return
        if x[0] == "unary" and x[1] == "not":
            return rec(x[2], -sign)
        if x[0] == "boolop":
            for y in x[2]:
                rec(y, sign)
            return
        if x[0] == "cmp" and len(x[1]) == 1 and x[1][0] in ("is", "is not", "==", "!=") and ("const", None) in x[2]:
            other = [y for y in x[2] if y != ("const", None)]
            if len(other) == 1 and cx.self_attr(other[0]) is not None:
                out.append((cx.self_attr(other[0]), sign if x[1][0] in ("is not", "!=") else -sign))
                return
        if x[0] == "call" and x[1] == ("global", "bool") and len(x[2]) == 1:
            return rec(x[2][0], sign)
        for a in cx.self_attrs_in(x):
            out.append((a, 0))
    rec(t, 1 if pol else -1)
    return out


def r_schema(model, rep, qname, floor_keys):
    cls = model.cls(qname)
    wcx, W, R, wsec, rsec, unkeyed, emits, reads = schema_tables(model, qname)
    init = cls.init_attrs(model)
    # (e) section agreement
    if qname in SECTION_BY_RULE:
        wsec = rsec = set()
    ok = wsec == rsec
    if not ok:
        ok = all((ws == rs) or (qname, ws, rs) in SECTION_EQUIV or any(
            (qname, ws, r2) in SECTION_EQUIV for r2 in rsec) for ws in wsec for rs in rsec if ws != rs) and \
            all(any(ws == rs or (qname, ws, rs) in SECTION_EQUIV for ws in wsec) for rs in rsec)
    rep.ob("R-SCHEMA", "%s:section" % qname, ok, site=wcx.site(wcx.node),
           msg="" if ok else "writer emits under %s but the reader reads from %s" % (sorted(wsec), sorted(rsec)),
           facts={"writer": sorted(wsec), "reader": sorted(rsec)})
    # (a) key sets
    wkeys = set(k for k in W if (qname, k) not in WRITTEN_ONLY)
    rkeys = set(k for k in R if (qname, k) not in READ_ONLY)
    if len(wkeys | rkeys) < max(1, floor_keys // 2) or not wkeys or not rkeys:
        raise AnalysisError("vacuity guard: key tables of %s have %d writer / %d reader keys (expected about %d): extraction not "
                            "understood" % (qname, len(wkeys), len(rkeys), floor_keys))
    for k in sorted(wkeys | rkeys):
        if (qname, k) in SCHEMA_SKIP:
            continue
        ok = k in wkeys and k in rkeys
        site = wcx.site(W[k][0].ev.lineno) if k in W else "%s:%s" % (cls.module.rel(), R[k][0][0].ev.lineno)
        rep.ob("R-SCHEMA", "%s:key:%s" % (qname, k), ok, site=site,
               msg="" if ok else ("key %r is written but never read back by the current-version reader" % k if k in wkeys
                                  else "key %r is read by the current-version reader but never written" % k))
        if not ok:
            continue
        # (b) attribute agreement
        wattrs = set()
        for e in W[k]:
            wattrs |= set(wcx.self_attrs_in(e.value))
        rattrs = set(r.attr for r, s in R[k])
        # a constant written under a guard on the attribute ('true' if self.is_layered)
        if not wattrs:
            for e in W[k]:
                for g in facts.non_gate_guards(e.ev):
                    wattrs |= set(wcx.self_attrs_in(g[0]))
        okb = len(rattrs) == 1 and rattrs <= wattrs and len(wattrs - rattrs) <= 1
        extra = wattrs - rattrs
        if extra and extra != {"arch"}:
            okb = False
        rep.ob("R-SCHEMA", "%s:attr:%s" % (qname, k), okb, site=site,
               msg="" if okb else "key %r is written from self.%s but read into self.%s" % (k, "/".join(sorted(wattrs)) or "?", "/".join(sorted(rattrs))))
        if not okb:
            continue
        attr = list(rattrs)[0]
        # (c) guards and defaults
        for e in W[k]:
            # (what is left of an earlier ``if <nothing to write>: return`` is not a condition of this key: whether that return
            # is legitimate is R-SKIP-IMPLIES-EMPTY's question)
            own = facts.own_guards(wcx, e.ev, kinds=("return",))
            guards = [g for g in facts.non_gate_guards(e.ev) if g in own]
            gattrs = set()
            for g in guards:
                gattrs |= set(wcx.self_attrs_in(g[0]))
                for x in T.walk(g[0]):
                    if x[0] == "local":
                        gattrs.add("<local:%s>" % x[1])
            allowed = {attr} | COMPANIONS.get((qname, k), set())
            okg = gattrs <= allowed
            rep.ob("R-SCHEMA", "%s:guard:%s" % (qname, k), okg, site=wcx.site(e.ev.lineno),
                   msg="" if okg else "key %r is only written under a condition on %s (allowed: its own attribute %s)" % (
                       k, sorted(gattrs - allowed), sorted(allowed)))
            # a key may be left out when its attribute (or companion) is unset - never when it is set
            neg = sorted(set(a for g in guards for a, sign in _attr_polarities(wcx, g[0], g[1]) if sign < 0 and a in allowed))
            rep.ob("R-SCHEMA", "%s:omitted-only-when-unset:%s" % (qname, k), not neg, site=wcx.site(e.ev.lineno),
                   msg="" if not neg else "key %r is written only when self.%s is UNSET: a set value is dropped and read back as the "
                                          "default" % (k, "/".join(neg))) if guards else None
            for comp in sorted(gattrs - {attr}) if okg and (qname, k) in OMISSION_REFUSED else ():
                from .validation import omission_refused
                okr = omission_refused(model, cls, attr, comp)
                rep.ob("R-SCHEMA", "%s:omission-refused:%s" % (qname, k), okr, site=wcx.site(e.ev.lineno),
                       msg="" if okr else "key %r is only written when self.%s is set, and validate() does not refuse an object with "
                                          "self.%s set and self.%s unset: such an object is written without %r and read back "
                                          "with the default" % (k, comp, attr, comp, k))
            conditional = bool(guards)
            for r, s in R[k]:
                rguards = [g for g in r.guards]
                # a key is read whenever the document has it: whether it is read may depend on the document (a probe, another
                # key), never on what the object holds at that moment or on an unrelated argument
                rattrs_g = set()
                for g in rguards:
                    if g[0][0] == "exc" or facts.is_pure_gate(g[0]):
                        continue
                    rattrs_g |= set(a for a in wcx.self_attrs_in(g[0]) if not a.startswith("_"))
                rallowed = READ_COMPANIONS.get((qname, k), set())
                okr_ = rattrs_g <= rallowed
                rep.ob("R-SCHEMA", "%s:read-guard:%s" % (qname, k), okr_, site="%s:%s" % (cls.module.rel(), r.ev.lineno),
                       msg="" if okr_ else "key %r is only read under a condition on self.%s (what the object holds while it is being "
                                            "filled): a document that has the key is read without it" % (k, "/".join(sorted(rattrs_g - rallowed))))
                guarded_read = any(T.contains(g[0], lambda x: x[0] == "call" and x[1][0] == "attr" and x[1][2] in ("has_option", "has_section")) or
                                   T.contains(g[0], lambda x: x[0] == "cmp" and x[1] == ("in",) and x[2][0] == ("const", k)) for g in rguards)
                # a read guarded by has_option must probe the very (section, option) it reads: probing another place never
                # finds the option, and the value the writer stored is silently ignored
                for g in rguards:
                    for x in T.walk(g[0]):
                        if x[0] == "call" and x[1][0] == "attr" and x[1][2] == "has_option" and len(x[2]) == 2 and len(s[0]) == 2 \
                                and g[1] is True and x[2][1] in (("const", k), s[0][1]):
                            okp = wcx.norm(x[2][0]) == s[0][0] or T.show(x[2][0]) == T.show(s[0][0])
                            rep.ob("R-SCHEMA", "%s:probe:%s" % (qname, k), okp, site="%s:%s" % (cls.module.rel(), r.ev.lineno),
                                   msg="" if okp else "option %r is read from section %s but its presence is probed in %s" % (
                                       k, T.show(s[0][0]), T.show(x[2][0])))
                        elif x[0] == "call" and x[1][0] == "attr" and x[1][2] == "has_option" and len(x[2]) == 2 and len(s[0]) == 2 \
                                and g[1] is True and x[2][0] in (("const", k), s[0][1]):
                            rep.ob("R-SCHEMA", "%s:probe:%s" % (qname, k), False, site="%s:%s" % (cls.module.rel(), r.ev.lineno),
                                   msg="has_option(%s, %s): section and option are swapped" % (T.show(x[2][0]), T.show(x[2][1])))
                if len(s[0]) == 2 and s[1] != "soft":
                    direct = [facts.canon_guard_pair(g) for g in rguards]
                    direct = [g for g in direct if g[1] and g[0][0] == "call" and g[0][1][0] == "attr" and g[0][1][2] == "has_option" and len(g[0][2]) == 2]
                    same_sec = [g for g in direct if (T.show(g[0][2][0]) == T.show(s[0][0]) or wcx.norm(g[0][2][0]) == s[0][0])
                                and g[0][2][1][0] == "const"]
                    if same_sec and not any(g[0][2][1] == ("const", k) for g in same_sec):
                        rep.ob("R-SCHEMA", "%s:probe:%s" % (qname, k), False, site="%s:%s" % (cls.module.rel(), r.ev.lineno),
                               msg="option %r is read when option %s of the same section exists: its own presence is never probed" % (
                                   k, T.show(same_sec[0][0][2][1])))
                if conditional:
                    okc = s[1] == "soft" or guarded_read
                    rep.ob("R-SCHEMA", "%s:optional:%s" % (qname, k), okc, site="%s:%s" % (cls.module.rel(), r.ev.lineno),
                           msg="" if okc else "key %r is written conditionally but read unconditionally (KeyError on the library's own output)" % k)
                if s[1] == "soft" and conditional:
                    # (the default of a key that is always written is never used on the library's own output)
                    d = s[2]
                    ia = init.get(attr)
                    want = None
                    try:
                        dv = wcx.const_of(d) if d is not None else None
                        iv = model.fold(ia.value, ia.cls.module) if ia is not None and ia.value is not None else None
                        okd = dv == iv or DOCUMENTED_DEFAULTS.get((qname, k), object()) == dv
                        want = iv
                    except NotConst:
                        okd = False
                        dv = T.show(d)
                    rep.ob("R-SCHEMA", "%s:default:%s" % (qname, k), okd, site="%s:%s" % (cls.module.rel(), r.ev.lineno),
                           msg="" if okd else "default %r used when %r is absent differs from the attribute's initial value %r" % (dv, k, want))
        # (d) transform pair
        for e in W[k]:
            ws = wshape(wcx, e.value, {attr})
            for r, s in R[k]:
                rs = rshape(r.value, [s])
                okt = (ws, rs) in INVERSE_PAIRS
                need = PAIR_PRECONDITION.get((ws, rs))
                if okt and need == ("elements-unpadded",):
                    okp = any(a.field == attr and a.kind == "raise" and any(
                        T.contains(g[0], lambda t: t[0] == "cmp" and any(y[0] == "call" and y[1][0] == "attr" and y[1][2] == "strip" for y in t[2]))
                        for g in a.guards) for a in facts.assertions_of(model, cls))
                    rep.ob("R-SCHEMA", "%s:transform-precondition:%s" % (qname, k), okp, site=wcx.site(e.ev.lineno),
                           msg="" if okp else "written as %s and read back as %s: inverse only if the validator of %s refuses names with "
                                              "surrounding blanks" % (ws, rs, attr))
                elif okt and need is not None:
                    # the pair is inverse only on values of that type: the writer-side validator must assert it
                    wg = facts.canon_guards(wcx.norm(g[0]) and (wcx.norm(g[0]), g[1]) for g in e.guards)
                    types = []
                    for a in facts.assertions_of(model, cls):
                        if a.field != attr or a.kind != "type":
                            continue
                        acx = facts.fctx(model, FuncRef(a.defcls.module, a.defcls, a.defcls.methods[a.method]))
                        ag = facts.canon_guards((acx.norm(g[0]), g[1]) for g in a.guards)
                        if ag <= wg:       # the assertion is in force whenever the key is written
                            types.append(a.arg)
                    okp = bool(types) and all(t_ <= set(need) for t_ in types)
                    rep.ob("R-SCHEMA", "%s:transform-precondition:%s" % (qname, k), okp, site=wcx.site(e.ev.lineno),
                           msg="" if okp else "written as %s and read back as %s: inverse only for %s values, but the validator of %s accepts %s"
                           % (ws, rs, "/".join(need), attr, sorted(set().union(*types)) if types else "anything"))
                rep.ob("R-SCHEMA", "%s:transform:%s" % (qname, k), okt, site=wcx.site(e.ev.lineno),
                       msg="" if okt else "written as %s but read back as %s: not a confirmed inverse pair" % (ws, rs),
                       facts={"writer": ws, "reader": rs, "why": INVERSE_PAIRS.get((ws, rs))})
    return W, R, unkeyed


# ---------------------------------------------------------------------------------------------------------
# R-FIELDS
# ---------------------------------------------------------------------------------------------------------
FIELD_EXEMPT = {
    ("treeinfo.Header", "version"): "the file always carries the current version (R-HDR-CURRENT)",
    ("common.Header", "parent"): "back-pointer",
    ("treeinfo.Header", "parent"): "back-pointer",
    ("images.Image", "parent"): "back-pointer",
    ("composeinfo.Variant", "parent"): "re-created from the nesting on load (R-VARIANT-TREE)",
    ("composeinfo.Variant", "variants"): "emitted by recursion (R-NESTED-REACH) and as the 'variants' id list",
    ("composeinfo.VariantBase", "parent"): "back-pointer",
    ("composeinfo.Variants", "parent"): "always None",
    ("composeinfo.Variants", "variants"): "emitted by recursion",
    ("composeinfo.VariantPaths", "identity"): "declared but not part of the documented format",
    ("composeinfo.VariantPaths", "parent"): "unused",
    ("treeinfo.Variants", "parent"): "always None",
    ("treeinfo.Variants", "variants"): "emitted by recursion and as [tree]/variants",
    ("treeinfo.Variant", "variants"): "emitted by recursion and as the 'addons' list",
}


def r_fields(model, rep, qname):
    """every public data attribute assigned in __init__ is emitted by serialize"""
    cls = model.cls(qname)
    wf = model.own_method(qname, "serialize")
    wcx, emits = facts.writer_emits(model, wf)
    used = set()
    for e in emits:
        used |= set(wcx.self_attrs_in(e.value))
        for g in e.guards:
            pass
        for p in e.path:
            used |= set(wcx.self_attrs_in(p))
    # field-list loops:  for name in self._fields: getattr(self, name)
    for e in emits:
        for x in T.walk(e.value):
            if x[0] == "call" and x[1] == ("global", "getattr") and x[2] and wcx.is_self(x[2][0]) and x[2][1][0] == "elem":
                try:
                    for n in wcx.const_of(x[2][1][1]):
                        used.add(n)
                except NotConst:
                    pass
    # a constant written under a guard on the attribute
    for e in emits:
        if not wcx.self_attrs_in(e.value):
            for g in facts.non_gate_guards(e.ev):
                used |= set(wcx.self_attrs_in(g[0]))
    for attr, ia in sorted(cls.init_attrs(model).items()):
        if attr.startswith("_"):
            continue
        k = ia.kind(model)
        if k == "param" and (qname, attr) not in (("common.Header", "metadata_type"), ("treeinfo.Header", "metadata_type")):
            continue
        if (qname, attr) in FIELD_EXEMPT or (ia.cls.qname, attr) in FIELD_EXEMPT:
            rep.ob("R-FIELDS", "%s.%s" % (qname, attr), True, trivial=True, facts={"exempt": FIELD_EXEMPT.get((qname, attr)) or FIELD_EXEMPT.get((ia.cls.qname, attr))})
            continue
        ok = attr in used
        rep.ob("R-FIELDS", "%s.%s" % (qname, attr), ok, site=wcx.site(wcx.node),
               msg="" if ok else "attribute %s.%s is part of the object but serialize() never emits it" % (qname, attr))


# ---------------------------------------------------------------------------------------------------------
# R-COMPOSITE: top-level writer and reader visit the same children under the same conditions
# ---------------------------------------------------------------------------------------------------------
def composite_children(model, fref, method, version=None, _depth=0):
    cx = facts.fctx(model, fref)
    out = []
    for ev in cx.events:
        if ev.kind != "call" or ev.value[1][0] != "attr":
            continue
        if version is not None and not facts.active_at(ev, version):
            continue
        recv, meth = ev.value[1][1], ev.value[1][2]
        if meth == method:
            a = cx.self_attr(recv)
            if a is None:
                continue
            guards = tuple(sorted("%s:%s" % (T.show(g[0]), "T" if g[1] else "F") for g in facts.non_gate_guards(ev)))
            out.append((a, guards, ev))
        elif cx.is_self(recv) and meth.startswith(method + "_") and _depth < 1 and fref.cls is not None:
            lk = fref.cls.lookup(meth)
            if lk:
                sub = FuncRef(lk[0].module, lk[0], lk[1])
                out.extend(composite_children(model, sub, method, version, _depth + 1)[1])
    return cx, out


def r_composite(model, rep, qname, expected_children):
    wcx, wch = composite_children(model, model.own_method(qname, "serialize"), "serialize")
    rcx, rch = composite_children(model, model.own_method(qname, "deserialize"), "deserialize", version=current_version(model))
    wmap = dict((a, g) for a, g, ev in wch)
    rmap = dict((a, g) for a, g, ev in rch)
    for a in expected_children:
        ok = a in wmap and a in rmap
        rep.ob("R-COMPOSITE", "%s:child:%s" % (qname, a), ok, site=wcx.site(wcx.node),
               msg="" if ok else "section object %r is %s" % (a, "not written" if a not in wmap else "not read back"))
        if ok:
            okg = wmap[a] == rmap[a]
            rep.ob("R-COMPOSITE", "%s:condition:%s" % (qname, a), okg, site=wcx.site(wcx.node),
                   msg="" if okg else "self.%s is written under %s but read under %s" % (a, list(wmap[a]) or "no condition", list(rmap[a]) or "no condition"))
    extra = (set(wmap) | set(rmap)) - set(expected_children)
    # a section object the table does not know: symmetric (written and read under the same condition) is fine, and so is a
    # write-only object whose class has no reader (a compatibility section like [general]); anything else loses data
    bad_extra = []
    cls_ = model.cls(qname)
    for a in sorted(extra):
        if a in wmap and a in rmap and wmap[a] == rmap[a]:
            continue
        if a in wmap and a not in rmap:
            ia = cls_.init_attrs(model).get(a)
            k = ia.kind(model) if ia is not None else None
            if isinstance(k, tuple):
                lk = k[1].lookup("deserialize")
                if lk is None or lk[0].qname == "common.MetadataBase":      # only the abstract stub
                    continue
        bad_extra.append(a)
    rep.ob("R-COMPOSITE", "%s:children" % qname, not bad_extra, site=wcx.site(wcx.node), trivial=True,
           msg="" if not bad_extra else "section object(s) %s are not written and read back under the same condition" % bad_extra)
    # reader order: header first, release before base_product (their gates / conditions depend on them)
    order = [a for a, g, ev in rch]
    ok = bool(order) and order[0] == "header"
    if "base_product" in order and "release" in order:
        ok = ok and order.index("release") < order.index("base_product")
    rep.ob("R-COMPOSITE", "%s:reader-order" % qname, ok, site=rcx.site(rcx.node),
           msg="" if ok else "the reader must read the header first and the release before the base product: %s" % order)
    # writer: header is written on every path
    hdr = [ev for a, g, ev in wch if a == "header"]
    ok = bool(hdr) and not hdr[0].guards and not hdr[0].loops
    rep.ob("R-COMPOSITE", "%s:header-always-written" % qname, ok, site=wcx.site(wcx.node),
           msg="" if ok else "the header is not written unconditionally")


# ---------------------------------------------------------------------------------------------------------
# R-REQUIRED (C07)
# ---------------------------------------------------------------------------------------------------------
SCHEMA_CLASSES = [
    ("common.Header", 1), ("composeinfo.Compose", 6), ("composeinfo.BaseProduct", 4), ("composeinfo.Release", 6),
    ("composeinfo.Variant", 5), ("images.Image", 15),
    ("treeinfo.Header", 1), ("treeinfo.BaseProduct", 3), ("treeinfo.Release", 4), ("treeinfo.Tree", 3),
    ("treeinfo.Variant", 4), ("treeinfo.Stage2", 2), ("treeinfo.Media", 2),
]


def _validator_rejects_default(model, cls, attr, default):
    """abstractly evaluate the field's assertions on a constant default: does validate() reject it?"""
    for a in facts.assertions_of(model, cls):
        if a.field != attr or any(g[0][0] != "exc" for g in a.guards):
            continue
        if a.kind == "type":
            tname = type(default).__name__
            if tname not in a.arg:
                return True
        if a.kind == "not_blank" and not default:
            return True
        if a.kind == "value" and default not in a.arg:
            return True
    return False


def _written_conditionally(model, qname, key):
    wf = model.own_method(qname, "serialize")
    cx, emits = facts.writer_emits(model, wf)
    mine = [e for e in emits if e.path and _const_key(e.path[-1]) == key]
    return bool(mine) and all(facts.non_gate_guards(e.ev) for e in mine)


def r_required(model, rep):
    """mandatory keys are read hard, or their default is rejected by the field validator; soft reads are allowed
    exactly for the documented-optional set"""
    n = 0
    for qname, _ in SCHEMA_CLASSES:
        cls = model.cls(qname)
        V = current_version(model)
        rf = model.own_method(qname, "deserialize")
        reads = facts.reader_reads(model, rf, version=V)
        for r in reads:
            for s in r.sources:
                k = _const_key(s[0][-1]) if s[0] else None
                if k is None:
                    continue
                n += 1
                probes = ("has_option",) if (qname, k) in REQUIRED_IN_OPTIONAL_SECTION else ("has_option", "has_section")
                guarded = any(T.contains(g[0], lambda x: x[0] == "call" and x[1][0] == "attr" and x[1][2] in probes)
                              for g in r.guards)
                # a JSON key copied only when present (``if k in section: self.k = section[k]``): absent, the attribute keeps
                # the value __init__ gave it
                kept_init = s[1] != "soft" and any(
                    g[1] is True and g[0][0] == "cmp" and g[0][1] == ("in",) and g[0][2][0] == ("const", k) for g in r.guards)
                soft = s[1] == "soft" or guarded or kept_init
                if not soft:
                    rep.ob("R-REQUIRED", "%s:%s" % (qname, k), True, site="%s:%s" % (cls.module.rel(), r.ev.lineno),
                           facts={"access": "hard"})
                    continue
                if (qname, k) in REQUIRED_KEYS_SOFT_OK:
                    rep.ob("R-REQUIRED", "%s:%s" % (qname, k), True, site="%s:%s" % (cls.module.rel(), r.ev.lineno),
                           facts={"access": "soft", "documented_optional": True})
                    continue
                if (qname, k) not in PINNED_KEYS and _written_conditionally(model, qname, k):
                    # a key added after the pinned tree that the writer itself omits under some condition is optional by
                    # construction (R-SCHEMA checks that the reader's default matches what the omission means)
                    rep.ob("R-REQUIRED", "%s:%s" % (qname, k), True, site="%s:%s" % (cls.module.rel(), r.ev.lineno),
                           facts={"access": "soft", "new_optional_key": True})
                    continue
                rejected = False
                d = s[2] if s[1] == "soft" else None
                if kept_init:
                    ia_ = cls.init_attrs(model).get(r.attr)
                    try:
                        d = ("const", model.fold(ia_.value, ia_.cls.module)) if ia_ is not None and ia_.value is not None else ("const", None)
                    except NotConst:
                        d = None
                if d is not None:
                    # a default that depends on the format version only: the one in force for a current-version document
                    d = facts.pick_at_version(d, V)
                if d is not None and d[0] == "const":
                    dv, raises = d[1], False
                    # the coercion applied to what was read is applied to the default as well
                    acc = s[3] if len(s) > 3 else None
                    if acc is not None and r.value[0] == "call" and r.value[1][0] == "global" and r.value[2] == (acc,) and not r.value[3]:
                        if r.value[1][1] == "int":
                            raises = not isinstance(dv, (int, float, str)) or (isinstance(dv, str) and not dv.strip().lstrip("+-").isdigit())
                            dv = int(dv) if not raises else dv
                        elif r.value[1][1] == "bool":
                            dv = bool(dv)
                    rejected = raises or _validator_rejects_default(model, cls, r.attr, dv)
                rep.ob("R-REQUIRED", "%s:%s" % (qname, k), rejected, site="%s:%s" % (cls.module.rel(), r.ev.lineno),
                       msg="" if rejected else "mandatory key %r is read with a default (%s) that the validator of %s accepts: a "
                                               "document lacking the key would load" % (k, T.show(s[2]) if s[2] else "guarded read", r.attr))
    if n < 55:
        raise AnalysisError("vacuity guard: R-REQUIRED examined %d keyed reads (floor 55)" % n)
    # required sections of the JSON documents are read hard: data["payload"], data["payload"][<table>]
    for q, table in (("images.Images", "images"), ("rpms.Rpms", "rpms"), ("modules.Modules", "modules"),
                     ("extra_files.ExtraFiles", "extra_files")):
        f = model.own_method(q, "deserialize")
        cx = facts.fctx(model, f)
        srcs = []
        inlined = [f]
        for name in ("deserialize_1_0",):
            if name in model.cls(q).methods:
                inlined.append(model.own_method(q, name))
        for g in inlined:
            gcx = facts.fctx(model, g)
            IN = ("param", gcx.params[1])
            for ev in gcx.events:
                for t in (ev.value, ev.target):
                    if t is not None:
                        srcs.extend(facts.source_accesses(gcx, t, IN))
                for lp in ev.loops:
                    srcs.extend(facts.source_accesses(gcx, lp[1], IN))
        hard = any(s[1] == "hard" and [T.show(p) for p in s[0]][:2] == ["'payload'", "'%s'" % table] for s in srcs)
        rep.ob("R-REQUIRED", "%s:payload/%s" % (q, table), hard, site=cx.site(f.node),
               msg="" if hard else "the payload table %r is not read with a hard access" % table)


# ---------------------------------------------------------------------------------------------------------
# R-GATE
# ---------------------------------------------------------------------------------------------------------
# documented dispatch.  function -> [(marker, predicate over the version, description)]
# marker: 'call:<name>'  gated call events of a method/function of that name
#         'raise'        gated raise events
#         'any'          every gated event of the function
def _p(spec):
    return {
        "<0.3": lambda v: v < (0, 3), ">=0.3": lambda v: v >= (0, 3), "<=0.3": lambda v: v <= (0, 3), ">0.3": lambda v: v > (0, 3),
        "<1.0": lambda v: v < (1, 0), "<=1.0": lambda v: v <= (1, 0), "<=1.1": lambda v: v <= (1, 1), ">1.1": lambda v: v > (1, 1),
        ">=1.1": lambda v: v >= (1, 1), "==0.0": lambda v: v == (0, 0), "!=0.0": lambda v: v != (0, 0),
        "0.0<v<=0.3": lambda v: (0, 0) < v <= (0, 3),
    }[spec]


THREE_WAY = [("call:deserialize_0_0", "==0.0", "pre-productmd reader"), ("call:deserialize_0_3", "0.0<v<=0.3", "0.3 reader"),
             ("call:deserialize_1_0", ">0.3", "current reader")]
TWO_WAY_00 = [("call:deserialize_0_0", "==0.0", "pre-productmd reader"), ("call:deserialize_1_0", "!=0.0", "current reader")]
GATE_TABLE = {
    "common.Header.deserialize": [("raise", ">=1.1", "metadata type is checked")],
    "treeinfo.Header.deserialize": [("raise", ">=1.1", "metadata type is checked")],
    "composeinfo.Compose.deserialize": [("call:deserialize_0_3", "<0.3", "date/type/respin derived from the id"),
                                        ("call:deserialize_1_0", ">=0.3", "current reader")],
    "composeinfo.Release.deserialize": [("call:deserialize_0_3", "<=0.3", "'product' section"), ("call:deserialize_1_0", ">0.3", "current reader")],
    "composeinfo.Variants.deserialize": [("call:rsplit", "<1.0", "variant tree derived from UID prefixes")],
    "composeinfo.Variant.deserialize": [("call:keys", "<1.0", "children derived from UID prefixes")],
    "images.Images.deserialize": [("call:_add_1_1", "<=1.1", "src images re-filed under binary arches"), ("call:add", ">1.1", "filed as is")],
    "images.Images.add": [("raise", ">=1.1", "identity uniqueness enforced")],
    "images.Image.deserialize": [("call:get", "<=1.0", "subvariant optional")],
    "rpms.Rpms.deserialize": [("call:deserialize_0_3", "<=0.3", "0.3 manifest reader"), ("call:deserialize_1_0", ">0.3", "current reader")],
    "treeinfo.Release.deserialize": THREE_WAY,
    "treeinfo.Tree.deserialize": TWO_WAY_00,
    "treeinfo.Variants.deserialize": TWO_WAY_00,
    "treeinfo.VariantPaths.deserialize": THREE_WAY,
    "treeinfo.Variant.deserialize": THREE_WAY,
    "treeinfo.Images._fix_path": [("rewrite", "==0.0", "absolute legacy paths rewritten")],
    "treeinfo.Stage2._fix_path": [("rewrite", "==0.0", "absolute legacy paths rewritten")],
    "treeinfo.Checksums._fix_path": [("rewrite", "==0.0", "absolute legacy paths rewritten")],
    "treeinfo.Media.deserialize": TWO_WAY_00,
}


def _gated(ev):
    return any(facts.mentions_version(g[0]) and any(facts.gate_term_value(g[0], v) is not None for v in facts._PROBE_VERSIONS)
               for g in ev.guards)


def _matches(marker, ev):
    if marker == "any":
        return True
    if marker == "refile":
        return ev.kind == "call" and ev.value[1][0] == "attr" and ev.value[1][2] == "add" and len(ev.loops) >= 4
    if marker == "raise":
        return ev.kind == "raise"
    if marker.startswith("call:"):
        name = marker[5:]
        if ev.kind != "call":
            return False
        f = ev.value[1]
        return (f[0] == "attr" and f[2] == name) or (f[0] == "global" and f[1].split(".")[-1] == name)
    return False


def r_gate(model, rep, tier, only=None):
    """the *dispatch* of every version-gated function (which gated events are active at which version), evaluated by
    constant folding on a version grid, equals the documented dispatch"""
    grid = facts.version_grid(tier)
    sites = facts.gate_sites(model)
    funcs = {}
    for s in sites:
        funcs.setdefault(s.fref.qname, s.fref)
    # a gate may also test a local that holds the version (``v = self.header.version_tuple; if v <= (0, 3)``): the terms see it
    from ..known_funcs import KNOWN_FUNCS
    for fr in model.all_functions():
        if fr.qname in funcs:
            continue
        if fr.qname not in GATE_TABLE and not any(isinstance(n, ast.Attribute) and n.attr == "version_tuple" for n in ast.walk(fr.node)):
            continue
        if any(_gated(ev) for ev in facts.fctx(model, fr).events):
            funcs[fr.qname] = fr
    # a helper the rules do not know is analysed as part of its callers (its gated events are inlined there)
    for q_ in [q_ for q_ in funcs if q_ not in KNOWN_FUNCS and q_ not in GATE_TABLE]:
        del funcs[q_]
    table = dict(GATE_TABLE)
    if "_add_1_1" not in model.cls("images.Images").methods:
        # the legacy converter folded into the reader: the re-filing loop (an add() inside one more loop than the record loops)
        # is what is gated
        table["images.Images.deserialize"] = [("refile", "<=1.1", "src images re-filed under binary arches")]
    for q in sorted(set(table) - set(funcs)):
        # a gated method pulled up into a base class / mixin: the definition the class inherits, analysed as its method
        parts = q.split(".")
        if len(parts) == 3 and "%s.%s" % (parts[0], parts[1]) in model.classes:
            # (inherited from a base class / mixin, or the known method under a new name)
            try:
                funcs[q] = model.own_method("%s.%s" % (parts[0], parts[1]), parts[2])
            except AnalysisError:
                pass
    for q in sorted(set(funcs) | set(table)):
        if only is not None and q not in only:
            continue
        want = table.get(q)
        if q not in funcs:
            rep.ob("R-GATE", "%s:gates" % q, False, site="productmd/%s.py" % q.split(".")[0],
                   msg="documented version gate(s) (%s) vanished" % "; ".join(w[2] for w in want))
            continue
        f = funcs[q]
        cx = facts.fctx(model, f)
        gated = [ev for ev in cx.events if _gated(ev) and ev.kind in ("call", "raise", "store", "bind", "return", "continue", "break")]
        if want is None:
            rep.ob("R-GATE", "%s:undocumented-gate" % q, False, site=cx.site(f.node),
                   msg="version gate in %s is not in the documented dispatch table" % q)
            continue
        claimed = set()
        for marker, spec, what in want:
            pred = _p(spec)
            if marker == "rewrite":
                # 'the function returns something other than its argument' as a function of the version (scenario evaluation)
                arg = ("param", cx.params[1])
                diff = [v for v in grid if (facts.at_version(cx, v).returns() != [arg]) != pred(v)]
                for ev in gated:
                    claimed.add(ev.seq)
                rep.ob("R-GATE", "%s:%s" % (q, what), not diff, site=cx.site(f.node),
                       msg="" if not diff else "'%s' happens for a different set of versions than the documented 'version %s': differs at %s"
                       % (what, spec, ", ".join("%d.%d" % v for v in diff[:6])),
                       facts={"marker": marker, "documented": spec, "grid": len(grid)})
                continue
            evs = [ev for ev in gated if _matches(marker, ev)]
            if not evs:
                rep.ob("R-GATE", "%s:%s" % (q, what), False, site=cx.site(f.node),
                       msg="no version-gated %s found for the documented dispatch 'version %s -> %s'" % (marker, spec, what))
                continue
            diff = []
            for ev in evs:
                claimed.add(ev.seq)
                for v in grid:
                    if facts.active_at(ev, v) != pred(v):
                        diff.append(v)
            diff = sorted(set(diff))
            rep.ob("R-GATE", "%s:%s" % (q, what), not diff, site=cx.site(evs[0].lineno),
                   msg="" if not diff else "'%s' happens for a different set of versions than the documented 'version %s': differs at %s"
                   % (what, spec, ", ".join("%d.%d" % v for v in diff[:6])),
                   facts={"marker": marker, "documented": spec, "grid": len(grid), "events": len(evs)})
        # every other gated event must follow one of the documented predicates (or its complement)
        maps = []
        for marker, spec, what in want:
            pred = _p(spec)
            maps.append(tuple(pred(v) for v in grid))
            maps.append(tuple(not pred(v) for v in grid))
        stray = []
        for ev in gated:
            if ev.seq in claimed:
                continue
            m = tuple(facts.active_at(ev, v) for v in grid)
            if m not in maps and any(m) and not all(m):
                stray.append(ev)
        rep.ob("R-GATE", "%s:no-undocumented-dispatch" % q, not stray, site=cx.site(stray[0].lineno if stray else f.node),
               msg="" if not stray else "line %s is active for a set of versions that matches no documented gate of %s" % (stray[0].lineno, q))
    if only is None:
        # (counted on what was examined - functions whose events are gated -, not on comparison nodes in the source: a dispatch
        # helper shared by several readers is one comparison and many gated functions)
        n_gated = len([q for q in funcs if q in table])
        if n_gated < 14:
            raise AnalysisError("vacuity guard: %d version-gated functions examined (floor 14)" % n_gated)
        rep.count("gate_sites", len(sites))
        rep.extra["exhaustive_gate_grid"] = len(grid)


# ---------------------------------------------------------------------------------------------------------
# R-HDR-CURRENT / R-SETCUR
# ---------------------------------------------------------------------------------------------------------
TOP_LEVEL = {
    "composeinfo.ComposeInfo": "productmd.composeinfo", "images.Images": "productmd.images", "rpms.Rpms": "productmd.rpms",
    "modules.Modules": "productmd.modules", "extra_files.ExtraFiles": "productmd.extra_files",
    "treeinfo.TreeInfo": "productmd.treeinfo",
}


def r_hdr_current(model, rep):
    # both Header.serialize write the *current* version and the object's metadata type
    f = model.own_method("common.Header", "serialize")
    cx, emits = facts.writer_emits(model, f)
    setcur = [ev for ev in cx.calls("set_current_version", on_self=True) if not ev.guards]
    ver = [e for e in emits if e.key() == ("'header'", "'version'")]
    typ = [e for e in emits if e.key() == ("'header'", "'type'")]
    ok = bool(setcur) and len(ver) == 1 and cx.self_attr(ver[0].value) == "version" and setcur[0].seq < ver[0].ev.seq and not ver[0].guards
    rep.ob("R-HDR-CURRENT", "common.Header.serialize:version", ok, site=cx.site(f.node),
           msg="" if ok else "the JSON header must be written with the current version (set_current_version() before emitting self.version)")
    ok = len(typ) == 1 and cx.self_attr(typ[0].value) == "metadata_type" and not typ[0].guards
    rep.ob("R-HDR-CURRENT", "common.Header.serialize:type", ok, site=cx.site(f.node),
           msg="" if ok else "the header type must be written from self.metadata_type unconditionally")
    g = model.own_method("common.Header", "set_current_version")
    gcx = facts.fctx(model, g)
    st = [ev for ev in gcx.events if ev.kind == "store" and gcx.self_attr(ev.target) == "version"]
    want = ("call", ("attr", ("const", "."), "join"), (("comp", "gen", ("call", ("global", "str"), (("bound", "$0"),), ()),
                                                      ((("names", "$0"), ("global", "VERSION"), ()),)),), ())
    ok = len(st) == 1 and T.unwrap(st[0].value) == want
    rep.ob("R-HDR-CURRENT", "common.Header.set_current_version", ok, site=gcx.site(g.node),
           msg="" if ok else "set_current_version must set version to '.'.join(str(i) for i in VERSION)")
    f = model.own_method("treeinfo.Header", "serialize")
    cx, emits = facts.writer_emits(model, f)
    ver = [e for e in emits if e.key() == ("'header'", "'version'")]
    typ = [e for e in emits if e.key() == ("'header'", "'type'")]
    ok = len(ver) == 1 and not ver[0].guards and T.show(ver[0].value) == "'.'.join(gen<str($0) for $0 in productmd.common.VERSION>)"
    rep.ob("R-HDR-CURRENT", "treeinfo.Header.serialize:version", ok, site=cx.site(f.node),
           msg="" if ok else "the INI header must be written with the current version ('.'.join(str(i) for i in VERSION))")
    ok = len(typ) == 1 and cx.self_attr(typ[0].value) == "metadata_type" and not typ[0].guards
    rep.ob("R-HDR-CURRENT", "treeinfo.Header.serialize:type", ok, site=cx.site(f.node),
           msg="" if ok else "the header type must be written from self.metadata_type unconditionally")
    # each top-level class passes the literal type of its own module
    for q, want in sorted(TOP_LEVEL.items()):
        cls = model.cls(q)
        ia = cls.init_attrs(model).get("header")
        ok = False
        if ia is not None and isinstance(ia.value, ast.Call) and len(ia.value.args) == 2 and isinstance(ia.value.args[1], ast.Constant):
            ok = ia.value.args[1].value == want and want == "productmd.%s" % cls.module.name
        rep.ob("R-HDR-CURRENT", "%s:metadata-type" % q, ok, site="%s:%s" % (cls.module.rel(), ia.lineno if ia else "?"),
               msg="" if ok else "%s must create its header with the literal type %r" % (q, want))


def r_setcur(model, rep):
    """every top-level reader with version-gated behaviour ends every normal path with header.set_current_version()
    after the last gated read"""
    for q in ("composeinfo.ComposeInfo", "images.Images", "rpms.Rpms", "treeinfo.TreeInfo"):
        f = model.own_method(q, "deserialize")
        cx = facts.fctx(model, f)
        sc = [ev for ev in cx.events if ev.kind == "call" and ev.value[1] == ("attr", ("attr", ("param", cx.selfname), "header"), "set_current_version")]
        ok, msg = True, ""
        if not sc or sc[-1].guards or sc[-1].loops:
            ok, msg = False, "no unconditional self.header.set_current_version() at the end of the reader"
        else:
            last = sc[-1]
            later = [ev for ev in cx.events if ev.seq > last.seq and ev.kind in ("call", "store") and ev.kind != "return"]
            later = [ev for ev in later if not (ev.kind == "call" and ev.value[1][0] == "global")]
            if later:
                ok, msg = False, "reads or stores happen after set_current_version() (line %s): a later version gate would see the new version" % later[0].lineno
            rets = [ev for ev in cx.events if ev.kind == "return" and ev.seq < last.seq]
            if rets:
                ok, msg = False, "an early return (line %s) skips set_current_version()" % rets[0].lineno
        rep.ob("R-SETCUR", "%s.deserialize" % q, ok, site=cx.site(f.node), msg=msg)
    # ComposeInfo.__init__ starts at the current version as well (a fresh object writes a current file)
    f = model.own_method("composeinfo.ComposeInfo", "__init__")
    cx = facts.fctx(model, f)
    sc = [ev for ev in cx.events if ev.kind == "call" and ev.value[1][0] == "attr" and ev.value[1][2] == "set_current_version"]
    rep.ob("R-SETCUR", "composeinfo.ComposeInfo.__init__", bool(sc), site=cx.site(f.node), trivial=True,
           msg="" if sc else "ComposeInfo() no longer starts at the current version")


# ---------------------------------------------------------------------------------------------------------
# R-DEFASSIGN: no value left over from a previous loop iteration (or never assigned) reaches a store/call/return
# ---------------------------------------------------------------------------------------------------------
def r_defassign(model, rep, modules, rule_id="R-DEFASSIGN"):
    """inside a loop iteration no use may see a phi of (a value assigned earlier in this iteration | the value left over
    from the previous iteration): the variable is assigned on some paths of the iteration only (the D3 pattern).  Plain
    loop-carried state (node = node.parent, counters) is not reported."""
    n = 0
    for f in model.all_functions():
        if f.module.name not in modules:
            continue
        cx = facts.fctx(model, f)
        if not any(isinstance(x, (ast.For, ast.While)) for x in ast.walk(f.node)):
            continue
        n += 1
        bad = T.stale_in_iteration(cx.ex)
        rep.ob(rule_id, f.qname, not bad, site=cx.site(bad[0][1] if bad else f.node),
               msg="" if not bad else "variable(s) %s: on some path of a loop iteration the value used is not assigned in that iteration but "
                                     "left over from the previous one" % ", ".join(sorted(set(b[0] for b in bad))))
    if n < 3:
        raise AnalysisError("vacuity guard: R-DEFASSIGN examined %d functions with loops" % n)
