"""
R-SECTION-CREATED (C01-C04): a writer creates the section it fills.

``data[self._section]["name"] = ...`` needs ``data[self._section] = {}`` first, ``parser.set(section, ...)`` needs
``parser.add_section(section)``: without the creation the first key raises KeyError / NoSectionError and a valid object cannot be
written at all (for composeinfo: only when a base product is present - the layered composes the round-trip property quantifies
over).  Decided per ``serialize`` method on the syntax tree: every store into a section is preceded, in the same method, by the
creation of the same section expression.  Only sections named by an attribute of the writer itself carry the obligation (a section
named by a constant or by another object belongs to the sibling writer that R-COMPOSITE orders first); a helper, ``super()`` or
base-class call that is handed the document before the first key may have created it and ends the obligation.
"""
import ast

from ..core import AnalysisError

SECTION_PROPS = {"composeinfo": ["C01"], "common": ["C01", "C02", "C03"], "images": ["C02"], "rpms": ["C03"], "modules": ["C03"],
                 "extra_files": ["C03"], "treeinfo": ["C04"], "discinfo": ["C04"]}


def _own_section(expr_text, selfname):
    """is the section named by an attribute of the writer itself (``self._section``)?  Sections named by a constant or by another
    object (``'tree'`` filled by Variants, ``self._variant._section`` filled by VariantPaths) are created by the sibling writer that
    owns them, which R-COMPOSITE orders first."""
    import re
    key = expr_text.split(":", 2)[2] if expr_text.startswith("SEC:") else expr_text[expr_text.index("[") + 1:-1] if "[" in expr_text else ""
    return re.fullmatch(r"%s\.\w+" % re.escape(selfname), key) is not None


def creations_and_uses(fn):
    cre, use = [], []
    for n in ast.walk(fn):
        if isinstance(n, ast.Assign):
            for t in n.targets:
                if isinstance(t, ast.Subscript):
                    if isinstance(n.value, ast.Dict) or (isinstance(n.value, ast.Call) and ast.unparse(n.value.func) in ("dict", "SortedDict")):
                        cre.append((ast.unparse(t), n.lineno))
                    if isinstance(t.value, ast.Subscript):
                        use.append((ast.unparse(t.value), n.lineno))
        if isinstance(n, ast.Call) and isinstance(n.func, ast.Attribute):
            if n.func.attr == "add_section" and n.args:
                cre.append(("SEC:%s:%s" % (ast.unparse(n.func.value), ast.unparse(n.args[0])), n.lineno))
            if n.func.attr == "set" and len(n.args) == 3:
                use.append(("SEC:%s:%s" % (ast.unparse(n.func.value), ast.unparse(n.args[0])), n.lineno))
            if n.func.attr == "setdefault" and len(n.args) == 2 and isinstance(n.args[1], (ast.Dict, ast.List)):
                cre.append(("%s[%s]" % (ast.unparse(n.func.value), ast.unparse(n.args[0])), n.lineno))
    return cre, use


def _helper_calls(fn, selfname):
    """lines of calls to other methods of the object that are handed a parameter of the writer (they may create the section)"""
    params = set(a.arg for a in fn.args.args[1:])
    out = []
    for n in ast.walk(fn):
        if isinstance(n, ast.Call) and isinstance(n.func, ast.Attribute) and n.func.attr not in ("validate",) \
                and any(isinstance(a, ast.Name) and a.id in params for a in n.args):
            recv = n.func.value
            own = isinstance(recv, ast.Name) and recv.id == selfname
            sup = isinstance(recv, ast.Call) and ast.unparse(recv.func) == "super"
            base = isinstance(recv, (ast.Name, ast.Attribute)) and n.args and isinstance(n.args[0], ast.Name) and n.args[0].id == selfname
            if own or sup or base:
                out.append(n.lineno)
    return out


_EXAMPLE = '''
def serialize(self, data):
    self.validate()
    data[self._section]["name"] = self.name
'''


def apply_sections(model, rep, pid):
    cre, use = creations_and_uses(ast.parse(_EXAMPLE).body[0])
    if cre or len(use) != 1:
        raise AnalysisError("R-SECTION-CREATED: the embedded positive example is no longer recognised")
    n = 0
    for m in sorted(model.modules.values(), key=lambda m: m.name):
        if pid not in SECTION_PROPS.get(m.name, []):
            continue
        for c in m.classes.values():
            f = c.methods.get("serialize")
            if f is None or not f.args.args:
                continue
            cre, use = creations_and_uses(f)
            helpers = _helper_calls(f, f.args.args[0].arg)
            bad = []
            for b, ln in use:
                if any(cb == b and cl <= ln for cb, cl in cre):
                    continue
                if any(h < ln for h in helpers):
                    continue            # a helper of the object was handed the document first: it may have created the section
                if not _own_section(b, f.args.args[0].arg):
                    continue
                bad.append("line %s: %s is filled but never created in this writer" % (ln, b.replace("SEC:", "section ")))
            if use:
                n += 1
                rep.ob("R-SECTION-CREATED", "%s.serialize" % c.qname, not bad, site=m.site(f), msg="; ".join(bad[:2]),
                       facts={"sections_filled": sorted(set(b for b, _ in use))})
    return n
