"""
Sharing rules (all properties whose objects live in the module concerned).

Every property speaks about *one* object - a manifest, a compose description, a tree - or about a pure function of its
arguments.  That presupposes that two objects, and two calls, do not communicate through a container nobody meant to share.
Four places where Python shares silently, each a construct visible in the syntax tree:

  R-FRESH-DEFAULTS      a parameter default that is a mutable object (evaluated once, at definition time) is never stored into
                        an object, returned or mutated by the function: ``def __init__(self, rpms={}): self.rpms = rpms`` makes
                        every manifest created without the argument one manifest
  R-FRESH-CLASS-STATE   a mutable container bound in a class body (one object for all instances) is never mutated in place
                        through an instance unless ``__init__`` rebinds the attribute first
  R-TABLE-FROZEN        the module-level constant tables (RELEASE_TYPES, RPM_ARCHES, ...) the other rules fold to constants are
                        not mutated after their initialisation: not inside any function, not from another module, not through
                        an alias (``X = RPM_ARCHES; X += [...]`` extends RPM_ARCHES itself)
  R-MAPPING-CONSISTENT  a dict subclass that rewrites keys in one keyed method rewrites them in all of the lookups callers use
                        (``__setitem__`` folding case while ``__contains__`` does not makes ``k in d`` lie)

The expected number of findings is zero, so each rule carries an embedded positive example that must be recognised on
every run.
"""
import ast

from ..core import AnalysisError
from ..model import dotted

MUTATORS = {"append", "extend", "insert", "remove", "pop", "sort", "reverse", "clear", "update", "add", "discard",
            "setdefault", "popitem", "difference_update", "intersection_update", "symmetric_difference_update",
            "appendleft", "extendleft", "__setitem__", "__delitem__"}
MUTABLE_CALLS = {"list", "dict", "set", "bytearray", "defaultdict", "OrderedDict", "deque", "Counter",
                 "collections.defaultdict", "collections.OrderedDict", "collections.deque", "collections.Counter"}
IMMUTABLE_CALLS = {"frozenset", "tuple", "object", "re.compile", "str", "int", "float", "bool", "bytes", "property",
                   "staticmethod", "classmethod", "namedtuple", "collections.namedtuple", "functools.partial",
                   "functools.partialmethod", "partialmethod", "partial"}

# which properties speak about the objects of a module
MODULE_PROPS = {
    "images": ["C02", "C05", "C09", "C10", "C16"],
    "rpms": ["C03", "C05", "C10", "C12"],
    "modules": ["C03", "C12"],
    "extra_files": ["C03", "C12"],
    "composeinfo": ["C01", "C05", "C11", "C15"],
    "treeinfo": ["C04", "C05", "C16", "C17"],
    "discinfo": ["C04"],
    "common": ["C06", "C07"],
    "compose": ["C20"],
}
DEFAULT_PROPS = ["C06", "C07"]
TABLE_PROPS = {
    "RELEASE_TYPES": ["C14", "C06", "C07"],
    "RPM_ARCHES": ["C10", "C12", "C06", "C07"],
    "COMPOSE_TYPES": ["C15", "C06", "C07"],
    "COMPOSE_TYPE_SUFFIXES": ["C15"],
    "LABEL_NAMES": ["C06", "C07"],
    "LABEL_RE_LIST": ["C06", "C07"],
    "VARIANT_TYPES": ["C11", "C06", "C07"],
    "IMAGE_TYPE_FORMAT_MAPPING": ["C06", "C07"],
    "SUPPORTED_IMAGE_TYPES": ["C06", "C07"],
    "SUPPORTED_IMAGE_FORMATS": ["C06", "C07"],
    "UNIQUE_IMAGE_ATTRIBUTES": ["C09"],
    "SUPPORTED_CATEGORIES": ["C12", "C06", "C07"],
}


def _is_mutable_value(node):
    """an expression that builds a fresh mutable container each time it is *evaluated* (so: one object when evaluated once)"""
    if isinstance(node, (ast.List, ast.Dict, ast.Set, ast.ListComp, ast.DictComp, ast.SetComp)):
        return True
    if isinstance(node, ast.Call):
        d = dotted(node.func)
        if d in IMMUTABLE_CALLS:
            return False
        if d in MUTABLE_CALLS:
            return True
        if d == "sorted":
            return True
        return None        # unknown call: an object of unknown mutability
    if isinstance(node, ast.BinOp) and isinstance(node.op, (ast.Add, ast.BitOr, ast.Mult)):
        l, r = _is_mutable_value(node.left), _is_mutable_value(node.right)
        return True if (l is True or r is True) else False
    return False


def _operands(node):
    """the alternatives a value expression can evaluate to (through ``a or b`` / ``a if c else b``)"""
    if isinstance(node, ast.BoolOp):
        for v in node.values:
            for x in _operands(v):
                yield x
    elif isinstance(node, ast.IfExp):
        for v in (node.body, node.orelse):
            for x in _operands(v):
                yield x
    else:
        yield node


def _base_name(node):
    """Name at the root of ``x``, ``x[...]``"""
    while isinstance(node, ast.Subscript):
        node = node.value
    return node.id if isinstance(node, ast.Name) else None


def _stmts_in_order(fn):
    """all nodes of a function body in source order (nested functions included: a closure sees the same default object)"""
    return sorted((n for n in ast.walk(fn) if hasattr(n, "lineno")), key=lambda n: (n.lineno, n.col_offset))


def escapes_or_mutates(fn, name, until=None):
    """why the object bound to ``name`` at function entry is stored, returned or mutated in ``fn`` (None if it is not).
    Uses after the first rebinding of the name do not count."""
    rebind = None
    for n in ast.walk(fn):
        if isinstance(n, ast.Assign):
            for t in n.targets:
                for tt in ast.walk(t):
                    if isinstance(tt, ast.Name) and tt.id == name and isinstance(tt.ctx, ast.Store):
                        # ``x = x or {}``: the right-hand side is evaluated before the rebinding
                        pos = (n.lineno, getattr(n, "end_col_offset", 0) + 10 ** 6)
                        if rebind is None or pos < rebind:
                            rebind = pos
    for n in _stmts_in_order(fn):
        if rebind is not None and (n.lineno, n.col_offset) > rebind:
            break
        if isinstance(n, ast.Assign):
            stores = [t for t in n.targets if isinstance(t, (ast.Attribute, ast.Subscript))]
            if stores and any(isinstance(v, ast.Name) and v.id == name for v in _operands(n.value)):
                return "line %s: stored into %s" % (n.lineno, ast.unparse(stores[0]))
            for t in n.targets:
                if isinstance(t, ast.Subscript) and _base_name(t) == name:
                    return "line %s: %s assigned" % (n.lineno, ast.unparse(t))
        elif isinstance(n, ast.AugAssign):
            if _base_name(n.target) == name:
                return "line %s: %s modified in place" % (n.lineno, ast.unparse(n.target))
        elif isinstance(n, ast.Delete):
            for t in n.targets:
                if isinstance(t, ast.Subscript) and _base_name(t) == name:
                    return "line %s: del %s" % (n.lineno, ast.unparse(t))
        elif isinstance(n, (ast.Return, ast.Yield)):
            if n.value is not None and any(isinstance(v, ast.Name) and v.id == name for v in _operands(n.value)):
                return "line %s: returned to the caller" % n.lineno
        elif isinstance(n, ast.Call):
            if isinstance(n.func, ast.Attribute) and n.func.attr in MUTATORS and _base_name(n.func.value) == name:
                return "line %s: %s() on it" % (n.lineno, n.func.attr)
            if dotted(n.func) == "setattr" and len(n.args) == 3 and isinstance(n.args[2], ast.Name) and n.args[2].id == name:
                return "line %s: stored with setattr" % n.lineno
    return None


def shared_defaults(fn):
    """[(parameter, default source, why)] for the mutable defaults of ``fn`` that escape or are mutated"""
    out = []
    a = fn.args
    pos = a.posonlyargs + a.args
    pairs = list(zip(pos[len(pos) - len(a.defaults):], a.defaults)) + [(p, d) for p, d in zip(a.kwonlyargs, a.kw_defaults) if d is not None]
    for p, d in pairs:
        if _is_mutable_value(d) is False:
            continue
        why = escapes_or_mutates(fn, p.arg)
        if why:
            out.append((p.arg, ast.unparse(d), why))
    return out


def _init_assigns(model, cls, attr):
    """does some ``__init__`` along the MRO assign ``self.<attr>``?"""
    for c in cls.mro():
        fn = c.methods.get("__init__")
        if fn is None or not fn.args.args:
            continue
        s = fn.args.args[0].arg
        for n in ast.walk(fn):
            if isinstance(n, ast.Attribute) and isinstance(n.ctx, ast.Store) and n.attr == attr and isinstance(n.value, ast.Name) and n.value.id == s:
                return True
            if isinstance(n, ast.Call) and dotted(n.func) == "setattr" and len(n.args) == 3:
                # setattr(self, name, ...) in a loop over a field table: folded where possible
                a1 = n.args[1]
                if isinstance(a1, ast.Constant) and a1.value == attr:
                    return True
                if not isinstance(a1, ast.Constant):
                    return True          # a computed name: cannot tell, give the benefit of the doubt
    return False


def _attr_mutations(fn, selfname, attr):
    """in-place mutations of ``<self>.<attr>`` in a method"""
    def is_it(node):
        while isinstance(node, ast.Subscript):
            node = node.value
        return isinstance(node, ast.Attribute) and node.attr == attr and isinstance(node.value, ast.Name) and node.value.id == selfname
    for n in ast.walk(fn):
        if isinstance(n, ast.Call) and isinstance(n.func, ast.Attribute) and n.func.attr in MUTATORS and is_it(n.func.value):
            yield "line %s: %s.%s.%s()" % (n.lineno, selfname, attr, n.func.attr)
        elif isinstance(n, ast.Assign):
            for t in n.targets:
                if isinstance(t, ast.Subscript) and is_it(t):
                    yield "line %s: %s assigned" % (n.lineno, ast.unparse(t))
        elif isinstance(n, ast.AugAssign) and is_it(n.target):
            yield "line %s: %s modified in place" % (n.lineno, ast.unparse(n.target))
        elif isinstance(n, ast.Delete):
            for t in n.targets:
                if isinstance(t, ast.Subscript) and is_it(t):
                    yield "line %s: del %s" % (n.lineno, ast.unparse(t))


def shared_class_state(model, cls):
    """[(attribute, value source, where it is mutated)] for class-level mutable containers mutated through an instance"""
    out = []
    for item in cls.node.body:
        if not (isinstance(item, ast.Assign) and len(item.targets) == 1 and isinstance(item.targets[0], ast.Name)):
            continue
        attr = item.targets[0].id
        if _is_mutable_value(item.value) is not True:
            continue
        if _init_assigns(model, cls, attr):
            continue
        family = [cls] + [c for c in model.subclasses(cls) if not _init_assigns(model, c, attr)]
        for c in family:
            for name, fn in c.methods.items():
                if not fn.args.args or name in c.staticmethods:
                    continue
                for why in _attr_mutations(fn, fn.args.args[0].arg, attr):
                    out.append((attr, ast.unparse(item.value), "%s.%s %s" % (c.qname, name, why)))
    return out


def _table_names(model):
    """module-level public constant tables: (module, name) -> node of the defining value"""
    out = {}
    for m in model.modules.values():
        for name, assigns in m.assigns.items():
            if name.startswith("_") or name != name.upper():
                continue
            v = assigns[0].value
            if _is_mutable_value(v) is True:
                out[(m.name, name)] = assigns[0]
    return out


def _resolve_table(model, module, node, tables, local_aliases=None, depth=0):
    """(module name, table name) if the expression denotes one of the tables (through imports and module-level aliases)"""
    if depth > 4:
        return None
    d = dotted(node)
    if not d:
        return None
    if local_aliases and d in local_aliases:
        return local_aliases[d]
    try:
        r = model.resolve_name(module, d)
    except Exception:
        r = None
    if r and r[0] == "const":
        key = (r[2].name, r[1])
        if key in tables:
            return key
        # a module-level alias: NAME = OTHER_TABLE
        assigns = r[2].assigns.get(r[1]) or []
        if assigns and isinstance(assigns[-1].value, (ast.Name, ast.Attribute)):
            return _resolve_table(model, r[2], assigns[-1].value, tables, None, depth + 1)
    return None


def _local_names(fn):
    names = set(a.arg for a in fn.args.posonlyargs + fn.args.args + fn.args.kwonlyargs)
    if fn.args.vararg:
        names.add(fn.args.vararg.arg)
    if fn.args.kwarg:
        names.add(fn.args.kwarg.arg)
    globs = set()
    for n in ast.walk(fn):
        if isinstance(n, ast.Global):
            globs.update(n.names)
        elif isinstance(n, ast.Name) and isinstance(n.ctx, ast.Store):
            names.add(n.id)
    return names - globs


def _mutations_of(node_iter, resolve):
    """(lineno, description, table key) for the in-place mutations among the nodes"""
    for n in node_iter:
        if isinstance(n, ast.Call) and isinstance(n.func, ast.Attribute) and n.func.attr in MUTATORS:
            recv = n.func.value
            while isinstance(recv, ast.Subscript):
                recv = recv.value
            k = resolve(recv)
            if k:
                yield n.lineno, "%s()" % ast.unparse(n.func), k
        elif isinstance(n, (ast.Assign, ast.Delete)):
            for t in n.targets:
                if isinstance(t, ast.Subscript):
                    recv = t
                    while isinstance(recv, ast.Subscript):
                        recv = recv.value
                    k = resolve(recv)
                    if k:
                        yield n.lineno, "%s %s" % ("del" if isinstance(n, ast.Delete) else "store to", ast.unparse(t)), k
        elif isinstance(n, ast.AugAssign):
            recv = n.target
            while isinstance(recv, ast.Subscript):
                recv = recv.value
            k = resolve(recv)
            if k:
                yield n.lineno, "%s %s= ..." % (ast.unparse(n.target), {ast.Add: "+", ast.BitOr: "|", ast.Sub: "-", ast.BitAnd: "&", ast.Mult: "*"}.get(type(n.op), "?")), k


def table_mutations(model):
    """{(module, table): [where]} for mutations of constant tables after their initialisation"""
    tables = _table_names(model)
    found = {}
    for m in model.modules.values():
        # inside functions and methods: every mutation counts
        funcs = [(None, f) for f in m.functions.values()] + [(c, f) for c in m.classes.values() for f in c.methods.values()]
        for c, fn in funcs:
            locs = _local_names(fn)
            aliases = {}
            for n in ast.walk(fn):
                if isinstance(n, ast.Assign) and len(n.targets) == 1 and isinstance(n.targets[0], ast.Name) and \
                        isinstance(n.value, (ast.Name, ast.Attribute)):
                    d = dotted(n.value)
                    if d and d.split(".")[0] not in locs:
                        k = _resolve_table(model, m, n.value, tables)
                        if k:
                            aliases[n.targets[0].id] = k

            def resolve(node, m=m, locs=locs, aliases=aliases):
                d = dotted(node)
                if not d:
                    return None
                if d in aliases:
                    return aliases[d]
                if d.split(".")[0] in locs:
                    return None
                return _resolve_table(model, m, node, tables)
            for ln, what, k in _mutations_of(ast.walk(fn), resolve):
                found.setdefault(k, []).append("%s:%s in %s%s: %s" % (m.rel(), ln, (c.name + ".") if c else "", fn.name, what))
        # at module level: the defining module may fill its own table under its own name (initialisation);
        # a mutation through another name, or from another module, changes a table somebody else defined
        top = [s for s in m.toplevel if not isinstance(s, (ast.FunctionDef, ast.ClassDef))]
        nodes = [n for s in top for n in ast.walk(s)]

        def resolve_top(node, m=m):
            d = dotted(node)
            if not d:
                return None
            k = _resolve_table(model, m, node, tables)
            if k and k == (m.name, d):
                return None              # own table under its own name: initialisation
            return k
        for ln, what, k in _mutations_of(nodes, resolve_top):
            found.setdefault(k, []).append("%s:%s at module level: %s" % (m.rel(), ln, what))
    return tables, found


def mutates_in_place(fn, name):
    """why the object bound to parameter ``name`` is changed in place by ``fn`` (None if it is not); uses after the first
    rebinding of the name do not count"""
    # local aliases of the parameter: ``allowed = expected_values`` (a later rebinding in the *same block* ends the alias; a
    # rebinding under a condition leaves it in force on the other path)
    for blk in [b for n in ast.walk(fn) for b in (getattr(n, "body", None), getattr(n, "orelse", None)) if isinstance(b, list)]:
        for i, st in enumerate(blk):
            if isinstance(st, ast.Assign) and len(st.targets) == 1 and isinstance(st.targets[0], ast.Name) and \
                    isinstance(st.value, ast.Name) and st.value.id == name and st.targets[0].id != name:
                alias = st.targets[0].id
                end = None
                for later in blk[i + 1:]:
                    if isinstance(later, ast.Assign) and any(isinstance(t, ast.Name) and t.id == alias for t in later.targets):
                        end = later.lineno
                        break
                for n in _stmts_in_order(fn):
                    if n.lineno <= st.lineno or (end is not None and n.lineno >= end):
                        continue
                    if isinstance(n, ast.Call) and isinstance(n.func, ast.Attribute) and n.func.attr in MUTATORS and _base_name(n.func.value) == alias:
                        return "line %s: %s() on its alias %s" % (n.lineno, n.func.attr, alias)
                    if isinstance(n, ast.AugAssign) and _base_name(n.target) == alias:
                        return "line %s: its alias %s modified in place" % (n.lineno, alias)
                    if isinstance(n, (ast.Assign, ast.Delete)):
                        for t in n.targets:
                            if isinstance(t, ast.Subscript) and _base_name(t) == alias:
                                return "line %s: %s changed through its alias" % (n.lineno, ast.unparse(t))
    why = escapes_or_mutates(fn, name)
    if why and ("stored into" in why or "returned" in why or "setattr" in why):
        # stored or returned, not changed: look for a genuine mutation only
        for n in _stmts_in_order(fn):
            if isinstance(n, ast.Call) and isinstance(n.func, ast.Attribute) and n.func.attr in MUTATORS and _base_name(n.func.value) == name:
                return "line %s: %s() on it" % (n.lineno, n.func.attr)
            if isinstance(n, ast.AugAssign) and _base_name(n.target) == name:
                return "line %s: %s modified in place" % (n.lineno, ast.unparse(n.target))
        return None
    return why


def tables_mutated_through_calls(model, tables):
    """{(module, table): [where]}: a table handed to a function that changes that parameter in place"""
    from ..model import FuncRef
    summary = {}
    for f in model.all_functions():
        for i, a in enumerate(f.node.args.posonlyargs + f.node.args.args):
            why = mutates_in_place(f.node, a.arg)
            if why:
                summary.setdefault(f, {})[i] = (a.arg, why)
    found = {}
    if not summary:
        return found
    for f in model.all_functions():
        locs = _local_names(f.node)
        for call in [n for n in ast.walk(f.node) if isinstance(n, ast.Call)]:
            cands = []
            for j, a in enumerate(call.args):
                if isinstance(a, (ast.Name, ast.Attribute)):
                    d = dotted(a)
                    if d and d.split(".")[0] not in locs:
                        k = _resolve_table(model, f.module, a, tables)
                        if k:
                            cands.append((j, None, k))
            for kw in call.keywords:
                if kw.arg and isinstance(kw.value, (ast.Name, ast.Attribute)):
                    d = dotted(kw.value)
                    if d and d.split(".")[0] not in locs:
                        k = _resolve_table(model, f.module, kw.value, tables)
                        if k:
                            cands.append((None, kw.arg, k))
            if not cands:
                continue
            try:
                targets, exact = model.resolve_call(f, call)
            except Exception:
                continue
            for g in targets or ():
                if g not in summary:
                    continue
                params = [a.arg for a in g.node.args.posonlyargs + g.node.args.args]
                shift = 1 if (g.cls is not None and g.node.name not in g.cls.staticmethods and isinstance(call.func, ast.Attribute)
                              and not (isinstance(call.func.value, ast.Name) and call.func.value.id == g.cls.name)) else 0
                for j, kwname, k in cands:
                    idx = (j + shift) if j is not None else (params.index(kwname) if kwname in params else None)
                    if idx is not None and idx in summary[g]:
                        pname, why = summary[g][idx]
                        found.setdefault(k, []).append("%s:%s in %s: handed to %s, which changes its parameter %r in place (%s)" % (
                            f.module.rel(), call.lineno, f.qname, g.qname, pname, why))
    return found


NONFRESH_METHODS = {"get", "setdefault", "pop", "popitem", "__getitem__"}


def _fresh_value(v, fresh_names):
    """does the expression evaluate to an object created on the spot (so that changing it changes nobody else's data)?"""
    if isinstance(v, (ast.List, ast.Dict, ast.Set, ast.ListComp, ast.DictComp, ast.SetComp, ast.Constant, ast.JoinedStr, ast.Tuple)):
        return True
    if isinstance(v, ast.Call):
        if isinstance(v.func, ast.Attribute) and v.func.attr in NONFRESH_METHODS:
            return False
        if dotted(v.func) in ("getattr",):
            return False
        return True
    if isinstance(v, ast.BinOp):
        return True
    if isinstance(v, ast.Name):
        return v.id in fresh_names
    return False           # attribute reads, subscripts, ``a or b`` / conditional expressions over them: somebody else's object


def impure_mutations(fn):
    """in-place changes a function makes to objects it did not create itself (its arguments, what hangs off them, module state):
    [(line, what)] - for functions the properties treat as pure (the image identity)"""
    params = set(a.arg for a in fn.args.posonlyargs + fn.args.args + fn.args.kwonlyargs)
    assigns = {}
    for n in ast.walk(fn):
        if isinstance(n, ast.Assign):
            for t in n.targets:
                if isinstance(t, ast.Name):
                    assigns.setdefault(t.id, []).append(n.value)
        elif isinstance(n, (ast.For, ast.comprehension)):
            for x in ast.walk(n.target):
                if isinstance(x, ast.Name):
                    assigns.setdefault(x.id, []).append(None)        # drawn from an iterable: an element of something else
    fresh = set()
    changed = True
    while changed:
        changed = False
        for name, vals in assigns.items():
            if name not in fresh and name not in params and all(v is not None and _fresh_value(v, fresh) for v in vals):
                fresh.add(name)
                changed = True
    out = []

    def base(node):
        while isinstance(node, (ast.Attribute, ast.Subscript)):
            node = node.value
        return node
    for n in ast.walk(fn):
        tgt = None
        if isinstance(n, ast.Call) and isinstance(n.func, ast.Attribute) and n.func.attr in MUTATORS:
            tgt = n.func.value
        elif isinstance(n, (ast.Assign, ast.Delete)):
            for t in n.targets:
                if isinstance(t, (ast.Subscript, ast.Attribute)):
                    tgt = t.value
        elif isinstance(n, ast.AugAssign) and isinstance(n.target, (ast.Name, ast.Subscript, ast.Attribute)):
            tgt = n.target if not isinstance(n.target, ast.Name) else n.target
        if tgt is None:
            continue
        b = base(tgt)
        if isinstance(b, ast.Name):
            if isinstance(tgt, ast.Name) and isinstance(n, ast.AugAssign) and b.id in fresh:
                continue
            if b.id in fresh and isinstance(tgt, ast.Name):
                continue          # the fresh object itself
            if b.id in fresh and not isinstance(tgt, ast.Name):
                continue          # inside a fresh object (shallow, but the function built it)
            out.append((n.lineno, ast.unparse(tgt)))
        elif isinstance(b, ast.Call):
            continue
    return out


KEYED = ("__setitem__", "__getitem__", "__delitem__", "__contains__", "get", "pop", "setdefault", "has_key")
LOOKUPS = ("__setitem__", "__getitem__", "__contains__", "get")


def inconsistent_mappings(model):
    """[(class, message)] for dict subclasses that rewrite keys in some keyed methods but not in all the common look-ups"""
    out = []
    for m in model.modules.values():
        for c in m.classes.values():
            if not any(b and b.split(".")[-1] in ("dict", "OrderedDict", "UserDict", "defaultdict", "MutableMapping", "SortedDict")
                       for b in c.base_names):
                continue
            rewriting = []
            for name in KEYED:
                fn = c.methods.get(name)
                if fn is None or len(fn.args.args) < 2:
                    continue
                key = fn.args.args[1].arg
                rebinds = any(isinstance(n, ast.Name) and n.id == key and isinstance(n.ctx, ast.Store) for n in ast.walk(fn))
                passes_other = False
                for n in ast.walk(fn):
                    if isinstance(n, ast.Call) and isinstance(n.func, ast.Attribute) and n.func.attr in KEYED:
                        recv = n.func.value
                        is_super = (isinstance(recv, ast.Call) and dotted(recv.func) == "super") or dotted(recv) in ("dict", "OrderedDict")
                        if not is_super:
                            continue
                        args = n.args[1:] if dotted(recv) in ("dict", "OrderedDict") else n.args
                        if args and not (isinstance(args[0], ast.Name) and args[0].id == key):
                            passes_other = True
                if rebinds or passes_other:
                    rewriting.append(name)
            if rewriting:
                missing = [n for n in LOOKUPS if n not in c.methods]
                if missing:
                    out.append((c, "%s rewrites keys in %s but inherits %s from dict, which look the caller's spelling up" % (
                        c.qname, ", ".join(rewriting), ", ".join(missing))))
    return out


def _users_of_class(model, cls):
    mods = set()
    for m in model.modules.values():
        for n in ast.walk(m.tree):
            if isinstance(n, ast.Call):
                d = dotted(n.func)
                if d and d.split(".")[-1] == cls.name:
                    mods.add(m.name)
    return mods


_EXAMPLE = '''
TABLE = ["a", "b"]
ALIAS = TABLE
ALIAS += ["c"]
class K(object):
    shared = set()
    def __init__(self, items={}):
        self.items = items
    def fill(self, x):
        self.shared.add(x)
def remember(x):
    TABLE.append(x)
def identity(image):
    names = image.names or []
    names.sort()
    return tuple(names)
class D(dict):
    def __setitem__(self, key, value):
        dict.__setitem__(self, key.lower(), value)
'''


def _selfcheck():
    """the recognisers must still see the textbook cases (the expected count on the repository is zero)"""
    tree = ast.parse(_EXAMPLE)
    k = [n for n in tree.body if isinstance(n, ast.ClassDef) and n.name == "K"][0]
    init = [f for f in k.body if isinstance(f, ast.FunctionDef) and f.name == "__init__"][0]
    if not shared_defaults(init):
        raise AnalysisError("R-FRESH-DEFAULTS: the embedded positive example is no longer recognised")
    fill = [f for f in k.body if isinstance(f, ast.FunctionDef) and f.name == "fill"][0]
    if not list(_attr_mutations(fill, "self", "shared")):
        raise AnalysisError("R-FRESH-CLASS-STATE: the embedded positive example is no longer recognised")
    rem = [n for n in tree.body if isinstance(n, ast.FunctionDef) and n.name == "remember"][0]
    if not list(_mutations_of(ast.walk(rem), lambda node: ("x", "TABLE") if dotted(node) == "TABLE" else None)):
        raise AnalysisError("R-TABLE-FROZEN: the embedded positive example is no longer recognised")
    ident = [n for n in tree.body if isinstance(n, ast.FunctionDef) and n.name == "identity"][0]
    if not impure_mutations(ident):
        raise AnalysisError("R-IDENTITY-PURE: the embedded positive example is no longer recognised")
    if _is_mutable_value(tree.body[0].value) is not True:
        raise AnalysisError("R-TABLE-FROZEN: the embedded table is no longer recognised")


def apply_sharing(model, rep, pid):
    """evaluate the sharing rules and record the obligations that concern property ``pid``"""
    _selfcheck()
    n = 0
    for m in sorted(model.modules.values(), key=lambda m: m.name):
        props = MODULE_PROPS.get(m.name, DEFAULT_PROPS)
        if pid not in props:
            continue
        funcs = [(None, f) for f in m.functions.values()] + [(c, f) for c in m.classes.values() for f in c.methods.values()]
        bad = []
        for c, fn in funcs:
            for p, d, why in shared_defaults(fn):
                bad.append("%s%s(%s=%s) %s" % ((c.name + ".") if c else "", fn.name, p, d, why))
        rep.ob("R-FRESH-DEFAULTS", "%s:no-shared-mutable-default" % m.name, not bad, site=m.rel(),
               msg="" if not bad else "a mutable default argument is one object for all calls: %s" % "; ".join(bad[:3]),
               facts={"functions": len(funcs)})
        bad = []
        for c in m.classes.values():
            for attr, val, where in shared_class_state(model, c):
                bad.append("%s.%s = %s is one object for all instances and is changed in place by %s" % (c.qname, attr, val, where))
        rep.ob("R-FRESH-CLASS-STATE", "%s:no-shared-class-level-container" % m.name, not bad, site=m.rel(),
               msg="" if not bad else "; ".join(bad[:3]), facts={"classes": len(m.classes)})
        n += 2
    if pid in ("C02", "C09"):
        g = model.function("images", "identify_image")
        bad = impure_mutations(g.node)
        rep.ob("R-IDENTITY-PURE", "images.identify_image", not bad, site=g.module.site(g.node),
               msg="" if not bad else "identify_image changes objects it was given (%s): computing an image's identity must not "
                                      "alter the image" % "; ".join("line %s: %s" % x for x in bad[:3]))
    # a constant table is a plain container: wrapped in a class of the package that overrides how membership, iteration or
    # comparison work (a list subclass whose __contains__ folds case), ``x in TABLE`` no longer means what every rule - and every
    # reader of the code - takes it to mean
    for m in sorted(model.modules.values(), key=lambda m: m.name):
        for name, assigns in sorted(m.assigns.items()):
            if name.startswith("_") or name != name.upper():
                continue
            v = assigns[-1].value
            if not isinstance(v, ast.Call):
                continue
            r = None
            try:
                d = dotted(v.func)
                r = model.resolve_name(m, d) if d else None
            except Exception:
                r = None
            if not r or r[0] != "class":
                continue
            c = r[1]
            if not any(b and b.split(".")[-1] in ("list", "tuple", "set", "frozenset", "dict") for k_ in c.mro() for b in k_.base_names):
                continue
            changed = sorted(n for k_ in c.mro() for n in k_.methods
                             if n in ("__contains__", "__iter__", "__eq__", "__ne__", "__getitem__", "__len__", "index", "count", "__hash__"))
            props = TABLE_PROPS.get(name, DEFAULT_PROPS)
            if changed and pid in props:
                rep.ob("R-TABLE-PLAIN", "%s.%s" % (m.name, name), False, site=m.site(assigns[-1]),
                       msg="the constant table %s is an instance of %s, which overrides %s: membership tests and iteration over the "
                           "table no longer have list semantics" % (name, c.qname, ", ".join(changed)))
    tables, found = table_mutations(model)
    for k, where in tables_mutated_through_calls(model, tables).items():
        found.setdefault(k, []).extend(where)
    for (mod, name) in sorted(tables):
        props = TABLE_PROPS.get(name, DEFAULT_PROPS)
        if pid not in props:
            continue
        where = found.get((mod, name), [])
        rep.ob("R-TABLE-FROZEN", "%s.%s" % (mod, name), not where, site="productmd/%s.py:%s" % (mod, tables[(mod, name)].lineno),
               msg="" if not where else "the constant table %s is changed after its initialisation: %s" % (name, "; ".join(where[:3])))
        n += 1
    for c, msg in inconsistent_mappings(model):
        users = _users_of_class(model, c)
        props = set()
        for u in users:
            props.update(MODULE_PROPS.get(u, DEFAULT_PROPS))
        if pid in props or (not users and pid in DEFAULT_PROPS):
            rep.ob("R-MAPPING-CONSISTENT", c.qname, False, site=c.module.site(c.node), msg=msg)
    return n
