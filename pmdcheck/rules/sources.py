# -*- coding: utf-8 -*-
"""
C09 -- image identity is unique within a manifest     (R-IDENT-TABLE, R-IDENT-BOTH, R-ADD-SCAN, R-SINGLE-WRITER, R-LOAD-VIA-ADD)
C10 -- source content is filed under binary arches     (R-ARCH-GUARD, R-SINGLE-WRITER, R-SRC-ROUTE)
"""
from __future__ import annotations

import ast

from .. import facts
from .. import terms as T
from ..core import AnalysisError
from ..model import FuncRef
from . import register
from .atomic import check_atomic
from .forest import builder_refs

DOC_IDENTITY = ["subvariant", "type", "format", "arch", "disc_number", "unified", "additional_variants"]


def P(n):
    return ("param", n)


def r_ident_table(model, rep):
    attrs = model.const("images", "UNIQUE_IMAGE_ATTRIBUTES")
    ok = sorted(attrs) == sorted(DOC_IDENTITY) and len(attrs) == len(set(attrs))
    rep.ob("R-IDENT-TABLE", "UNIQUE_IMAGE_ATTRIBUTES", ok, site="productmd/images.py",
           msg="" if ok else "identity attributes are %s, documented: %s" % (attrs, DOC_IDENTITY))
    nt = model.const("images", "UniqueImage")
    ok = isinstance(nt, tuple) and nt[0] == "namedtuple" and list(nt[2]) == list(attrs)
    rep.ob("R-IDENT-TABLE", "UniqueImage", ok, site="productmd/images.py",
           msg="" if ok else "UniqueImage must be a namedtuple over UNIQUE_IMAGE_ATTRIBUTES")
    # the namedtuple is built from the constant itself (so the two cannot drift apart)
    m = model.module("images")
    a = m.assigns.get("UniqueImage", [])
    ok = bool(a) and isinstance(a[-1].value, ast.Call) and len(a[-1].value.args) == 2 and isinstance(a[-1].value.args[1], ast.Name) \
        and a[-1].value.args[1].id == "UNIQUE_IMAGE_ATTRIBUTES"
    rep.ob("R-IDENT-TABLE", "UniqueImage:from-constant", ok, site="productmd/images.py",
           msg="" if ok else "UniqueImage must be defined from the UNIQUE_IMAGE_ATTRIBUTES constant")
    cls = model.cls("images.Image")
    init = cls.init_attrs(model)
    f = model.own_method("images.Image", "serialize")
    cx, emits = facts.writer_emits(model, f)
    W = dict((e.path[-1][1], e) for e in emits if e.kind == "store" and e.path and e.path[-1][0] == "const")
    if len(W) < 8:
        raise AnalysisError("vacuity guard: Image.serialize writes %d recognisable keys (about 15 expected): extraction not understood" % len(W))
    for a in attrs:
        ok = a in init and a in W and cx.self_attr(W[a].value) == a
        rep.ob("R-IDENT-TABLE", "Image.%s" % a, ok, site=cx.site(f.node),
               msg="" if ok else "identity attribute %r must be an Image attribute serialised untransformed under the same key" % a)
    return attrs, W, cx


def r_ident_both(model, rep, attrs, W, wcx):
    f = model.function("images", "identify_image")
    cx = facts.fctx(model, f)
    img = P(cx.params[0])
    C = ("global", "UNIQUE_IMAGE_ATTRIBUTES")
    obj = ("call", ("global", "tuple"), (("comp", "gen", ("call", ("global", "getattr"), (img, ("bound", "attr")), ()), ((("names", "attr"), C, ()),)),), ())
    dct = ("call", ("global", "tuple"), (("comp", "gen", ("call", ("attr", img, "get"), (("bound", "attr"), ("const", None)), ()), ((("names", "attr"), C, ()),)),), ())
    binds = [ev for ev in cx.events if ev.kind == "bind" and ev.value[0] == "call" and ev.value[1] == ("global", "tuple")]

    def shape_ok(v, want):
        # tolerate a renamed comprehension variable
        if v == want:
            return True
        if v[0] == "call" and v[1] == ("global", "tuple") and v[2] and v[2][0][0] == "comp":
            c = v[2][0]
            if len(c[3]) == 1 and c[3][0][1] == C and not c[3][0][2] and len(c[3][0][0]) == 2:
                n = c[3][0][0][1]
                ren = T.subst(c[2], lambda x: ("bound", "attr") if x == ("bound", n) else None)
                return ren == want[2][0][2]
        return False
    o = [b for b in binds if shape_ok(b.value, obj)]
    d = [b for b in binds if shape_ok(b.value, dct)]
    ok = len(o) == 1 and len(d) == 1
    rep.ob("R-IDENT-BOTH", "identify_image:both-branches-use-the-table", ok, site=cx.site(f.node),
           msg="" if ok else "both the object branch (getattr) and the dict branch (.get) must iterate UNIQUE_IMAGE_ATTRIBUTES")
    if ok:
        ok = any(g[0] == ("exc", "AttributeError") for g in d[0].guards)
        rep.ob("R-IDENT-BOTH", "identify_image:dict-branch-on-AttributeError", ok, site=cx.site(f.node),
               msg="" if ok else "the dict branch must be the AttributeError fallback of the object branch")
    # normalisation covers exactly the conditionally written keys, with the __init__ defaults
    rets = [ev for ev in cx.events if ev.kind == "return"]
    ok = len(rets) == 1 and rets[0].value[0] == "call" and rets[0].value[1][0] == "attr" and rets[0].value[1][2] == "_replace"
    norm = {}
    if ok:
        ui = rets[0].value[1][1]
        for k, v in rets[0].value[3]:
            if v[0] == "boolop" and v[1] == "or" and len(v[2]) == 2 and v[2][0] == ("attr", ui, k):
                try:
                    norm[k] = cx.const_of(v[2][1])
                except Exception:
                    norm[k] = T.show(v[2][1])
            else:
                norm[k] = "<unrecognised %s>" % T.show(v)[:60]
        uiv = T.unwrap(ui)
        ok = uiv[0] == "call" and uiv[1] == ("global", "UniqueImage") and len(uiv[2]) == 1 and uiv[2][0][0] == "starred"
    rep.ob("R-IDENT-BOTH", "identify_image:result", ok, site=cx.site(f.node),
           msg="" if ok else "the result must be UniqueImage(*attrs)._replace(<defaults>)")
    conditional = sorted(k for k, e in W.items() if facts.non_gate_guards(e.ev) and k in attrs)
    cls = model.cls("images.Image")
    init = cls.init_attrs(model)
    want = {}
    for k in conditional:
        ia = init.get(k)
        want[k] = model.fold(ia.value, ia.cls.module) if ia is not None and ia.value is not None else None
    okn = norm == want
    rep.ob("R-IDENT-BOTH", "identify_image:defaults-for-omitted-keys", okn, site=cx.site(f.node),
           msg="" if okn else "keys the writer omits conditionally are %s with defaults %s, but identify_image normalises %s -- the identity of "
                              "an Image and of its serialised dict would differ" % (conditional, want, norm))


def r_add_scan(model, rep, tier):
    f = model.own_method("images.Images", "add")
    cx = facts.fctx(model, f)
    S = P(cx.selfname)
    img = P(cx.params[3])
    im = ("attr", S, "images")
    rs = [ev for ev in cx.events if ev.kind == "raise" and len(ev.loops) == 3]
    refusal_ev = rs[0] if len(rs) == 1 else None
    if not rs:
        # the scan extracted into a search helper returning the first conflicting image or None; the caller raises on a hit
        hits = [ev for ev in cx.events if ev.kind == "bind" and ev.extra == "inlined-return" and len(ev.loops) == 3]
        for r_ in [ev for ev in cx.events if ev.kind == "raise" and not ev.loops]:
            for g_ in facts.own_guards(cx, r_):
                t_, pol_ = facts.canon_guard(g_)
                if t_[0] == "cmp" and t_[1] == ("is",) and not pol_ and ("const", None) in t_[2]:
                    found = [x for x in t_[2] if x != ("const", None)]
                    alts_ = T.alts(found[0]) if found else []
                    mine = [h for h in hits if h.value in alts_]
                    if len(mine) == 1 and set(alts_) == {mine[0].value, ("const", None)}:
                        rs = [mine[0]]
                        refusal_ev = r_
    ok, msg = len(rs) == 1, "no refusal inside a scan of all cells"
    if ok:
        e = rs[0]
        v = ("elem", im, e.loops[0][0])
        a = ("elem", ("sub", im, v), e.loops[1][0])
        cur = ("elem", ("sub", ("sub", im, v), a), e.loops[2][0])
        ok = [l[1] for l in e.loops] == [im, ("sub", im, v), ("sub", ("sub", im, v), a)]
        msg = "the scan must cover every image of every (variant, arch) cell of self.images"
        if ok:
            idc = lambda x: ("call", ("global", "identify_image"), (x,), ())
            same = ("cmp", ("==",), (idc(cur), idc(img)))
            same2 = ("cmp", ("==",), (idc(img), idc(cur)))
            diff = ("cmp", ("!=",), (("attr", cur, "checksums"), ("attr", img, "checksums")))
            diff2 = ("cmp", ("!=",), (("attr", img, "checksums"), ("attr", cur, "checksums")))
            # the conditions inside the scan, as a set of atomic conditions (one test with 'and', nested ifs, or
            # 'if not same: continue' + 'if different: raise' are the same thing)
            base = tuple(cx.ex.loop_guards.get(e.loops[0][0], ()))
            inner = [g for g in e.guards[len(base):]] if tuple(e.guards[:len(base)]) == base else list(facts.non_gate_guards(e))
            # an image cannot conflict with itself: skipping the very object being added is not a weakening
            not_self = facts.canon_guard((("cmp", ("is",), (cur, img)), False))
            ok = facts.guard_atoms(inner) - {not_self} == {facts.canon_guard((same, True)), facts.canon_guard((diff, True))}
            msg = "the refusal must be conditioned exactly on: same identity (identify_image) and different checksums"
        if ok:
            exc = refusal_ev.value
            ok = exc[0] == "call" and exc[1] == ("global", "ValueError")
            msg = "an identity collision must raise ValueError"
        if ok:
            # gate
            gts = [g for g in tuple(e.guards) + tuple(refusal_ev.guards) if facts.is_pure_gate(g[0])]
            gts = [g for i_, g in enumerate(gts) if g not in gts[:i_]]
            grid = facts.version_grid(tier)
            ok = len(gts) == 1 and all((facts.gate_term_value(gts[0][0], v_) == gts[0][1]) == (v_ >= (1, 1)) for v_ in grid)
            msg = "uniqueness must be enforced exactly for header versions >= 1.1"
    rep.ob("R-ADD-SCAN", "Images.add:collision-scan", ok, site=cx.site(f.node), msg="" if ok else msg)
    lids = set(l[0] for e in rs for l in e.loops)
    # a 'continue' only filters (its negated condition is among the guards of the refusal, checked above); break/return end the scan
    bad = [ev for ev in cx.events if ev.kind in ("break", "return") and set(l[0] for l in ev.loops) & lids]
    rep.ob("R-ADD-SCAN", "Images.add:scan-not-cut-short", not bad, site=cx.site(f.node),
           msg="" if not bad else "%s inside the collision scan (line %s)" % (bad[0].kind, bad[0].lineno))
    r_add_insertion(model, rep, after=refusal_ev.seq if refusal_ev is not None else None)
    r_fresh_enforces(model, rep, tier)


def r_fresh_enforces(model, rep, tier, rule_id="R-ADD-SCAN"):
    """the version gate of the collision scan is *active on a freshly constructed Images()*: a new manifest is written in the
    current format, so add() must enforce the current format's uniqueness rule while it is being built.  The initial header
    version is folded from Images.__init__ (current VERSION if it calls header.set_current_version() unconditionally, else the
    constant Header.__init__ assigns) and the gate is evaluated at it."""
    from .schema import current_version
    f = model.own_method("images.Images", "add")
    cx = facts.fctx(model, f)
    gates = []
    for ev in cx.events:
        if ev.kind == "raise" or (ev.kind == "bind" and ev.extra == "inlined-return"):
            for g in ev.guards:
                if facts.is_pure_gate(g[0]) and g not in gates \
                        and any(e2.kind == "call" and e2.value[1] == ("global", "identify_image") and g in e2.guards for e2 in cx.events):
                    gates.append(g)
    init = model.own_method("images.Images", "__init__")
    icx = facts.fctx(model, init)
    sets = [ev for ev in icx.events if ev.kind == "call" and ev.value[1] == ("attr", ("attr", P(icx.selfname), "header"), "set_current_version")
            and not ev.guards and not ev.loops]
    if sets:
        v0 = current_version(model)
    else:
        hcls = model.cls("common.Header")
        try:
            s0 = model.class_attr_const(hcls, "version")
            v0 = tuple(int(x) for x in str(s0).split("."))
        except Exception:
            raise AnalysisError("initial header version of a fresh Images() cannot be folded")
    ok = all((facts.gate_term_value(g[0], v0) == g[1]) for g in gates)
    rep.ob(rule_id, "images.Images():uniqueness-enforced-on-a-fresh-manifest", ok, site=icx.site(init.node),
           msg="" if ok else "a freshly constructed Images() has header version %s, for which add() skips the identity-collision check; the "
                             "manifest is nevertheless written in the current format and a colliding pair makes it unloadable" % ".".join(map(str, v0)),
           facts={"initial_version": ".".join(map(str, v0)), "gates": len(gates)})


def r_add_insertion(model, rep, rule_id="R-ADD-SCAN", after=None):
    """Images.add files exactly the image it was given, once, unconditionally, into the cell addressed by its (variant, arch)
    arguments -- the cell reached from self.images by setdefault()/subscript steps keyed by those two parameters"""
    f = model.own_method("images.Images", "add")
    cx = facts.fctx(model, f)
    S = P(cx.selfname)
    img = P(cx.params[3])
    im = ("attr", S, "images")
    ins = [ev for ev in cx.events if ev.kind == "call" and ev.value[1][0] == "attr" and ev.value[1][2] == "add" and T.root_of(ev.value[1][1]) == S
           and ev.value[1][1] != S]

    def cell_keys(t):
        keys = []
        t = T.unwrap(t)
        while t != im:
            if t[0] == "sub":
                keys.append(t[2])
                t = T.unwrap(t[1])
            elif t[0] == "call" and t[1][0] == "attr" and t[1][2] == "setdefault" and len(t[2]) == 2:
                keys.append(t[2][0])
                t = T.unwrap(t[1][1])
            else:
                return None
        return list(reversed(keys))
    ok = len(ins) == 1 and ins[0].value[2] == (img,) and cell_keys(ins[0].value[1][1]) == [P(cx.params[1]), P(cx.params[2])] \
        and not [g for g in facts.own_guards(cx, ins[0]) if not facts.is_pure_gate(g[0])] and not ins[0].loops \
        and (after is None or ins[0].seq > after)
    rep.ob(rule_id, "Images.add:insertion", ok, site=cx.site(f.node),
           msg="" if ok else "the image given must be inserted exactly once, unconditionally, after the scan, into images[variant][arch]")


def r_single_writer(model, rep, owner, attr, allowed, rule_id="R-SINGLE-WRITER"):
    """no store / mutating call rooted at <x>.<attr> outside the allowed functions of the owner class"""
    cls = model.cls(owner)
    n_checked = 0
    offenders = []
    MUT = ("setdefault", "add", "append", "update", "pop", "clear", "remove", "discard", "extend", "insert", "popitem")

    def rooted(node, selfname):
        # self.<attr>[...]...   or   <anything>.<attr>[...]... inside the owner's module
        while isinstance(node, (ast.Subscript, ast.Call, ast.Attribute)):
            if isinstance(node, ast.Attribute) and node.attr == attr:
                return node
            node = node.func if isinstance(node, ast.Call) else node.value
        return None
    for f in model.all_functions():
        ltypes = model.local_types(f)
        for node in ast.walk(f.node):
            hit = None
            if isinstance(node, (ast.Assign, ast.AugAssign, ast.Delete)):
                targets = node.targets if not isinstance(node, ast.AugAssign) else [node.target]
                for t in targets:
                    if isinstance(t, (ast.Subscript, ast.Attribute)):
                        r = rooted(t, None)
                        if r is not None:
                            hit = r
            elif isinstance(node, ast.Call) and isinstance(node.func, ast.Attribute) and node.func.attr in MUT:
                r = rooted(node.func.value, None)
                if r is not None:
                    hit = r
            if hit is None:
                continue
            rc = model.receiver_class(f, hit.value, ltypes)
            if rc is None or cls not in rc.mro():
                # unknown receiver: only count it when it is inside the owner's module and the attribute name is unique enough
                if rc is not None:
                    continue
                if f.module is not cls.module or f.cls is cls:
                    if f.cls is not cls:
                        continue
            n_checked += 1
            if f.cls is cls and f.node.name in allowed:
                continue
            offenders.append((f, "%s (line %s: %s)" % (f.qname, node.lineno, ast.unparse(node)[:70])))
    # a private helper the rules do not know (extracted from a writer) is part of the writers that call it -- as long as
    # *every* call site of that name lies in an allowed writer (or in another such helper)
    from ..known_funcs import KNOWN_FUNCS
    helpers = {}
    for f, _ in offenders:
        if f.qname not in KNOWN_FUNCS and f.node.name.startswith("_") and not f.node.name.startswith("__") \
                and (f.cls is cls or (f.cls is None and f.module is cls.module)):
            helpers[f.node.name] = f
    changed = True
    while changed and helpers:
        changed = False
        for name in list(helpers):
            sites = []
            for g in model.all_functions():
                for node in ast.walk(g.node):
                    if isinstance(node, ast.Call) and ((isinstance(node.func, ast.Attribute) and node.func.attr == name)
                                                       or (isinstance(node.func, ast.Name) and node.func.id == name)):
                        sites.append(g)
                    elif isinstance(node, (ast.Attribute, ast.Name)) and not isinstance(getattr(node, "ctx", None), ast.Store) \
                            and (getattr(node, "attr", None) == name or getattr(node, "id", None) == name):
                        pass
            ok_sites = sites and all((g.cls is cls and g.node.name in allowed) or (g.node.name in helpers and g is helpers[g.node.name])
                                     for g in sites)
            # the helper must not escape as a value (passed around / stored): count its mentions
            mentions = 0
            for g in model.all_functions():
                for node in ast.walk(g.node):
                    if (isinstance(node, ast.Attribute) and node.attr == name) or (isinstance(node, ast.Name) and node.id == name):
                        mentions += 1
            if not ok_sites or mentions != len(sites):
                del helpers[name]
                changed = True
    offenders = [msg for f, msg in offenders if not (f.node.name in helpers and helpers[f.node.name] is f)]
    ok = not offenders
    rep.ob(rule_id, "%s.%s" % (owner, attr), ok, site="productmd/%s.py" % cls.module.name,
           msg="" if ok else "%s.%s is written outside %s: %s" % (owner, attr, sorted(allowed), "; ".join(offenders)),
           facts={"writes_found": n_checked, "allowed": sorted(allowed), "helpers_of_allowed_writers": sorted(helpers)})
    if n_checked < 1:
        raise AnalysisError("vacuity guard: no write of %s.%s found at all" % (owner, attr))
    # embedded positive example: the matcher must see a raw insertion
    sample = ast.parse("class X:\n    def f(self):\n        self.%s.setdefault(1, {})[2] = 3\n" % attr)
    fn = sample.body[0].body[0]
    found = False
    for node in ast.walk(fn):
        if isinstance(node, ast.Assign):
            for t in node.targets:
                if rooted(t, None) is not None:
                    found = True
    rep.ob(rule_id, "embedded-positive-example:%s" % attr, found, trivial=True)


def r_load_via_add(model, rep):
    """every record of the images table reaches self.add on every path (directly or through _add_1_1), for every header
    version"""
    f = model.own_method("images.Images", "deserialize")
    cx = facts.fctx(model, f)
    S = P(cx.selfname)
    IN = P(cx.params[1])
    tab = ("sub", ("sub", IN, ("const", "payload")), ("const", "images"))
    routes = [ev for ev in cx.events if ev.kind == "call" and ev.value[1][0] == "attr" and ev.value[1][1] == S
              and ev.value[1][2] in ("add", "_add_1_1") and len(ev.loops) >= 3
              and T.contains(T.norm_items(ev.loops[-1][1]), lambda x: x == tab)]
    grid = facts.version_grid("quick")
    has_helper = "_add_1_1" in model.cls("images.Images").methods
    if has_helper:
        ok = bool(routes) and all(sum(1 for r in routes if facts.active_at(r, v)) == 1 for v in grid) \
            and all(not facts.non_gate_guards(r) for r in routes)
    else:
        # the legacy converter folded into the loop: per version and per case (the record's arch is 'src' / is not) the image
        # reaches add() -- once for a binary arch, in a loop over the document's arches for 'src'
        ok = bool(routes)
        if ok:
            arch_el = ("elem", routes[0].loops[1][1], routes[0].loops[1][0])
            issrc = ("cmp", ("==",), (arch_el, ("const", "src")))
            for v in grid:
                for b_ in (True, False):
                    sc = facts.at_version(cx, v, atoms={issrc: b_})
                    act = [r for r in routes if sc.holds(r) is not False]
                    ok = ok and len(act) == 1 and (len(act[0].loops) == 3 or (b_ and v <= (1, 1)))
    # no break/continue/return inside the record loops
    lids = set(l[0] for r in routes for l in r.loops[:3])
    cut = [ev for ev in cx.events if ev.kind in ("break", "return") and set(l[0] for l in ev.loops) & lids]
    cut += [ev for ev in cx.events if ev.kind == "continue" and len(ev.loops) <= 3 and set(l[0] for l in ev.loops) & lids]
    ok = ok and not cut
    rep.ob("R-LOAD-VIA-ADD", "Images.deserialize", ok, site=cx.site(f.node),
           msg="" if ok else "for every header version exactly one of self.add / self._add_1_1 must be called, unconditionally, for every "
                             "record of payload/images")
    if has_helper:
        g = model.own_method("images.Images", "_add_1_1")
        gcx = facts.fctx(model, g)
        S = P(gcx.selfname)
        adds = [ev for ev in gcx.events if ev.kind == "call" and ev.value[1] == ("attr", S, "add")]
        ok = len(adds) == 2 and all(ev.value[2][2] == P(gcx.params[4]) for ev in adds)
        rep.ob("R-LOAD-VIA-ADD", "Images._add_1_1", ok, site=gcx.site(g.node),
               msg="" if ok else "_add_1_1 must file the image through self.add() on both branches")


def r_arch_guards_dominate(model, rep):
    """both architecture refusals are in force (negated) at every mutation of the table"""
    from .builders import _fref
    for q, table_attr in (("images.Images.add", "images"), ("rpms.Rpms.add", "rpms")):
        f = _fref(model, q)
        cx = facts.fctx(model, f)
        S = P(cx.selfname)
        arch = P("arch")
        muts = []
        for ev in cx.events:
            if ev.kind == "store" and T.root_of(ev.target) == S:
                muts.append(ev)
            elif ev.kind == "call" and ev.value[1][0] == "attr" and ev.value[1][2] in ("setdefault", "add", "append", "update") \
                    and T.root_of(ev.value[1][1]) == S and ev.value[1][1] != S:
                muts.append(ev)
        if not muts:
            # the insertion was moved into a helper method: the call of the helper is the mutation event
            writers = set()
            cls = f.cls
            for name, fn in cls.methods.items():
                for node in ast.walk(fn):
                    if isinstance(node, ast.Attribute) and node.attr == table_attr and isinstance(node.ctx, ast.Load):
                        # any method that reaches self.<table>.setdefault/...[...] = counts
                        pass
                src = ast.unparse(fn)
                if ("self.%s.setdefault" % table_attr) in src or ("self.%s[" % table_attr) in src:
                    writers.add(name)
            muts = [ev for ev in cx.events if ev.kind == "call" and ev.value[1][0] == "attr" and ev.value[1][1] == S and ev.value[1][2] in writers]
        if not muts:
            rep.ob("R-ARCH-GUARD", "%s:guards-dominate-insertion" % q, False, site=cx.site(f.node),
                   msg="%s no longer inserts into self.%s (directly or through a method of the class)" % (q, table_attr))
            continue
        bad = []
        arches = set(model.const("common", "RPM_ARCHES"))

        def folded(t):
            try:
                v = cx.const_of(t)
                return set(v) if isinstance(v, (list, tuple, set, frozenset)) else None
            except Exception:
                return None
        for ev in muts:
            known = nosrc = False
            for g in ev.guards:
                t, pol = facts.canon_guard(g)
                if t[0] == "cmp" and t[1] == ("in",) and t[2][0] == arch:
                    tab = folded(t[2][1])
                    if tab is None:
                        continue
                    if pol and tab <= arches:
                        known = True           # arch in <subset of RPM_ARCHES> holds here
                    if not pol and {"src", "nosrc"} <= tab:
                        nosrc = True           # arch in <table containing src, nosrc> was refused
            if not (known and nosrc):
                bad.append(ev.lineno)
        rep.ob("R-ARCH-GUARD", "%s:guards-dominate-insertion" % q, not bad, site=cx.site(bad[0] if bad else f.node),
               msg="" if not bad else "the table is modified at line(s) %s on a path on which the architecture has not been checked against "
                                     "RPM_ARCHES and against src/nosrc" % sorted(set(bad)))


@register("C09")
def check_c09(model, rep, tier):
    from .validation import _install_validate_summary
    from .schema import r_gate
    rep.explanation = (
        "The inductive step of the uniqueness invariant, decided structurally: the folded UNIQUE_IMAGE_ATTRIBUTES is exactly "
        "the seven documented attributes, each an Image attribute serialised untransformed, and UniqueImage is built from "
        "the same constant; both branches of identify_image (object / dict) iterate that constant and the normalisation "
        "covers exactly the keys the writer omits conditionally, with the __init__ defaults (so object and dict identities "
        "coincide); Images.add, under a gate that equals 'version >= 1.1' on a version grid, scans every image of every "
        "cell with no filter or early exit and raises ValueError exactly on same identity and different checksums, and "
        "the single insertion follows the scan (also failure-atomic); nothing outside Images.add/__delitem__ writes "
        "Images.images; every loaded image is routed through add() for every header version. Not decided: histories that "
        "mutate an image after filing it, or write .images from outside the class.")
    rep.not_decided = ["histories that mutate an Image after filing it", "writes to .images from outside the library"]
    _install_validate_summary(model)
    attrs, W, wcx = r_ident_table(model, rep)
    r_ident_both(model, rep, attrs, W, wcx)
    r_add_scan(model, rep, tier)
    # for uniqueness only the insertion of an *image* matters: a refusal after it would leave the colliding image filed; creating
    # an empty (variant, arch) cell before a refusal is C12's business (failed call leaves the manifest unchanged), not C09's
    check_atomic(model, rep, "R-ADD-ATOMIC", model.own_method("images.Images", "add"), builder_refs(model),
                 construct="images.Images.add:no-refusal-after-insertion", ignore_mutators=("setdefault",))
    r_single_writer(model, rep, "images.Images", "images", {"add", "__delitem__", "__init__"})
    from .roundtrip import r_no_hidden_state
    r_no_hidden_state(model, rep, ["images.Images"])
    r_identity_hash(model, rep)
    r_load_via_add(model, rep)
    r_gate(model, rep, tier, only=["images.Images.add", "images.Images.deserialize"])
    # the gate reads header.version_tuple: it must be computed from the current version string on every access
    from .validation import r_version_tuple_fresh
    r_version_tuple_fresh(model, rep)


# ---------------------------------------------------------------------------------------------------------
# C10
# ---------------------------------------------------------------------------------------------------------
def r_arch_table(model, rep, rule_id="R-ARCH-GUARD"):
    from .oracle_tables import DOC_RPM_ARCHES
    arches = model.const("common", "RPM_ARCHES")
    missing = [a for a in DOC_RPM_ARCHES if a not in arches]
    rep.ob(rule_id, "RPM_ARCHES:documented-architectures", not missing, site="productmd/common.py",
           msg="" if not missing else "documented architecture name(s) %s are no longer in RPM_ARCHES (a valid architecture is refused)" % missing)
    glued = [a for a in arches if a not in DOC_RPM_ARCHES and any(a == x + y for x in DOC_RPM_ARCHES for y in DOC_RPM_ARCHES)]
    rep.ob(rule_id, "RPM_ARCHES:no-concatenated-entries", not glued, site="productmd/common.py",
           msg="" if not glued else "entries %s are two architecture names run together (missing comma)" % glued)


def r_identity_hash(model, rep):
    """Image objects live in sets and are shared between cells: they must keep identity-based equality and hashing"""
    cls = model.cls("images.Image")
    bad = [n for n in ("__eq__", "__hash__", "__ne__", "__lt__", "__cmp__") if cls.lookup(n) is not None]
    rep.ob("R-IDENTITY-HASH", "images.Image", not bad, site=cls.module.site(cls.node),
           msg="" if not bad else "images.Image defines %s: cells are sets, so value-equal but distinct images collapse into one" % bad)


def r_arch_guard(model, rep):
    from .builders import REFUSALS, refusal, _fref
    arches = model.const("common", "RPM_ARCHES")
    ok = "src" in arches and "nosrc" in arches and len(arches) >= 50
    rep.ob("R-ARCH-GUARD", "RPM_ARCHES:contains-src-nosrc", ok, site="productmd/common.py",
           msg="" if ok else "RPM_ARCHES no longer contains 'src'/'nosrc' (they are legal *package* arches; the tree-arch guard relies on the second test)")
    r_arch_table(model, rep)
    for q, label, kind, param, extra in REFUSALS:
        if q not in ("images.Images.add", "rpms.Rpms.add") or param != "arch":
            continue
        f = _fref(model, q)
        cx = facts.fctx(model, f)
        ev = refusal(cx, kind, param, extra, model)
        ok = ev is not None and ev.value[0] == "call" and ev.value[1] == ("global", "ValueError")
        # dominates the insertion: it precedes every store/mutation (checked path-wise by R-ADD-ATOMIC) and is not in a loop
        ok = ok and not ev.loops
        rep.ob("R-ARCH-GUARD", "%s:%s" % (q, label), ok, site=cx.site(ev.lineno if ev else f.node),
               msg="" if ok else "%s does not refuse (ValueError) an architecture that is %s" % (q, label))
    # the table tested is the real one
    for q in ("images.Images.add", "rpms.Rpms.add"):
        f = _fref(model, q)
        cx = facts.fctx(model, f)
        tabs = [g[0][2][1] for ev in cx.events if ev.kind == "raise" for g in ev.guards
                if g[0][0] == "cmp" and g[0][1] == ("in",) and not g[1] and g[0][2][0] == P("arch")]
        ok = bool(tabs) and tabs[0][0] == "global" and model.resolve_name(f.module, tabs[0][1]) is not None \
            and model.resolve_name(f.module, tabs[0][1])[:2] == ("const", "RPM_ARCHES")
        rep.ob("R-ARCH-GUARD", "%s:table-is-common.RPM_ARCHES" % q, ok, site=cx.site(f.node),
               msg="" if ok else "the architecture table tested is not productmd.common.RPM_ARCHES")


def r_src_route(model, rep):
    # images <= 1.1: the converter, in its own method or folded into the reader's record loop
    if "_add_1_1" in model.cls("images.Images").methods:
        f = model.own_method("images.Images", "_add_1_1")
        cx = facts.fctx(model, f)
        S = P(cx.selfname)
        data, variant, arch, image = [P(x) for x in cx.params[1:5]]
        base = 0
        adds = [ev for ev in cx.events if ev.kind == "call" and ev.value[1] == ("attr", S, "add")]
        tab = ("sub", ("sub", data, ("const", "payload")), ("const", "images"))
    else:
        f = model.own_method("images.Images", "deserialize")
        cx = facts.fctx(model, f)
        S = P(cx.selfname)
        tab = ("sub", ("sub", P(cx.params[1]), ("const", "payload")), ("const", "images"))
        adds = [ev for ev in cx.events if ev.kind == "call" and ev.value[1] == ("attr", S, "add") and len(ev.loops) >= 3
                and facts.active_at(ev, (1, 0))]
        base = 3
        if not adds:
            raise AnalysisError("Images.deserialize: no add() call is active for format 1.0 (legacy converter not found)")
        variant = ("elem", adds[0].loops[0][1], adds[0].loops[0][0])
        arch = ("elem", adds[0].loops[1][1], adds[0].loops[1][0])
        image = adds[0].value[2][2] if len(adds[0].value[2]) == 3 else None
    issrc = ("cmp", ("==",), (arch, ("const", "src")))
    moved = [ev for ev in adds if len(ev.loops) > base]
    plain = [ev for ev in adds if len(ev.loops) == base]
    ok, msg = len(moved) == 1 and len(plain) == 1, "expected one re-filing loop and one plain add"
    if ok:
        m, p = moved[0], plain[0]
        it = ("sub", tab, variant)
        el = ("elem", it, m.loops[base][0])
        skip = ("cmp", ("==",), (el, ("const", "src")))
        def gate_free(ev):
            # the conditions besides the version gate, evaluated where the legacy converter is active (format 1.0)
            out = []
            for g in ev.guards:
                if facts.is_pure_gate(g[0]):
                    continue
                if facts.mentions_version(g[0]):
                    t = facts.at_version(cx, (1, 0)).term(g[0])
                    t = T.select(t, lambda x: None)
                    out.append((T.degate(t), g[1]))
                else:
                    out.append(g)
            return out
        ok = m.loops[base][1] == it and m.value[2] == (variant, el, image) \
            and facts.guard_atoms(gate_free(m)) == {facts.canon_guard((issrc, True)), facts.canon_guard((skip, False))}
        msg = "a 'src' image must be re-filed under every architecture of the same variant in the document except 'src' itself"
        if ok:
            ok = p.value[2] == (variant, arch, image) and facts.guard_atoms(gate_free(p)) == {facts.canon_guard((issrc, False))}
            msg = "a binary-arch image must be filed under its own (variant, arch)"
    rep.ob("R-SRC-ROUTE", "Images._add_1_1", ok, site=cx.site(f.node), msg="" if ok else msg)
    # rpms 0.3
    f = model.own_method("rpms.Rpms", "deserialize_0_3")
    cx = facts.fctx(model, f)
    S = P(cx.selfname)
    IN = P(cx.params[1])
    man = ("sub", ("sub", IN, ("const", "payload")), ("const", "manifest"))
    adds = [ev for ev in cx.events if ev.kind == "call" and ev.value[1] == ("attr", S, "add")]
    ok, msg = len(adds) == 2, "expected two add() calls (binary package, its source package)"
    if ok:
        b, s = adds
        lv = b.loops[0]
        v = ("elem", T.unwrap(lv[1]) if False else lv[1], lv[0])
        la = b.loops[1]
        a = ("elem", la[1], la[0])
        skip = (("cmp", ("==",), (a, ("const", "src"))), False)
        ok = len(b.loops) == 4 and T.unwrap(lv[1]) in (man,) or lv[1] == man
        ok = ok and skip in b.guards and skip in s.guards
        msg = "the 'src' pseudo-architecture must be skipped before any add()"
        if ok:
            ok = b.value[2][0] == v and b.value[2][1] == a and s.value[2][0] == v and s.value[2][1] == a
            msg = "binary and source packages must both be filed under the binary architecture being read"
        if ok:
            items = b.loops[2]
            sn = ("elem", items[1], items[0])
            # source lookup: payload[variant].get('src', {}).get(<same srpm key>, None)
            base = T.unwrap(lv[1])
            want = ("call", ("attr", ("call", ("attr", ("sub", lv[1], v), "get"), (("const", "src"), ("dict", ())), ()), "get"), (sn, ("const", None)), ())
            # (what the source add() takes its path from - whatever the local holding it is called)
            srpm_data = None
            if len(s.value[2]) > 3 and s.value[2][3][0] == "sub" and s.value[2][3][2] == ("const", "path"):
                srpm_data = s.value[2][3][1]
            ok = srpm_data == want
            msg = "the source package must be looked up in the variant's 'src' table under the same source-package key"
            if ok:
                ok = s.value[2][2] == sn and s.value[2][5] == ("const", "source") and len(s.value[2]) == 6 \
                    and (("cmp", ("is",), (srpm_data, ("const", None))), False) in s.guards \
                    and s.value[2][3] == ("sub", srpm_data, ("const", "path")) and s.value[2][4] == ("sub", srpm_data, ("const", "sigkey"))
                msg = "the source package must be re-added with its own path/sigkey and category 'source', exactly when it is present"
            if ok:
                ok = b.value[2][6] == sn and b.value[2][2] == ("elem", b.loops[3][1], b.loops[3][0])
                msg = "binary packages must be added under their source package key"
    rep.ob("R-SRC-ROUTE", "Rpms.deserialize_0_3", ok, site=cx.site(f.node), msg="" if ok else msg)


@register("C10")
def check_c10(model, rep, tier):
    from .validation import _install_validate_summary
    from .schema import r_gate
    rep.explanation = (
        "Decided structurally: Images.add and Rpms.add refuse (ValueError) an architecture outside the folded RPM_ARCHES "
        "table and the architectures 'src'/'nosrc' (the table does contain them, so the second guard is not vacuous), and "
        "the negation of both refusals is in force at every modification of the table (guard stacks of def-use events); nothing outside the allowed "
        "functions writes Images.images / Rpms.rpms; the 1.0/1.1 image converter re-files a 'src' image under every "
        "architecture of the same variant except 'src' and never passes 'src' to add(); its gate equals 'version <= 1.1' "
        "on a version grid; the rpms 0.3 reader skips 'src' before any add, looks the source package up in the variant's "
        "'src' table under the same key and re-adds it with category 'source' under the binary architecture. Not decided: "
        "the resulting tables value by value.")
    rep.not_decided = ["value-level content of the re-filed tables"]
    _install_validate_summary(model)
    r_arch_guard(model, rep)
    r_arch_guards_dominate(model, rep)
    r_single_writer(model, rep, "images.Images", "images", {"add", "__delitem__", "__init__"})
    r_single_writer(model, rep, "rpms.Rpms", "rpms", {"add", "__delitem__", "__init__", "deserialize_1_0", "deserialize_0_3"})
    r_src_route(model, rep)
    r_load_via_add(model, rep)
    r_identity_hash(model, rep)
    r_gate(model, rep, tier, only=["images.Images.deserialize", "rpms.Rpms.deserialize"])
