# -*- coding: utf-8 -*-
"""
C06 -- only valid objects can be written
C07 -- invalid documents are rejected on load
C18 -- a failing dump leaves the destination untouched

Rules: R-WRITER-VALIDATES, R-NESTED-REACH, R-VAL-COVER, R-VAL-STRENGTH, R-VAL-DEAD, R-VALIDATE-ALL,
R-DUMP-VALIDATES, R-READER-VALIDATES, R-LOADS, R-HDR-GATE, R-HDR-RE, R-REQUIRED, R-DUMP-ORDER.
"""
from __future__ import annotations

import ast

from .. import facts, rx
from .. import terms as T
from ..core import AnalysisError
from ..model import FuncRef, dotted
from ..walker import PathRule, Walker
from . import register
from .oracle_tables import VAL_OBLIGATIONS, VAL_EXEMPT_FIELDS, REQUIRED_KEYS_SOFT_OK


# ---------------------------------------------------------------------------------------------------------
# shared: does a call expression invoke self.validate()?
# ---------------------------------------------------------------------------------------------------------
def is_validate_call(call, selfname):
    return (isinstance(call.func, ast.Attribute) and call.func.attr == "validate"
            and isinstance(call.func.value, ast.Name) and call.func.value.id == selfname and not call.args)


EMIT_METHODS = ("set", "add_section", "append", "setdefault", "extend", "update", "insert", "write")


class WriterValidates(PathRule):
    """state: frozenset of flags  'V' validate() was called, 'E' something was emitted"""

    def __init__(self, func, selfname, out_aliases, cls=None, depth=0, defcls=None):
        self.selfname = selfname
        self.aliases = out_aliases
        self.cls = cls
        self.depth = depth
        self.defcls = defcls          # the class whose method is being walked (for super())

    def _helper_summary(self, c):
        """self.<helper>(...) of the same class: (validates on every normal exit, emits on some exit)"""
        if self.cls is None or self.depth >= 2 or not isinstance(c.func, ast.Attribute):
            return None
        if isinstance(c.func.value, ast.Call) and dotted(c.func.value.func) == "super" and self.defcls is not None:
            # super(K, self).serialize(out): the next definition along the MRO
            mro = self.cls.mro()
            lk = None
            if self.defcls in mro:
                for k_ in mro[mro.index(self.defcls) + 1:]:
                    if c.func.attr in k_.methods and k_.qname != "common.MetadataBase":
                        lk = (k_, k_.methods[c.func.attr])
                        break
            if lk is None:
                return None
        else:
            if not (isinstance(c.func.value, ast.Name) and c.func.value.id == self.selfname):
                return None
            lk = self.cls.lookup(c.func.attr)
            if lk is None or c.func.attr in ("serialize", "validate") or c.func.attr in lk[0].properties or lk[0].qname == "common.MetadataBase":
                return None
        fn = lk[1]
        params = [a.arg for a in fn.args.args]
        if not params:
            return None
        # parameters of the helper that receive the output container
        outs = set()
        for i, a in enumerate(c.args):
            if facts._root_name(a) in self.aliases and i + 1 < len(params):
                outs.add(params[i + 1])
        for k in c.keywords:
            if k.arg and facts._root_name(k.value) in self.aliases:
                outs.add(k.arg)
        rule = WriterValidates(fn, params[0], facts.rooted_aliases(fn, outs) if outs else set(), self.cls, self.depth + 1, lk[0])
        ex = Walker(rule).run(fn, {frozenset()})
        exits = list(ex.normal) + [s_ for s_, _ in ex.ret]
        if not exits:
            return None
        return all("V" in s_ for s_ in exits), any("E" in s_ for s_ in exits)

    def effect(self, eff, st):
        if eff.kind == "call":
            c = eff.node
            if is_validate_call(c, self.selfname):
                return [st | {"V"}], []
            hs = self._helper_summary(c)
            if hs is not None:
                add = set()
                if hs[0]:
                    add.add("V")
                if hs[1]:
                    add.add("E")
                if add:
                    return [st | add], []
            if isinstance(c.func, ast.Attribute):
                root = facts._root_name(c.func.value)
                if root in self.aliases and c.func.attr in EMIT_METHODS:
                    return [st | {"E"}], []
                if c.func.attr == "serialize" and any(facts._root_name(a) in self.aliases for a in c.args):
                    return [st | {"E"}], []
        elif eff.kind == "store":
            t = eff.target
            if isinstance(t, (ast.Subscript, ast.Attribute)) and facts._root_name(t) in self.aliases:
                return [st | {"E"}], []
        return [st], []


def r_writer_validates(model, rep):
    """every normal exit of K.serialize that emitted something has called self.validate()"""
    n = 0
    for cls in facts.metadata_classes(model):
        lk = cls.lookup("serialize")
        if lk is None or lk[0].qname == "common.MetadataBase":
            continue
        if not facts.validator_methods(cls):
            continue            # nothing to validate (applicability)
        defcls, fn = lk
        fref = FuncRef(defcls.module, defcls, fn)
        args = [a.arg for a in fn.args.args]
        if len(args) < 2:
            raise AnalysisError("%s.serialize has no output parameter" % cls.qname)
        selfname, out = args[0], args[1]
        aliases = facts.rooted_aliases(fn, {out})
        rule = WriterValidates(fn, selfname, aliases, cls, 0, defcls)
        ex = Walker(rule).run(fn, {frozenset()})
        bad = []
        emitted_somewhere = False
        for st in ex.normal:
            emitted_somewhere |= "E" in st
            if "E" in st and "V" not in st:
                bad.append("end of function")
        for st, node in ex.ret:
            emitted_somewhere |= "E" in st
            if "E" in st and "V" not in st:
                bad.append("return at line %s" % node.lineno)
        if not emitted_somewhere:
            raise AnalysisError("R-WRITER-VALIDATES: no emission recognised in %s (idiom not understood)" % fref.qname)
        n += 1
        rep.ob("R-WRITER-VALIDATES", "%s.serialize" % cls.qname, not bad, site=defcls.module.site(fn),
               msg=("an emitting path reaches %s without self.validate()" % ", ".join(sorted(set(bad)))) if bad else "",
               facts={"defined_in": fref.qname, "exits": len(ex.normal) + len(ex.ret)})
    rep.floor("R-WRITER-VALIDATES", 17)


# ---------------------------------------------------------------------------------------------------------
def _serialize_owner(cls):
    lk = cls.lookup("serialize")
    if lk is None or lk[0].qname == "common.MetadataBase":
        return None
    return lk


def r_nested_reach(model, rep):
    """composite completeness: every attribute holding a repo object with serialize() is serialised by the
    owner's serialize(); container writers serialise every element, unfiltered"""
    for cls in facts.metadata_classes(model):
        lk = _serialize_owner(cls)
        if lk is None:
            continue
        defcls, fn = lk
        cx = facts.fctx(model, FuncRef(defcls.module, defcls, fn))
        for attr, ia in sorted(cls.init_attrs(model).items()):
            k = ia.kind(model)
            if not (isinstance(k, tuple) and k[0] == "instance"):
                continue
            if _serialize_owner(k[1]) is None:
                continue
            calls = [ev for ev in cx.calls("serialize")
                     if ev.value[1][1] == ("attr", ("param", cx.selfname), attr)]
            ok = bool(calls)
            guards = []
            for ev in calls:
                guards.extend(T.show(cx.norm(g[0])) + (":T" if g[1] else ":F") for g in T.guard_tests(ev))
            allowed = NESTED_GUARDS.get((cls.qname, attr), set())
            extra = [g for g in guards if g not in allowed]
            rep.ob("R-NESTED-REACH", "%s.serialize->%s" % (cls.qname, attr), ok and not extra,
                   site=cx.site(calls[0].lineno if calls else fn),
                   msg="" if ok and not extra else (
                       "nested object self.%s is never serialised" % attr if not ok else
                       "self.%s.serialize() is skipped under condition(s) %s" % (attr, extra)),
                   facts={"guards": guards})
    # container writers: every element, no filter
    for q, container, floor in CONTAINER_WRITERS:
        cls = model.cls(q)
        lk = _serialize_owner(cls)
        if lk is None:
            raise AnalysisError("anchor vanished: %s.serialize" % q)
        defcls, fn = lk
        cx = facts.fctx(model, FuncRef(defcls.module, defcls, fn))
        elem_calls = []
        for ev in cx.calls("serialize"):
            recv = ev.value[1][1]
            if T.contains(recv, lambda x: cx.self_attr(x) == container) and ev.loops:
                elem_calls.append(ev)
        ok = bool(elem_calls)
        msg = ""
        if not ok:
            msg = "no per-element serialize() call over self.%s found" % container
        for ev in elem_calls:
            g = [x for x in T.guard_tests(ev)]
            if g:
                ok = False
                msg = "element serialize() is conditional: %s" % [T.show(x[0]) for x in g]
            if len(ev.loops) < floor:
                ok = False
                msg = "expected %d nested loops over self.%s, found %d" % (floor, container, len(ev.loops))
            for lid, it in ev.loops:
                if T.contains(it, lambda x: x[0] == "sub" and x[2][0] == "slice"):
                    ok = False
                    msg = "loop iterates over a slice of the container"
        # no break/continue inside those loops
        loop_ids = set(l[0] for ev in elem_calls for l in ev.loops)
        for ev in cx.events:
            if ev.kind in ("break", "continue", "return") and set(l[0] for l in ev.loops) & loop_ids:
                ok = False
                msg = "%s inside the element loop (line %s)" % (ev.kind, ev.lineno)
        rep.ob("R-NESTED-REACH", "%s.serialize->each(%s)" % (q, container), ok,
               site=cx.site(elem_calls[0].lineno if elem_calls else fn), msg=msg)
    rep.floor("R-NESTED-REACH", 30)


# guards under which a nested writer may be skipped (the reader has the same guard: R-SCHEMA(f))
NESTED_GUARDS = {
    ("composeinfo.ComposeInfo", "base_product"): {"self.release.is_layered:T"},
    ("treeinfo.TreeInfo", "base_product"): {"self.release.is_layered:T"},
    ("composeinfo.Variant", "release"): {"(self.type == 'layered-product'):T"},
}
# (class, container attribute, nesting depth of the element loop)
CONTAINER_WRITERS = [
    ("composeinfo.Variants", "variants", 1),
    ("composeinfo.Variant", "variants", 1),
    ("images.Images", "images", 3),
    ("treeinfo.Variants", "variants", 1),
    ("treeinfo.Variant", "variants", 1),
]


# ---------------------------------------------------------------------------------------------------------
def canon_guard(cx, g):
    test, pol = T.strip_not(cx.norm(g[0]), g[1])
    if test[0] == "cmp" and len(test[1]) == 1 and test[1][0] in ("is not", "!=", "not in"):
        test = ("cmp", ({"is not": "is", "!=": "==", "not in": "in"}[test[1][0]],), test[2])
        pol = not pol
    return "%s:%s" % (T.show(test), "T" if pol else "F")


def _is_call(t, meth, arg=None):
    return (t[0] == "call" and t[1][0] == "attr" and t[1][2] == meth
            and (arg is None or (len(t[2]) == 1 and t[2][0] == ("const", arg))))


def _sh_absolute_path(cx, g, field):
    t, pol = T.strip_not(g[0], g[1])
    # ... asked of the stored value itself: a copy that went through a fixing helper first (``self._fix_path(p).startswith("/")``)
    # can pass while the value that is written is still absolute
    return pol and _is_call(t, "startswith", "/") and field in cx.self_attrs_in(t[1][1]) \
        and not T.contains(t[1][1], lambda x: x[0] == "call" and not (x[1][0] == "global" and x[1][1] in ("sorted", "list", "set", "tuple")))


def _sh_arch_not_in_parent(cx, g, field):
    t, pol = T.strip_not(g[0], g[1])
    if t[0] != "cmp" or len(t[1]) != 1:
        return False
    op = t[1][0]
    if not ((op == "not in" and pol) or (op == "in" and not pol)):
        return False
    l, r = t[2]
    return T.attr_chain(r) == "%s.parent.arches" % cx.selfname and "arches" in cx.self_attrs_in(l) and l[0] == "elem"


def _sh_uid_alignment(cx, g, field):
    t, pol = T.strip_not(g[0], g[1])
    if t[0] != "cmp" or len(t[1]) != 1:
        return False
    op = t[1][0]
    if not ((op == "!=" and pol) or (op == "==" and not pol)):
        return False
    S = ("param", cx.selfname)
    own = ("attr", S, "uid")

    def is_fmt(x):
        return (x[0] == "fmt" and len(x[1]) == 3 and x[1][1] == ("const", "-")
                and T.attr_chain(x[1][0]) == "%s.parent.uid" % cx.selfname and T.attr_chain(x[1][2]) == "%s.id" % cx.selfname)
    sides = [T.alts(s_) for s_ in t[2]]
    fside = [s_ for s_ in sides if any(is_fmt(a) for a in s_)]
    oside = [s_ for s_ in sides if not any(is_fmt(a) for a in s_)]
    if len(fside) != 1 or len(oside) != 1:
        return False
    # for a child the variant's own uid, untransformed, must be what is compared with '<parent uid>-<id>'
    if own not in oside[0]:
        return False
    if len(oside[0]) == 1:
        return True
    # several alternatives: the untransformed uid must be the one chosen under the same condition as the formula
    fmt_binds = [e for e in cx.events if e.kind == "bind" and is_fmt(e.value)]
    own_binds = [e for e in cx.events if e.kind == "bind" and e.value == own]
    if fmt_binds and own_binds and any(facts.canon_guards(a.guards) == facts.canon_guards(b.guards) for a in fmt_binds for b in own_binds):
        return True
    # one assignment of a value chosen by a condition (conditional expression, merged if/else): the formula for a child, the own
    # uid otherwise
    has_parent = ("cmp", ("is",), (("attr", S, "parent"), ("const", None)))
    for e in cx.events:
        if e.kind == "bind" and e.raw is not None and e.raw[0] in ("gate", "ifexp"):
            child = T.degate(facts.Scenario(cx, atoms={has_parent: False}).term(e.raw))
            top = T.degate(facts.Scenario(cx, atoms={has_parent: True}).term(e.raw))
            if is_fmt(child) and top == own:
                return True
    return False


def _sh_dash_in_id(cx, g, field):
    t, pol = T.strip_not(g[0], g[1])
    return (t[0] == "cmp" and t[1] == ("in",) and pol and t[2][0] == ("const", "-")
            and T.attr_chain(t[2][1]) == "%s.id" % cx.selfname)


flat_atoms = facts.flat_atoms


def set_without_companion(cx, guards, attr, comp):
    """the atoms of ``guards`` saying `self.<attr> is set and self.<comp> is not`, or [] when they do not say that"""
    atoms = flat_atoms(guards)
    a = [x for x in atoms if x[1] and T.attr_chain(x[0]) == "%s.%s" % (cx.selfname, attr)]
    b = [x for x in atoms if not x[1] and T.attr_chain(x[0]) == "%s.%s" % (cx.selfname, comp)]
    return [a[0], b[0]] if a and b else []


def omission_refused(model, cls, attr, comp):
    """validate() refuses an object whose ``attr`` is set while ``comp`` is not (so a writer that only stores attr next to comp
    loses nothing)"""
    for a in facts.assertions_of(model, cls):
        if a.kind != "raise":
            continue
        cx = facts.fctx(model, FuncRef(a.defcls.module, a.defcls, a.defcls.methods[a.method]))
        used = set_without_companion(cx, a.guards, attr, comp)
        if used:
            rest = [x for x in flat_atoms(g for g in a.guards if g[0][0] != "exc") if x not in used]
            if not rest:
                return True
    return False


def _sh_additional_without_unified(cx, guards, field):
    return set_without_companion(cx, guards, "additional_variants", "unified")


_sh_additional_without_unified.multi = True


def _sh_platform_not_in_tree(cx, g, field):
    t, pol = T.strip_not(g[0], g[1])
    if t[0] != "cmp" or len(t[1]) != 1:
        return False
    op = t[1][0]
    if not ((op == "not in" and pol) or (op == "in" and not pol)):
        return False
    l, r = t[2]
    return (T.attr_chain(r) or "").endswith(".tree.platforms") and l[0] == "elem"


RAISE_SHAPES = {
    "absolute_path": _sh_absolute_path,
    "arch_not_in_parent": _sh_arch_not_in_parent,
    "uid_alignment": _sh_uid_alignment,
    "dash_in_id": _sh_dash_in_id,
    "additional_without_unified": _sh_additional_without_unified,
    "platform_not_in_tree": _sh_platform_not_in_tree,
}


def r_val_strength(model, rep, tier):
    """per field: the assertions found are at least as strong as the obligation table"""
    r_val_strength_rows(model, rep, VAL_OBLIGATIONS)
    rep.floor("R-VAL-STRENGTH", 80)


def r_val_strength_rows(model, rep, rows, rule_id="R-VAL-STRENGTH"):
    by_cls = {}
    for row in rows:
        q, field, kind, req, allowed_guards = row
        cls = model.cls(q)
        if q not in by_cls:
            by_cls[q] = facts.assertions_of(model, cls)
        found = [a for a in by_cls[q] if a.field == field and a.kind == kind]
        construct = "%s.%s:%s" % (q, field, kind)
        if not found:
            rep.ob(rule_id, construct, False, site="productmd/%s.py" % cls.module.name,
                   msg="no %s assertion on field %r is run by validate() of %s" % (kind, field, q))
            continue
        ok_any = False
        msgs = []
        for a in found:
            cx = facts.fctx(model, FuncRef(a.defcls.module, a.defcls, a.defcls.methods[a.method]))
            guards = [canon_guard(cx, g) for g in a.guards if g[0][0] != "exc"]
            extra = [g for g in guards if g not in allowed_guards] if kind != "raise" else []
            ok = True
            if extra:
                ok = False
                msgs.append("assertion at line %s is weakened by condition %s" % (a.lineno, extra))
            if kind == "type":
                if not a.arg <= set(req):
                    ok = False
                    msgs.append("accepted types %s exceed the documented %s" % (sorted(a.arg), sorted(req)))
            elif kind == "value":
                modname, const, minimum = req
                table = model.const(modname, const)
                if list(a.arg) != list(table):
                    ok = False
                    msgs.append("value table is not %s.%s" % (modname, const))
                missing = [v for v in minimum if v not in table]
                if missing:
                    ok = False
                    msgs.append("table %s.%s lost documented value(s) %s" % (modname, const, missing))
            elif kind == "re":
                pats = list(a.arg) + [req]
                U = rx.universe(pats)
                single = [c for c in U if c != 10]
                oracle = rx.PNFA(req, U)
                for p in a.arg:
                    inc, w, _ = rx.included(rx.PNFA(p, U), oracle, single)
                    if not inc:
                        ok = False
                        msgs.append("pattern %r accepts %r, outside the documented language %r" % (p, w, req))
            elif kind == "raise":
                meth, shape = req
                if meth and a.method != meth:
                    ok = False
                    msgs.append("expected in %s" % meth)
                shape_fn = RAISE_SHAPES[shape]
                if getattr(shape_fn, "multi", False):
                    # the shape is a conjunction that may be spread over nested ifs: decided on the flattened atoms
                    used = shape_fn(cx, a.guards, field)
                    hit = used
                    rest_guards = [x for x in flat_atoms(g for g in a.guards if g[0][0] != "exc") if x not in used]
                else:
                    hit = [g for g in a.guards if shape_fn(cx, g, field)]
                    rest_guards = [g for g in a.guards if g not in hit and g[0][0] != "exc"]
                if not hit:
                    ok = False
                    msgs.append("raise at line %s is not conditioned on the documented test (%s)" % (a.lineno, shape))
                else:
                    rest = [canon_guard(cx, g) for g in rest_guards]
                    extra = [g for g in rest if g not in allowed_guards]
                    if extra:
                        ok = False
                        msgs.append("check at line %s is weakened by condition %s" % (a.lineno, extra))
            elif kind == "call":
                if a.arg != req:
                    ok = False
                    msgs.append("expected call of %s" % req)
            ok_any = ok_any or ok
        rep.ob(rule_id, construct, ok_any,
               site="%s:%s" % (found[0].defcls.module.rel(), found[0].lineno),
               msg="; ".join(msgs) if not ok_any else "",
               facts={"found": [repr(a) for a in found][:3]})


def r_label_lang(model, rep):
    """the label patterns accept only <supported name>-N.M and accept every documented name"""
    from ..model import RegexConst
    from .oracle_tables import LABEL_NAMES_MIN
    import re as _re
    names = model.const("composeinfo", "LABEL_NAMES")
    f = model.function("composeinfo", "verify_label")
    one_pat = None
    try:
        lst = model.const("composeinfo", "LABEL_RE_LIST")
    except AnalysisError:
        # the ten patterns folded into something else: whatever verify_label applies to the label with .match
        from .regexes import applied_regex
        found = applied_regex(model, f)
        if not found or any(meth != "match" for _, meth, _ in found):
            raise AnalysisError("verify_label: neither LABEL_RE_LIST nor a pattern applied with .match found (idiom not understood)")
        lst = [p_ for p_, _, _ in found]
        one_pat = found
    if isinstance(lst, RegexConst):
        lst = [lst]
    pats = []
    for x in lst:
        if isinstance(x, RegexConst):
            pats.append(x.pattern)
        elif isinstance(x, str):
            pats.append(x)
        else:
            raise AnalysisError("LABEL_RE_LIST element %r is not a pattern" % (x,))
    missing = [n for n in LABEL_NAMES_MIN if n not in names]
    rep.ob("R-LABEL-LANG", "LABEL_NAMES:documented-values", not missing, site="productmd/composeinfo.py",
           msg="" if not missing else "milestone label names lost: %s" % missing)
    oracle = r"^(?:%s)-\d+\.\d+$" % "|".join(_re.escape(n) for n in sorted(names, key=lambda n: (-len(n), n)))
    U = rx.universe(pats + [oracle], extra="".join(names) + "-1.0")
    single = [c for c in U if c != 10]
    O = rx.PNFA(oracle, U)
    P = [rx.PNFA(p, U) for p in pats]
    for p, pn in zip(pats, P):
        inc, w, n = rx.included(pn, O, single)
        rep.ob("R-LABEL-LANG", "LABEL_RE_LIST:%s" % p[:40], inc, site="productmd/composeinfo.py",
               msg="" if inc else "label pattern %r accepts %r, which is not <supported name>-<major>.<minor>" % (p, w))
    for nme in LABEL_NAMES_MIN:
        word = "%s-1.0" % nme
        ok = any(rx.accepts(pn, word) for pn in P)
        rep.ob("R-LABEL-LANG", "label:%s" % nme, ok, site="productmd/composeinfo.py",
               msg="" if ok else "the documented label %r is rejected" % word)
    # verify_label: None passes, otherwise some pattern of the list must match, else ValueError
    cx = facts.fctx(model, f)
    lab = ("param", cx.params[0])
    ss = [x for x in facts.searches(cx) if x.coll == ("global", "LABEL_RE_LIST")]
    r = [ev for ev in cx.events if ev.kind == "raise"]
    ok = len(ss) == 1 and len(r) == 1 and r[0].value[0] == "call" and r[0].value[1] == ("global", "ValueError")
    if one_pat is not None:
        # one pattern: the ValueError is raised exactly when it does not match the label
        notnone = facts.canon_guard((("cmp", ("is",), (lab, ("const", None))), False))
        ok = len(r) == 1 and r[0].value[0] == "call" and r[0].value[1] == ("global", "ValueError") and len(one_pat) == 1 \
            and one_pat[0][2].value[2][-1] == lab \
            and facts.guard_atoms(facts.own_guards(cx, r[0])) - {notnone} == {facts.canon_guard((one_pat[0][2].value, False))}
    elif ok:
        x = ss[0]
        ok = x.test in (("call", ("attr", x.elem, "match"), (lab,), ()), ("call", ("global", "re.match"), (x.elem, lab), ()))
        # the raise is conditioned on "no pattern matched" only (besides label is None -> return)
        others = [g for g in facts.own_guards(cx, r[0])[:-1 if x.form in ("flag", "any") else None]]
        ok = ok and not [g for g in others if facts.canon_guard(g) != facts.canon_guard((("cmp", ("is",), (lab, ("const", None))), False))]
    rep.ob("R-LABEL-LANG", "verify_label", ok, site=cx.site(f.node),
           msg="" if ok else "verify_label must try label against every pattern of LABEL_RE_LIST with .match and raise ValueError when none matches")


def r_assert_helpers(model, rep):
    """the four assertion helpers of MetadataBase mean what the validator tables assume"""
    S = lambda cx: ("param", cx.selfname)
    # _assert_not_blank: raise ValueError iff not getattr(self, field)
    f = model.own_method("common.MetadataBase", "_assert_not_blank")
    cx = facts.fctx(model, f)
    val = ("call", ("global", "getattr"), (S(cx), ("param", cx.params[1])), ())
    r = [ev for ev in cx.events if ev.kind == "raise"]
    ok = len(r) == 1 and r[0].value[0] == "call" and r[0].value[1] == ("global", "ValueError") \
        and [T.strip_not(g[0], g[1]) for g in facts.own_guards(cx, r[0], kinds=("raise",)) if g[0][0] != "exc"] == [(val, False)] and not [ev for ev in cx.events if ev.kind == "return" and ev.value != ("const", None)]
    rep.ob("R-ASSERT-HELPERS", "MetadataBase._assert_not_blank", ok, site=cx.site(f.node),
           msg="" if ok else "_assert_not_blank must raise ValueError exactly when the field value is falsy (empty string, empty "
                             "container, 0, None)")
    # _assert_value: raise ValueError iff value not in expected_values
    f = model.own_method("common.MetadataBase", "_assert_value")
    cx = facts.fctx(model, f)
    val = ("call", ("global", "getattr"), (S(cx), ("param", cx.params[1])), ())
    r = [ev for ev in cx.events if ev.kind == "raise"]
    ok = len(r) == 1 and r[0].value[0] == "call" and r[0].value[1] == ("global", "ValueError") \
        and [(g[0], g[1]) for g in facts.own_guards(cx, r[0], kinds=("raise",)) if g[0][0] != "exc"] == [(("cmp", ("in",), (val, ("param", cx.params[2]))), False)]
    rep.ob("R-ASSERT-HELPERS", "MetadataBase._assert_value", ok, site=cx.site(f.node),
           msg="" if ok else "_assert_value must raise ValueError exactly when the field value is not in the table")
    # _assert_type: return iff isinstance(value, one of expected types); else TypeError
    f = model.own_method("common.MetadataBase", "_assert_type")
    cx = facts.fctx(model, f)
    val = ("call", ("global", "getattr"), (S(cx), ("param", cx.params[1])), ())
    types_p = ("param", cx.params[2])
    r = [ev for ev in cx.events if ev.kind == "raise"]
    ok = len(r) == 1 and r[0].value[0] == "call" and r[0].value[1] == ("global", "TypeError")
    okr = False
    ss = [x for x in facts.searches(cx) if x.coll == types_p]
    if ok and len(ss) == 1 and ss[0].raise_ev is r[0]:
        x = ss[0]
        okr = x.test == ("call", ("global", "isinstance"), (val, x.elem), ()) and len(facts.own_guards(cx, r[0])) == (
            1 if x.form in ("flag", "any") else 0)
    elif ok:
        # isinstance(value, tuple(expected_types)) form
        og = facts.own_guards(cx, r[0])
        okr = len(og) == 1 and facts.canon_guard(og[0]) in (
            facts.canon_guard((("call", ("global", "isinstance"), (val, ("call", ("global", "tuple"), (types_p,), ())), ()), False)),)
    rep.ob("R-ASSERT-HELPERS", "MetadataBase._assert_type", ok and okr, site=cx.site(f.node),
           msg="" if ok and okr else "_assert_type must raise TypeError unless the field value is an instance of one of the expected types")
    # _assert_matches_re: return iff some pattern matches (pattern.match / re.match); else ValueError
    f = model.own_method("common.MetadataBase", "_assert_matches_re")
    cx = facts.fctx(model, f)
    val = ("call", ("global", "getattr"), (S(cx), ("param", cx.params[1])), ())
    pats_p = ("param", cx.params[2])
    r = [ev for ev in cx.events if ev.kind == "raise"]
    ok = len(r) == 1 and r[0].value[0] == "call" and r[0].value[1] == ("global", "ValueError")
    okm = False
    ss = [x for x in facts.searches(cx) if x.coll == pats_p]
    if ok and len(ss) == 1 and ss[0].raise_ev is r[0]:
        x = ss[0]
        m_c = ("call", ("attr", x.elem, "match"), (val,), ())          # compiled pattern
        m_s = ("call", ("global", "re.match"), (x.elem, val), ())      # pattern given as a string (no .match attribute)
        exc = ("exc", "AttributeError")
        # a compiled pattern: no AttributeError, found iff pattern.match(value); a string: pattern.match raises
        # AttributeError, found iff re.match(pattern, value)
        as_compiled = facts.bool_reduce(x.test, {exc: False})
        as_string = facts.bool_reduce(x.test, {exc: True, m_c: False})
        okm = as_compiled == m_c and as_string == m_s or x.test == m_s
        okm = okm and len(facts.own_guards(cx, r[0])) == (1 if x.form in ("flag", "any") else 0)
    rep.ob("R-ASSERT-HELPERS", "MetadataBase._assert_matches_re", ok and okm, site=cx.site(f.node),
           msg="" if ok and okm else "_assert_matches_re must return exactly when some pattern .match()es the field value and raise ValueError otherwise")
    for cls in facts.metadata_classes(model):
        for h in facts.ASSERT_HELPERS:
            if h in cls.methods:
                rep.ob("R-ASSERT-HELPERS", "%s.%s(override)" % (cls.qname, h), False, site=cls.module.site(cls.methods[h]),
                       msg="assertion helper overridden in a subclass")


def r_table_shape(model, rep):
    """the constant tables the validators draw their accepted values from are well-formed: a mapping whose values are
    sequences has *only* sequences as values (a bare string among them -- ('iso') for ('iso',) -- is flattened into its
    characters, which then become accepted values)"""
    n = 0
    for m in model.modules.values():
        for name in sorted(m.assigns):
            try:
                v = model._module_const(m, name)
            except Exception:
                continue
            if not isinstance(v, dict) or not v:
                continue
            vals = list(v.values())
            seqs = [x for x in vals if isinstance(x, (list, tuple, set, frozenset))]
            strs = [k for k, x in v.items() if isinstance(x, str)]
            if not seqs:
                continue
            n += 1
            rep.ob("R-TABLE-SHAPE", "%s.%s" % (m.name, name), not strs, site="productmd/%s.py:%s" % (m.name, m.assigns[name][-1].lineno),
                   msg="" if not strs else "table %s maps %s to a bare string while its other values are sequences: flattening the table "
                                           "yields the string's characters (missing comma in a one-element tuple?)" % (name, strs[:3]))
    if n < 1:
        raise AnalysisError("vacuity guard: no sequence-valued constant table found (IMAGE_TYPE_FORMAT_MAPPING expected)")


def r_val_cover(model, rep):
    """every public data attribute of a metadata class is asserted on by some validator (or exempt with a reason)"""
    for cls in facts.metadata_classes(model):
        if _serialize_owner(cls) is None:
            continue
        asserted = set(a.field for a in facts.assertions_of(model, cls))
        for attr, ia in sorted(cls.init_attrs(model).items()):
            if attr.startswith("_"):
                continue
            k = ia.kind(model)
            if isinstance(k, tuple) or k == "param":
                continue        # nested objects / back-pointers
            key = (cls.qname, attr)
            if cls.qname in ("composeinfo.VariantPaths", "treeinfo.VariantPaths") and isinstance(ia.value, (ast.Dict, ast.Constant)) \
                    and key not in VAL_EXEMPT_FIELDS:
                # attributes created from the class's own _fields table (setattr loop): free-form path tables
                try:
                    if attr in model.class_attr_const(cls, "_fields"):
                        rep.ob("R-VAL-COVER", "%s.%s" % key, True, trivial=True, site=cls.module.site(cls.node),
                               facts={"exempt": "path attribute generated from _fields; no documented rule"})
                        continue
                except Exception:
                    pass
            if key in VAL_EXEMPT_FIELDS:
                rep.ob("R-VAL-COVER", "%s.%s" % key, True, trivial=True, site=cls.module.site(cls.node),
                       facts={"exempt": VAL_EXEMPT_FIELDS[key]})
                continue
            rep.ob("R-VAL-COVER", "%s.%s" % key, attr in asserted, site="%s:%s" % (ia.cls.module.rel(), ia.lineno),
                   msg="" if attr in asserted else "field %s.%s is written but no _validate* method asserts on it" % key)
    rep.floor("R-VAL-COVER", 60)


def r_val_dead(model, rep):
    """a method that only tests fields and raises ValueError/TypeError must be run by validate() or have a caller"""
    called = set()
    for f in model.all_functions():
        for node in ast.walk(f.node):
            if isinstance(node, ast.Call) and isinstance(node.func, ast.Attribute):
                called.add(node.func.attr)
            elif isinstance(node, ast.Attribute):
                called.add(node.attr)       # bound-method references count as uses
    n = 0
    for cls in facts.metadata_classes(model) + [model.cls("common.MetadataBase")]:
        for name, fn in sorted(cls.methods.items()):
            if name.startswith("__") or name in cls.properties:
                continue
            cx = facts.fctx(model, FuncRef(cls.module, cls, fn))
            raises = [ev for ev in cx.events if ev.kind == "raise" and ev.value[0] == "call"
                      and ev.value[1][0] == "global" and ev.value[1][1] in ("ValueError", "TypeError")]
            if not raises:
                continue
            stores = [ev for ev in cx.events if ev.kind in ("store", "del")]
            returns_value = [ev for ev in cx.events if ev.kind == "return" and ev.value != ("const", None)]
            takes_args = len(fn.args.args) > 1
            if stores or returns_value or takes_args:
                continue
            n += 1
            # a pure checker of self: validator-shaped
            live = name.startswith("_validate") or name in called
            rep.ob("R-VAL-DEAD", "%s.%s" % (cls.qname, name), live, site=cls.module.site(fn),
                   msg="" if live else "validator-shaped method %s.%s is never run: its name does not start with "
                                       "'_validate' and nothing calls it" % (cls.qname, name))
    # embedded positive example keeps the rule armed even when the expected count of dead validators is zero
    rep.floor("R-VAL-DEAD", 8)


def r_validate_all(model, rep, strict=True):
    """MetadataBase.validate runs every _validate* method, no early exit"""
    f = model.own_method("common.MetadataBase", "validate")
    cx = facts.fctx(model, f)
    ok, msg = True, ""
    # the call  getattr(self, name)()  inside a loop
    runs = []
    for ev in cx.events:
        if ev.kind == "call" and ev.loops:
            fn = ev.value[1]
            if fn[0] == "call" and fn[1] == ("global", "getattr") and fn[2] and cx.is_self(fn[2][0]):
                runs.append(ev)
    if not runs:
        raise AnalysisError("R-VALIDATE-ALL: the dispatch loop of MetadataBase.validate was not recognised")
    ev = runs[-1]
    if T.guard_tests(ev):
        ok, msg = False, "validator call is conditional: %s" % [T.show(g[0]) for g in T.guard_tests(ev)]
    src = ev.loops[-1][1]
    # the name list: must come from dir(self), filtered only by the '_validate' prefix and callable()
    if not T.contains(src, lambda x: x[0] == "call" and x[1] == ("global", "dir") and x[2] and cx.is_self(x[2][0])):
        ok, msg = False, "validator names are not taken from dir(self)"
    prefixes = [x[2][0][1] for x in T.walk(src)
                if x[0] == "call" and x[1][0] == "attr" and x[1][2] == "startswith" and x[2] and x[2][0][0] == "const"]
    if prefixes != ["_validate"]:
        ok, msg = False, "validator name filter is %r, expected startswith('_validate')" % (prefixes,)
    if T.contains(src, lambda x: x[0] == "sub"):
        ok, msg = False, "validator name list is sliced/indexed"
    conds = []
    for x in T.walk(src):
        if x[0] == "comp":
            for g in x[3]:
                conds.extend(g[2])
    for c in conds:
        names = set(T.calls_in(c))
        if not names <= {".startswith", "callable", "getattr"}:
            ok, msg = False, "unexpected filter on validator names: %s" % T.show(c)
    lids = set(l[0] for l in ev.loops)
    for e2 in cx.events:
        if e2.kind in ("break", "continue", "return") and set(l[0] for l in e2.loops) & lids:
            ok, msg = False, "%s inside the validator loop" % e2.kind
        if e2.kind == "return" and e2.seq < ev.seq:
            ok, msg = False, "early return before the validator loop"
    # exceptions must propagate: the call must not sit inside a try
    for node in ast.walk(f.node):
        if isinstance(node, ast.Try):
            ok, msg = False, "validate() swallows exceptions (try/except present)"
    rep.ob("R-VALIDATE-ALL", "common.MetadataBase.validate", ok, site=cx.site(ev.lineno), msg=msg)
    # no subclass overrides validate()
    for cls in facts.metadata_classes(model):
        if "validate" in cls.methods:
            if not strict:
                raise AnalysisError("%s overrides validate(): what a validate() call checks can no longer be read off the validator "
                                    "tables, the loading-side rules cannot be decided" % cls.qname)
            rep.ob("R-VALIDATE-ALL", "%s.validate(override)" % cls.qname, False, site=cls.module.site(cls.methods["validate"]),
                   msg="validate() is overridden; the per-class validator tables no longer describe what runs (a skipped or "
                       "memoised validation lets an invalid object be written)")


class DumpValidates(PathRule):
    """flags: 'V' validate() called, 'S' serialize() called, 'B' document written (build_file) or delegated to another
    dump(); 'bad' build_file reached without V and S"""

    def __init__(self, selfname, model=None, fref=None):
        self.selfname = selfname
        self.model = model
        self.fref = fref

    def helper(self, call):
        if self.model is None:
            return None
        from ..walker import unknown_self_helper
        fn = unknown_self_helper(self.model, self.fref, call, self.selfname)
        return (fn, self) if fn is not None else None

    def effect(self, eff, st):
        if eff.kind == "call" and isinstance(eff.node.func, ast.Attribute):
            c = eff.node
            name = c.func.attr
            recv_self = isinstance(c.func.value, ast.Name) and c.func.value.id == self.selfname
            if name == "validate" and recv_self:
                return [st | {"V"}], []
            if name == "serialize" and recv_self:
                return [st | {"S"}], []
            if name == "build_file" and recv_self:
                if "V" in st and "S" in st:
                    return [st | {"B"}], []
                return [st | {"B", "bad"}], []
            if name in ("dump", "dumps") and (recv_self or (dotted(c.func.value) or "").endswith("MetadataBase")
                                              or (isinstance(c.func.value, ast.Call) and dotted(c.func.value.func) == "super")):
                return [st | {"B", "delegated"}], []
        return [st], []


def r_dump_validates(model, rep):
    """on every normal path dump() validates and serialises before the document is written (or delegates to another
    dump()); dumps() goes through dump()"""
    for q in ("common.MetadataBase", "treeinfo.TreeInfo"):
        f = model.own_method(q, "dump")
        selfname = f.node.args.args[0].arg
        ex = Walker(DumpValidates(selfname, model, f)).run(f.node, {frozenset()})
        states = list(ex.normal) + [s_ for s_, _ in ex.ret]
        ok = bool(states) and all("B" in st and "bad" not in st for st in states)
        rep.ob("R-DUMP-VALIDATES", "%s.dump" % q, ok, site=f.module.site(f.node),
               msg="" if ok else "on some path dump() writes the document without having called self.validate() and self.serialize() "
                                 "first (or returns without writing)")
    f = model.own_method("common.MetadataBase", "dumps")
    cx = facts.fctx(model, f)
    ok = bool([ev for ev in cx.calls("dump", on_self=True) if not T.guard_tests(ev)])
    rep.ob("R-DUMP-VALIDATES", "common.MetadataBase.dumps", ok, site=cx.site(f.node),
           msg="" if ok else "dumps() does not go through dump()")
    # no subclass bypasses dump/dumps: an override is held to the same rule
    for cls in facts.metadata_classes(model):
        for name in ("dump", "dumps"):
            if name in cls.methods and not (cls.qname == "treeinfo.TreeInfo" and name == "dump"):
                g = FuncRef(cls.module, cls, cls.methods[name])
                if name == "dump":
                    ex = Walker(DumpValidates(g.node.args.args[0].arg, model, g)).run(g.node, {frozenset()})
                    states = list(ex.normal) + [s_ for s_, _ in ex.ret]
                    ok = bool(states) and all("B" in st and "bad" not in st for st in states)
                else:
                    gcx = facts.fctx(model, g)
                    ok = bool([ev for ev in gcx.calls("dump", on_self=True) if not T.guard_tests(ev)])
                rep.ob("R-DUMP-VALIDATES", "%s.%s(override)" % (cls.qname, name), ok, site=cls.module.site(cls.methods[name]),
                       msg="" if ok else "the override of %s() writes without validate()+serialize() (or bypasses dump())" % name)


# ---------------------------------------------------------------------------------------------------------
# C07
# ---------------------------------------------------------------------------------------------------------
class ReaderValidates(PathRule):
    """state flag 'D' (dirty): a field of self was assigned from parsed data since the last self.validate()"""

    def __init__(self, selfname, in_aliases, model=None, fref=None):
        self.selfname = selfname
        self.aliases = in_aliases
        self.assigned_any = False
        self.model = model
        self.fref = fref

    def helper(self, call):
        if self.model is None or (isinstance(call.func, ast.Attribute) and call.func.attr.startswith(("deserialize", "validate"))):
            return None
        from ..walker import unknown_self_helper
        fn = unknown_self_helper(self.model, self.fref, call, self.selfname)
        return (fn, self) if fn is not None else None

    def effect(self, eff, st):
        if eff.kind == "call":
            c = eff.node
            if is_validate_call(c, self.selfname):
                return [st - {"D"}], []
            if isinstance(c.func, ast.Attribute) and isinstance(c.func.value, ast.Name) \
                    and c.func.value.id == self.selfname and c.func.attr.startswith("deserialize_"):
                self.assigned_any = True
                return [st | {"D"}], []
            if isinstance(c.func, ast.Name) and c.func.id == "setattr" and c.args \
                    and isinstance(c.args[0], ast.Name) and c.args[0].id == self.selfname:
                self.assigned_any = True
                return [st | {"D"}], []
            # self.<field>.add/update/append(...)  (container fields)
            if isinstance(c.func, ast.Attribute) and c.func.attr in ("add", "update", "append", "extend", "setdefault"):
                v = c.func.value
                if isinstance(v, ast.Attribute) and isinstance(v.value, ast.Name) and v.value.id == self.selfname \
                        and not v.attr.startswith("_"):
                    self.assigned_any = True
                    return [st | {"D"}], []
        elif eff.kind == "store":
            t = eff.target
            base = t
            while isinstance(base, ast.Subscript):
                base = base.value
            if isinstance(base, ast.Attribute) and isinstance(base.value, ast.Name) and base.value.id == self.selfname \
                    and not base.attr.startswith("_"):
                self.assigned_any = True
                return [st | {"D"}], []
        return [st], []


class CallerValidates(PathRule):
    """after ``x.deserialize(...)`` every normal path validates x (x.validate() or <container>.add(x...))"""

    def __init__(self, reader_name):
        self.reader_name = reader_name
        self.sites = 0

    def effect(self, eff, st):
        if eff.kind == "call" and isinstance(eff.node.func, ast.Attribute):
            c = eff.node
            recv = c.func.value
            if c.func.attr == self.reader_name and isinstance(recv, ast.Name) and recv.id not in ("self",):
                self.sites += 1
                return [st | {("P", recv.id)}], []
            if c.func.attr == "validate" and isinstance(recv, ast.Name):
                return [st - {("P", recv.id)}], []
            if c.func.attr == "add":
                names = set(a.id for a in c.args if isinstance(a, ast.Name))
                return [frozenset(x for x in st if not (isinstance(x, tuple) and x[0] == "P" and x[1] in names))], []
        return [st], []


def readers(model):
    out = []
    for cls in facts.metadata_classes(model):
        if "deserialize" in cls.methods:
            out.append(FuncRef(cls.module, cls, cls.methods["deserialize"]))
    return out


def r_reader_validates(model, rep):
    n_entry = 0
    for fref in readers(model):
        cls = fref.cls
        n_entry += 1
        has_validators = bool(facts.validator_methods(cls))
        fn = fref.node
        selfname = fn.args.args[0].arg
        rule = ReaderValidates(selfname, set(), model, fref)
        ex = Walker(rule).run(fn, {frozenset()})
        if not rule.assigned_any:
            # only attaches children through add()/child readers: nothing of its own to validate
            rep.ob("R-READER-VALIDATES", "%s.deserialize" % cls.qname, True, trivial=True, site=cls.module.site(fn),
                   facts={"assigns_own_fields": False})
            continue
        if not has_validators:
            rep.ob("R-READER-VALIDATES", "%s.deserialize" % cls.qname, True, trivial=True, site=cls.module.site(fn),
                   facts={"assigns_own_fields": True, "validators": 0})
            continue
        bad = []
        for st in ex.normal:
            if "D" in st:
                bad.append("end of function")
        for st, node in ex.ret:
            if "D" in st:
                bad.append("return at line %s" % node.lineno)
        if not bad:
            rep.ob("R-READER-VALIDATES", "%s.deserialize" % cls.qname, True, site=cls.module.site(fn),
                   facts={"exits": len(ex.normal) + len(ex.ret)})
            continue
        # discharge through the call sites: every caller validates the object it just filled
        sites = 0
        unvalidated = []
        for caller in model.all_functions():
            has = False
            for node in ast.walk(caller.node):
                if isinstance(node, ast.Call) and isinstance(node.func, ast.Attribute) and node.func.attr == "deserialize" \
                        and isinstance(node.func.value, ast.Name):
                    rc = model.receiver_class(caller, node.func.value)
                    if rc is not None and cls in rc.mro():
                        has = True
            if not has:
                continue
            crule = CallerValidates("deserialize")
            cex = Walker(crule).run(caller.node, {frozenset()})
            sites += crule.sites
            for st in list(cex.normal) + [s for s, _ in cex.ret]:
                pend = [x for x in st if isinstance(x, tuple) and x[0] == "P"]
                ltypes = model.local_types(caller)
                for p in pend:
                    if ltypes.get(p[1]) is not None and cls in ltypes[p[1]].mro():
                        unvalidated.append("%s (variable %s)" % (caller.qname, p[1]))
        ok = sites > 0 and not unvalidated
        rep.ob("R-READER-VALIDATES", "%s.deserialize" % cls.qname, ok, site=cls.module.site(fn),
               msg="" if ok else ("fields are assigned from the document but neither the reader (%s) nor every call site "
                                  "validates the object afterwards%s" % (", ".join(sorted(set(bad))),
                                                                        "; unvalidated in: %s" % sorted(set(unvalidated)) if unvalidated else "")),
               facts={"discharged_by_call_sites": sites})
    if n_entry < 24:
        raise AnalysisError("vacuity guard: only %d deserialize entry points found (floor 24)" % n_entry)


def r_loads(model, rep):
    def loads_ok(cx):
        ld = [ev for ev in cx.calls("load", on_self=True) if not T.guard_tests(ev)]
        v = [ev for ev in cx.calls("validate", on_self=True) if not T.guard_tests(ev)]
        return bool(ld and v) and ld[0].seq < v[-1].seq

    def load_ok(cx):
        pf = [ev for ev in cx.calls("parse_file", on_self=True) if not T.guard_tests(ev)]
        ds = [ev for ev in cx.calls("deserialize", on_self=True) if not T.guard_tests(ev)]
        ok = bool(pf and ds) and pf[0].seq < ds[0].seq
        if ok:
            # deserialize receives what parse_file returned
            arg = ds[0].value[2][0] if ds[0].value[2] else None
            ok = arg is not None and T.contains(arg, lambda x: x == pf[0].value)
        return ok
    f = model.own_method("common.MetadataBase", "loads")
    cx = facts.fctx(model, f)
    ok = loads_ok(cx)
    rep.ob("R-LOADS", "common.MetadataBase.loads", ok, site=cx.site(f.node),
           msg="" if ok else "loads() must call self.load() and then self.validate() unconditionally")
    f = model.own_method("common.MetadataBase", "load")
    cx = facts.fctx(model, f)
    ok = load_ok(cx)
    rep.ob("R-LOADS", "common.MetadataBase.load", ok, site=cx.site(f.node),
           msg="" if ok else "load() must pass the result of parse_file() to deserialize()")
    # an override (the base method reached through super() is inlined) is held to the same rule
    for cls in facts.metadata_classes(model):
        for name in ("load", "loads"):
            if name in cls.methods:
                gcx = facts.fctx(model, FuncRef(cls.module, cls, cls.methods[name]))
                ok = load_ok(gcx) if name == "load" else loads_ok(gcx)
                rep.ob("R-LOADS", "%s.%s(override)" % (cls.qname, name), ok, site=cls.module.site(cls.methods[name]),
                       msg="" if ok else "the override of %s() does not parse the file and deserialize it (and validate) as the base method does" % name)


def r_hdr_gate(model, rep, tier):
    """Header.deserialize: version first; type compared under version_tuple >= (1,1); mismatch -> ValueError"""
    for q in ("common.Header", "treeinfo.Header"):
        f = model.own_method(q, "deserialize")
        cx = facts.fctx(model, f)
        ver_stores = [ev for ev in cx.events if ev.kind == "store" and cx.self_attr(ev.target) == "version"]
        raises = [ev for ev in cx.events if ev.kind == "raise"]
        ok, msg = True, ""
        if not ver_stores:
            ok, msg = False, "header version is not read from the document"
        type_raise = None
        for ev in raises:
            for g, pol in ev.guards:
                if g[0] == "cmp" and g[1] in (("!=",), ("==",)) and any(cx.self_attr(x) == "metadata_type" for x in g[2]):
                    other = [x for x in g[2] if cx.self_attr(x) != "metadata_type"]
                    if (g[1] == ("!=",)) == pol and other:
                        type_raise = (ev, other[0])
        if type_raise is None:
            ok, msg = False, "no 'raise' on a metadata type different from the expected one"
        else:
            ev, other = type_raise
            exc = ev.value
            if not (exc[0] == "call" and exc[1] == ("global", "ValueError")):
                ok, msg = False, "type mismatch does not raise ValueError"
            # the compared value comes from the document's "type" key
            if not T.contains(other, lambda x: x == ("const", "type")):
                ok, msg = False, "the value compared with metadata_type is not the document's 'type' field"
            # gate: evaluated over the version grid, must be exactly  v >= (1, 1)
            gate_tests = []
            for g, pol in ev.guards:
                if T.contains(g, lambda x: x[0] == "attr" and x[2] == "version_tuple"):
                    gate_tests.append((g, pol))
            # (evaluated on the condition *terms* of the raise, where named version constants, helper predicates and
            # properties are already folded - not on the source text of an ``if``)
            if len(gate_tests) != 1 or facts.gate_term_value(gate_tests[0][0], (1, 1)) is None:
                ok, msg = False, "the type check is not guarded by exactly one version gate"
            else:
                for v in facts.version_grid(tier):
                    want = v >= (1, 1)
                    got = facts.gate_term_value(gate_tests[0][0], v)
                    got = got if gate_tests[0][1] else (None if got is None else (not got))
                    if got != want:
                        ok, msg = False, "type check gate differs from '>= (1, 1)' at version %s.%s" % v
                        break
            if ver_stores and ver_stores[0].seq > ev.seq:
                ok, msg = False, "version is read after the type check"
            extra = [g for g in T.guard_tests(ev) if g not in gate_tests and not (
                g[0][0] == "cmp" and any(cx.self_attr(x) == "metadata_type" for x in g[0][2]))]
            allowed_extra = [g for g in extra if T.show(cx.norm(g[0])).startswith("parser.has_option('header', 'version')")]
            if len(extra) != len(allowed_extra):
                ok, msg = False, "type check is additionally conditional on %s" % [T.show(g[0]) for g in extra]
        rep.ob("R-HDR-GATE", "%s.deserialize" % q, ok, site=cx.site(f.node), msg=msg)
    # version_tuple validates before splitting
    f = model.own_method("common.Header", "version_tuple")
    cx = facts.fctx(model, f)
    v = [ev for ev in cx.calls("validate", on_self=True) if not T.guard_tests(ev)]
    sp = cx.calls("split_version")
    ok = bool(v and sp) and v[0].seq < sp[0].seq
    rep.ob("R-HDR-GATE", "common.Header.version_tuple", ok, site=cx.site(f.node),
           msg="" if ok else "version_tuple must validate the version string before splitting it")


def r_version_tuple_fresh(model, rep, rule_id="R-HDR-GATE"):
    """header.version_tuple is recomputed from self.version on every access and the version is a plain attribute"""
    cls = model.cls("common.Header")
    f = model.own_method("common.Header", "version_tuple")
    cx = facts.fctx(model, f)
    S = ("param", cx.selfname)
    rets = [ev for ev in cx.events if ev.kind == "return"]
    want = ("call", ("global", "tuple"), (("call", ("global", "split_version"), (("attr", S, "version"),), ()),), ())
    ok = len(rets) == 1 and rets[0].value == want and not rets[0].guards and "version_tuple" in cls.properties
    rep.ob(rule_id, "common.Header.version_tuple:recomputed", ok, site=cx.site(f.node),
           msg="" if ok else "version_tuple must be tuple(split_version(self.version)) computed on every access (a cached tuple goes stale "
                             "when the version changes)")
    stores = [ev for ev in cx.events if ev.kind == "store"]
    rep.ob(rule_id, "common.Header.version_tuple:no-state", not stores, site=cx.site(f.node),
           msg="" if not stores else "version_tuple stores state (%s)" % T.show(stores[0].target))
    ok = "version" not in cls.properties and "version" not in cls.methods
    rep.ob(rule_id, "common.Header.version:plain-attribute", ok, site=cls.module.site(cls.node),
           msg="" if ok else "Header.version is no longer a plain attribute")
    g = model.own_method("common.Header", "set_current_version")
    gcx = facts.fctx(model, g)
    st = [ev for ev in gcx.events if ev.kind == "store"]
    ok = len(st) == 1 and gcx.self_attr(st[0].target) == "version"
    rep.ob(rule_id, "common.Header.set_current_version:sets-version", ok, site=gcx.site(g.node),
           msg="" if ok else "set_current_version must assign self.version (and nothing else)")


def r_skip_implies_empty(model, rep):
    """a section writer that returns before validating may do so only when every validated field of the section is
    empty: otherwise an invalid value in one field is silently dropped and the object is written"""
    n = 0
    for cls in facts.metadata_classes(model):
        lk = cls.lookup("serialize")
        if lk is None or lk[0].qname == "common.MetadataBase":
            continue
        if not facts.validator_methods(cls):
            continue
        defcls, fn = lk
        cx = facts.fctx(model, FuncRef(defcls.module, defcls, fn))
        v = [ev for ev in cx.calls("validate", on_self=True)]
        if not v:
            continue
        early = [ev for ev in cx.events if ev.kind == "return" and ev.seq < v[0].seq]
        if not early:
            continue
        fields = sorted(set(a.field for a in facts.assertions_of(model, cls) if a.field in cls.init_attrs(model) and not a.field.startswith("_")))
        for ev in early:
            n += 1
            empty = set()
            for t2, p2 in facts.flat_atoms(ev.guards):
                a = cx.self_attr(t2)
                if a is not None and not p2:
                    empty.add(a)
            missing = [f_ for f_ in fields if f_ not in empty]
            rep.ob("R-SKIP-IMPLIES-EMPTY", "%s.serialize" % cls.qname, not missing, site=cx.site(ev.lineno),
                   msg="" if not missing else "the writer returns before validate() under a condition that does not imply that field(s) %s "
                                             "are empty: an invalid value there is silently dropped and the object is written" % missing,
                   facts={"fields": fields, "implied_empty": sorted(empty)})
    if n < 3:
        raise AnalysisError("vacuity guard: R-SKIP-IMPLIES-EMPTY found %d early-returning writers (floor 3)" % n)


def r_json_native(model, rep):
    """every type a validator accepts for a field of a JSON document can be serialised by json.dump (otherwise a value
    passes validation and json.dump raises TypeError after the destination was opened)"""
    from .oracle_tables import JSON_NATIVE_TYPES
    n = 0
    for cls in facts.metadata_classes(model):
        if cls.module.name in ("treeinfo", "discinfo"):
            continue
        for a in facts.assertions_of(model, cls):
            if a.kind != "type":
                continue
            n += 1
            bad = sorted(x for x in a.arg if x not in JSON_NATIVE_TYPES)
            rep.ob("R-JSON-NATIVE", "%s.%s" % (cls.qname, a.field), not bad, site="%s:%s" % (a.defcls.module.rel(), a.lineno),
                   msg="" if not bad else "validator accepts type(s) %s for %s.%s, which json.dump cannot serialise: the dump fails with "
                                         "TypeError after the destination file has been opened" % (bad, cls.qname, a.field))
    if n < 30:
        raise AnalysisError("vacuity guard: R-JSON-NATIVE examined %d type assertions" % n)


def r_hdr_re(model, rep):
    """the header version pattern accepts exactly  digits '.' digits"""
    for q in ("common.Header", "treeinfo.Header"):
        cls = model.cls(q)
        pats = [a for a in facts.assertions_of(model, cls) if a.field == "version" and a.kind == "re"]
        if not pats:
            rep.ob("R-HDR-RE", "%s.version" % q, False, msg="no pattern assertion on the header version")
            continue
        ok, msg = True, ""
        ref = r"^\d+\.\d+$"
        allp = [p for a in pats for p in a.arg]
        U = rx.universe(allp + [ref])
        single = [c for c in U if c != 10]
        for p in allp:
            eq, w, n = rx.equivalent(rx.PNFA(p, U), rx.PNFA(ref, U), single)
            if not eq:
                ok, msg = False, "header version pattern %r differs from N.M on %r" % (p, w)
        rep.ob("R-HDR-RE", "%s.version" % q, ok, site="%s:%s" % (pats[0].defcls.module.rel(), pats[0].lineno), msg=msg,
               facts={"patterns": allp})


# ---------------------------------------------------------------------------------------------------------
# C18
# ---------------------------------------------------------------------------------------------------------
DESTRUCTIVE = ("os.unlink", "os.remove", "os.rename", "os.replace", "os.truncate", "shutil.move", "shutil.rmtree", "shutil.copy",
               "shutil.copyfile", "os.rmdir")


def _opens_for_writing_call(c):
    d = dotted(c.func) or ""
    if d.split(".")[-1] in ("open_file_obj", "open"):
        mode = c.args[1] if len(c.args) > 1 else None
        for k in c.keywords:
            if k.arg == "mode":
                mode = k.value
        if isinstance(mode, ast.Constant) and isinstance(mode.value, str) and any(ch in mode.value for ch in "wax+"):
            return True
    return False


def opens_for_writing(with_node):
    for it in with_node.items:
        c = it.context_expr
        if isinstance(c, ast.Call) and _opens_for_writing_call(c):
            return True
    return False


def touch_summary(model):
    """functions that (transitively, through exactly resolved calls) open a file for writing/appending or remove /
    rename / truncate one"""
    direct = set()
    for f in model.all_functions():
        if f.qname == "common.open_file_obj":
            continue        # forwards the caller's mode: judged at the call site
        for node in ast.walk(f.node):
            if isinstance(node, ast.Call):
                if _opens_for_writing_call(node) or (dotted(node.func) or "") in DESTRUCTIVE:
                    direct.add(f)
    s = model.summaries()["callees_exact"]
    touch = set(direct)
    changed = True
    while changed:
        changed = False
        for f, cs in s.items():
            if f not in touch and cs & touch:
                touch.add(f)
                changed = True
    return touch


class DestSafe(PathRule):
    """state flags  'T' the destination has been opened for writing / created / removed on this path
                    'X' a validation error is being handled (inside an except clause reached from a raising call)"""

    def __init__(self, model, fref, touch):
        self.model = model
        self.fref = fref
        self.touch = touch
        self.bad = []
        self.ltypes = model.local_types(fref)

    def enter_with(self, node, st):
        if opens_for_writing(node):
            return st | {"T"}
        return st

    def enter_handler(self, handler, st):
        return st | {"X"}

    def _touches(self, c):
        if _opens_for_writing_call(c) or (dotted(c.func) or "") in DESTRUCTIVE:
            return "%s()" % (dotted(c.func) or "open")
        targets, exact = self.model.resolve_call(self.fref, c, self.ltypes)
        for t in targets:
            if exact and t in self.touch and t.qname != self.fref.qname:
                return "%s()" % t.qname
        return None

    def effect(self, eff, st):
        if eff.kind != "call":
            return [st], []
        c = eff.node
        raising = []
        targets, exact = self.model.resolve_call(self.fref, c, self.ltypes)
        may = None
        for t in targets:
            if t.node.name == "validate":
                may = "validate()"
            elif self.model.may_raise_validation(t):
                may = "%s may raise ValueError/TypeError" % t.qname
        if not may:
            # a repo function handed over as a callback (json.dump(..., default=hook)) runs inside the call -- here or in a callee
            for cb in _callbacks(self.model, self.fref, c):
                if _may_raise_validation_deep(self.model, cb):
                    may = "callback %s may raise ValueError/TypeError" % cb.qname
            if not may and exact:
                for t in targets:
                    if _has_raising_callback(self.model, t):
                        may = "%s hands a validating callback to a library call" % t.qname
        if may:
            if "T" in st:
                self.bad.append((c.lineno, "%s() runs after the destination was opened/created -- %s%s" % (
                    ast.unparse(c.func), may, " (+%d more callees)" % (len(targets) - 1) if len(targets) > 1 else "")))
            raising.append((st, "ValueError"))
        touch = self._touches(c)
        normal = st
        if touch:
            if "X" in st:
                self.bad.append((c.lineno, "%s touches the destination while a validation error is being handled" % touch))
            normal = st | {"T"}
        return [normal], raising


def _may_raise_validation_deep(model, f, _seen=None):
    """may-raise of a callback, following calls resolved by name as well (the receiver of obj.method() inside a generic hook is
    unknown: any repo method of that name may run)"""
    _seen = _seen if _seen is not None else set()
    if f.qname in _seen:
        return False
    _seen.add(f.qname)
    if model.may_raise_validation(f) or f.node.name == "validate":
        return True
    lt = model.local_types(f)
    for n in ast.walk(f.node):
        if isinstance(n, ast.Call):
            targets, exact = model.resolve_call(f, n, lt)
            targets = list(targets)
            # getattr(obj, "<name>") : any repo method of that name may be fetched (and then called)
            if dotted(n.func) == "getattr" and len(n.args) >= 2 and isinstance(n.args[1], ast.Constant) and isinstance(n.args[1].value, str):
                for c in model.classes.values():
                    if n.args[1].value in c.methods:
                        targets.append(FuncRef(c.module, c, c.methods[n.args[1].value]))
            targets.extend(_callbacks(model, f, n))
            for t in targets:
                if _may_raise_validation_deep(model, t, _seen):
                    return True
    return False


def _has_raising_callback(model, f, _seen=None):
    """does ``f`` (or an exactly resolved callee) pass a repo function that may raise a validation error as a callback?"""
    _seen = _seen if _seen is not None else set()
    if f.qname in _seen:
        return False
    _seen.add(f.qname)
    lt = model.local_types(f)
    for n in ast.walk(f.node):
        if isinstance(n, ast.Call):
            for cb in _callbacks(model, f, n):
                if _may_raise_validation_deep(model, cb):
                    return True
            targets, exact = model.resolve_call(f, n, lt)
            if exact:
                for t in targets:
                    if _has_raising_callback(model, t, _seen):
                        return True
    return False


def _callbacks(model, fref, c):
    """repo functions passed as arguments of a call (they run inside it)"""
    out = []
    for a in list(c.args) + [k.value for k in c.keywords]:
        if isinstance(a, (ast.Name, ast.Attribute)):
            d = dotted(a)
            r = model.resolve_name(fref.module, d) if d else None
            if r and r[0] == "func":
                out.append(r[1])
            elif isinstance(a, ast.Attribute) and isinstance(a.value, ast.Name) and fref.cls is not None \
                    and fref.node.args.args and a.value.id == fref.node.args.args[0].arg:
                lk = fref.cls.lookup(a.attr)
                if lk and a.attr not in lk[0].properties:
                    out.append(FuncRef(lk[0].module, lk[0], lk[1]))
    return out


def r_dump_order(model, rep):
    """nothing that can raise a validation error runs after the destination was opened for writing / created, and
    nothing removes or re-opens the destination while a validation error is handled"""
    touch = touch_summary(model)
    n = 0
    for f in model.all_functions():
        withs = [w for w in ast.walk(f.node) if isinstance(w, ast.With) and opens_for_writing(w)]
        calls_touch = any(isinstance(nd, ast.Call) and (_opens_for_writing_call(nd) or (dotted(nd.func) or "") in DESTRUCTIVE)
                          for nd in ast.walk(f.node))
        calls_dump = f in touch
        if not (withs or calls_touch or calls_dump):
            continue
        if f.qname in ("common.open_file_obj",):
            continue
        n += 1
        rule = DestSafe(model, f, touch)
        Walker(rule).run(f.node, {frozenset()})
        ok = not rule.bad
        rep.ob("R-DUMP-ORDER", f.qname, ok, site=f.module.site(withs[0] if withs else f.node),
               msg="" if ok else "; ".join("line %s: %s" % b for b in sorted(set(rule.bad))[:4]),
               facts={"with_blocks_opening_for_write": len(withs)})
    if n < 2:
        raise AnalysisError("vacuity guard: %d functions touch a destination (floor 2)" % n)
    # a destination opened for writing outside a with-statement in a function that may raise afterwards is covered by
    # the same rule (the open call itself sets 'T')


def _install_validate_summary(model):
    """MetadataBase.validate dispatches dynamically to the _validate* methods; for the may-raise summary it
    raises what any validator raises"""
    s = model.summaries()
    v = model.own_method("common.MetadataBase", "validate")
    s["may_raise"][v] |= {"ValueError", "TypeError"}
    # propagate once more
    changed = True
    while changed:
        changed = False
        for f, cs in s["callees"].items():
            for c in cs:
                if c in s["may_raise"] and not s["may_raise"][c] <= s["may_raise"][f]:
                    s["may_raise"][f] |= s["may_raise"][c]
                    changed = True


# ---------------------------------------------------------------------------------------------------------
@register("C06")
def check_c06(model, rep, tier):
    rep.explanation = (
        "Static analysis of productmd's validation discipline on the writing side. Decided: (1) every section writer "
        "that emits anything calls self.validate() on every emitting path (path walker over each serialize()); "
        "(2) every nested object and every container element is reached by its owner's writer, unfiltered; "
        "(3) validate() runs every _validate* method; dump() validates and serialises before writing; "
        "(4) per field, the assertions executed by validate() are at least as strong as the documented rule "
        "(obligation table transcribed from doc/*.rst and the property statement; regex strength by language "
        "inclusion on automata); (5) no validator-shaped method is dead. Not decided: the converse (every valid "
        "object is written) except that enumerations contain every documented value.")
    rep.not_decided = ["valid object => no exception (value level)", "values outside what the field validators test"]
    rep.assumptions = ["builtin and stdlib calls do not raise ValueError/TypeError unless listed",
                       "validate() is only reached through MetadataBase.validate (no override: checked)"]
    _install_validate_summary(model)
    r_writer_validates(model, rep)
    r_nested_reach(model, rep)
    r_validate_all(model, rep)
    r_dump_validates(model, rep)
    r_val_cover(model, rep)
    r_val_strength(model, rep, tier)
    # the uid / parent-arch alignment refusals compare with the parent: they mean something only if add() sets the parent
    # pointer of every real variant (of both formats) before validating it - the obligation of C11, held here as well
    from ..core import Report as _Report
    from .forest import r_forest_validators
    tmp_ = _Report("C11", tier)
    r_forest_validators(model, tmp_)
    for o_ in tmp_.obligations:
        if o_.construct == "VariantBase.add:parent-set-before-validate":
            rep.ob("R-VAL-STRENGTH", o_.construct, o_.ok, site=o_.site, msg=o_.msg)
    r_table_shape(model, rep)
    r_label_lang(model, rep)
    r_assert_helpers(model, rep)
    r_skip_implies_empty(model, rep)
    r_val_dead(model, rep)
    # converse, enumeration part only: every id the library itself creates passes the id validator
    from .regexes import r_cid_validator, compose_suffix_ladder
    r_cid_validator(model, rep, compose_suffix_ladder(model)[0])
    rep.count("classes", len(facts.metadata_classes(model)))
    rep.count("validator_methods", sum(len(facts.validator_methods(c)) for c in facts.metadata_classes(model)))


@register("C07")
def check_c07(model, rep, tier):
    from .schema import r_required
    rep.explanation = (
        "Static analysis of the loading side. Decided: every reader that assigns fields of its object from the "
        "document validates afterwards on every normal path, or every call site does (path walker); loads() "
        "validates after load(); both Header readers read the version first, compare the document's type under "
        "exactly the gate version >= 1.1 (evaluated on a version grid) and raise ValueError on mismatch; the header "
        "version pattern is language-equal to N.M; mandatory keys are read without a default, or with a default the "
        "field validator rejects. Shares R-VAL-STRENGTH/R-VAL-DEAD with C06 (what validate() checks). Not decided: "
        "arbitrary corruptions at value level.")
    rep.not_decided = ["arbitrary corrupted documents (value level)"]
    _install_validate_summary(model)
    r_reader_validates(model, rep)
    r_loads(model, rep)
    r_hdr_gate(model, rep, tier)
    r_hdr_re(model, rep)
    r_validate_all(model, rep, strict=False)
    r_val_strength(model, rep, tier)
    r_table_shape(model, rep)
    r_label_lang(model, rep)
    r_assert_helpers(model, rep)
    r_val_dead(model, rep)
    r_required(model, rep)
    # the header is read first by every top-level reader: the gates and the type check of the sections depend on it
    from .schema import composite_children, current_version
    for q in ("composeinfo.ComposeInfo", "images.Images", "rpms.Rpms", "modules.Modules", "extra_files.ExtraFiles", "treeinfo.TreeInfo"):
        rcx, rch = composite_children(model, model.own_method(q, "deserialize"), "deserialize", version=current_version(model))
        order = [a for a, g, ev in rch]
        ok = bool(order) and order[0] == "header"
        rep.ob("R-READER-ORDER", "%s.deserialize" % q, ok, site=rcx.site(rcx.node),
               msg="" if ok else "the header must be read (version, type check) before any other section: %s" % order)
    r_version_tuple_fresh(model, rep)
    # "Images.add applied to every loaded image (arch and identity checks)"
    from .sources import r_add_scan, r_load_via_add
    r_add_scan(model, rep, tier)
    r_load_via_add(model, rep)
    from .roundtrip import r_discinfo_lines
    r_discinfo_lines(model, rep)
    # a section that is never read is never validated: the composite readers visit the children the writers write, under the
    # same conditions (a layered document's base_product skipped on load lets any corruption inside it through)
    from .schema import r_composite
    r_composite(model, rep, "composeinfo.ComposeInfo", ["header", "compose", "release", "base_product", "variants"])


@register("C18")
def check_c18(model, rep, tier):
    rep.explanation = (
        "Ordering rule decided on the call graph: in every function that opens a caller-supplied destination for "
        "writing (open/open_file_obj with a writing mode), no call made while the destination is open can reach a "
        "'raise ValueError/TypeError' or validate() (transitive may-raise summary over resolved callees, including "
        "dynamic dispatch of validate() to every _validate* method). Hence serialisation -- the only place nested "
        "validators run -- completes before the file is truncated. Not decided: I/O errors while writing.")
    rep.not_decided = ["I/O failures during the write itself"]
    rep.assumptions = ["json.dump / ConfigParser.write / file.write raise no ValueError/TypeError for data that "
                       "passed serialisation"]
    _install_validate_summary(model)
    r_dump_order(model, rep)
    r_dump_validates(model, rep)
    r_json_native(model, rep)
    # R-JSON-NATIVE reads the types the validators *ask for*; it is the helpers that decide what they accept (an _assert_type
    # that lets bytes pass for str makes json.dump fail after the destination was opened)
    # the assumption "ConfigParser.write raises no ValueError/TypeError for data that passed serialisation" holds because
    # ConfigParser.set() checks every value when the section writer stores it: the parser class must leave set() and write() alone
    pc = model.cls("common.SortedConfigParser")
    moved = [n for n in ("set", "write", "_write_section", "_validate_value_types") if n in pc.methods]
    rep.ob("R-DUMP-ORDER", "SortedConfigParser:value-checks-at-set-time", not moved, site=pc.module.site(pc.node),
           msg="" if not moved else "SortedConfigParser overrides %s: the value checks section writers rely on at parser.set() time may "
                                    "now happen while the destination is open" % moved)
    from ..core import Report
    sub = Report("C18", "quick")
    r_assert_helpers(model, sub)
    for o in sub.obligations:
        if o.construct.endswith("_assert_type") or "_assert_type(" in o.construct:
            rep.ob(o.rule, o.construct, o.ok, site=o.site, msg=o.msg, facts=o.facts)
