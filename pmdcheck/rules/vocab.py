"""
R-COND-VOCAB: the atomic conditions that decide what an anchored function does, compared with those confirmed on the pinned tree
(frozen in cond_vocab.json, regenerated only by tools/freeze_cond_vocab.py after the functions were re-read by a person).

Every other rule asks a specific question about a function ("is the option read when it exists?", "does the refusal depend on the
architecture table?").  A condition *widened or narrowed by an unrelated test* - ``if self.instimage and self.mainimage:`` around
the write of instimage, ``if hasattr(self, "uid") and variant:`` around the parent link - answers all those questions the same way
and still changes for which inputs the function writes, reads or refuses.  The structural fact checked here: the set of atomic
tests (comparisons, truth tests of attributes / parameters / lookups, membership and has_option probes, version gates) occurring in
the conditions of a function - the guards of its statements, the tests of conditional expressions in the values it stores, the
filters of its comprehensions, helpers the rules do not know inlined - is the set confirmed on the pinned tree.  Polarity, nesting,
order, and/or structure, guard clauses versus nested ifs, local names and helper extraction do not matter (atoms are canonical
def-use terms); a new atom means a new input distinction, a lost one means a distinction no longer made.

This decides a necessary condition only: the same atoms combined differently (``and`` for ``or``, a negation) are left to the
specific rules.
"""
from __future__ import annotations

import json
import os
import re

from .. import facts
from .. import terms as T
from ..core import AnalysisError

HERE = os.path.dirname(os.path.abspath(__file__))
FROZEN = os.path.join(HERE, "cond_vocab.json")

# which functions belong to which property (regular expression on the pinned qualified name)
SCOPE = [
    (r"composeinfo\.(ComposeInfo|Compose|BaseProduct|Release|Variants|Variant|VariantPaths)\.(serialize|deserialize|deserialize_1_0)$", ["C01"]),
    (r"images\.(Images|Image)\.(serialize|deserialize|_add_1_1)$", ["C02"]),
    (r"(rpms\.Rpms|modules\.Modules|extra_files\.ExtraFiles)\.(serialize|deserialize|deserialize_1_0)$", ["C03"]),
    (r"(treeinfo\.\w+|discinfo\.DiscInfo)\.(serialize|deserialize|deserialize_1_0)$", ["C04"]),
    (r"\w+\.\w+\.deserialize_0_\d$", ["C05"]),
    (r"(composeinfo\.(Variants|Variant|Compose|Release)|images\.Images|rpms\.Rpms|treeinfo\.(Release|Tree|Variants|Variant|VariantPaths|Media))"
     r"\.deserialize$", ["C05"]),
    (r"\w+\.\w+\._validate_\w+$", ["C06", "C07"]),
    (r"common\.MetadataBase\.(validate|_assert_\w+)$", ["C06", "C07"]),
    (r"images\.identify_image$", ["C09"]),
    (r"images\.Images\.add$", ["C09", "C10"]),
    (r"rpms\.Rpms\.add$", ["C10", "C12"]),
    (r"composeinfo\.VariantBase\.(add|get_variants|__getitem__|_get_all_parents)$", ["C11"]),
    (r"composeinfo\.Variant\.add$", ["C11"]),
    (r"(modules\.Modules\.(add|_check_uid|parse_uid)|rpms\.Rpms\._check_nevra|extra_files\.ExtraFiles\.(add|dump_for_tree)|extra_files\._relative_to)$",
     ["C12"]),
    (r"common\.parse_nvra$", ["C13"]),
    (r"common\.(create_release_id|parse_release_id|_parse_release_id_part|is_valid_release_\w+)$", ["C14"]),
    (r"composeinfo\.(ComposeInfo\.create_compose_id|get_date_type_respin|Compose\.type_suffix|BaseProduct\.type_suffix)$", ["C15"]),
    (r"(treeinfo\.Checksums\.(add|serialize|deserialize)|treeinfo\.compute_checksum|images\.Image\.add_checksum)$", ["C16"]),
    (r"treeinfo\.General\.serialize$", ["C17"]),
    (r"(common\.MetadataBase|treeinfo\.TreeInfo|discinfo\.DiscInfo)\.(dump|dumps|load|loads)$", ["C18"]),
    (r"compose\.Compose\.\w+$", ["C20"]),
]


def props_of(qname):
    out = []
    for pat, props in SCOPE:
        if re.match(pat, qname):
            out.extend(p for p in props if p not in out)
    return out


def _plain(t):
    def fn(x):
        if x[0] == "local" and len(x) > 3 and isinstance(x[3], tuple) and x[3]:
            return T.subst(x[3], fn)
        if x[0] == "local":
            return ("local", "*", 0)
        if x[0] == "elem" and x[2] != "*":
            return ("elem", T.subst(x[1], fn), "*")
        if x[0] in ("carried", "undef"):
            return (x[0], "*")
        return None
    return T.degate(T.subst(t, fn))


def _leaves(t, out):
    """the atomic tests of a condition"""
    t, _ = T.strip_not(t, True)
    k = t[0]
    if k == "boolop":
        for x in t[2]:
            _leaves(x, out)
        return
    if k in ("ifexp", "gate"):
        _leaves(t[1], out)
        for b in (t[2], t[3]):
            if b[0] != "const":
                _leaves(b, out)
        return
    if k == "const":
        return
    if k == "call" and t[1] == ("global", "bool") and len(t[2]) == 1:
        return _leaves(t[2][0], out)
    if k == "phi":
        for x in t[1]:
            _leaves(x, out)
        return
    c, _ = facts.canon_guard((_plain(t), True))
    c, _ = T.strip_not(c, True)
    if c[0] in ("boolop", "ifexp", "gate"):
        return _leaves(c, out) if c != t else out.add(T.show(c)[:300])
    if c[0] == "const":
        return
    if T.contains(c, lambda x: x[0] in ("phi", "undef", "carried", "unknown")):
        return          # a test on a value merged from several paths: its spelling depends on how the paths are laid out
    out.add(T.show(c)[:300])


def _inner_tests(t, out):
    """tests of conditional expressions and filters of comprehensions inside a value"""
    if t is None:
        return
    for x in T.walk(t):
        if x[0] in ("ifexp", "gate"):
            _leaves(x[1], out)
        elif x[0] == "comp":
            for g in x[3]:
                for c in g[2]:
                    _leaves(c, out)


def vocab_of(model, fref):
    cx = facts.fctx(model, fref)
    out = set()
    for ev in cx.events:
        for g in ev.guards:
            if g[0][0] == "exc":
                out.add("<handler of %s>" % g[0][1])
                continue
            _leaves(g[0], out)
            _inner_tests(g[0], out)
        for fld in ("value", "raw", "target"):
            _inner_tests(getattr(ev, fld, None), out)
        for l in ev.loops:
            _inner_tests(l[1], out)
    return sorted(out)


def functions(model):
    """(pinned qualified name, FuncRef or None) for every function in scope"""
    from ..known_funcs import KNOWN_FUNCS
    out = []
    for q in sorted(KNOWN_FUNCS):
        if not props_of(q):
            continue
        parts = q.split(".")
        try:
            f = model.own_method(".".join(parts[:2]), parts[2]) if len(parts) == 3 else model.function(parts[0], parts[1])
        except Exception:
            f = None
        out.append((q, f))
    return out


def current(model):
    out = {}
    for q, f in functions(model):
        if f is not None:
            out[q] = vocab_of(model, f)
    return out


def r_cond_vocab(model, rep, pid):
    if not os.path.exists(FROZEN):
        raise AnalysisError("cond_vocab.json is missing")
    with open(FROZEN) as fh:
        frozen = json.load(fh)
    n = 0
    for q, f in functions(model):
        if pid not in props_of(q) or q not in frozen:
            continue
        if f is None:
            continue        # the function is gone: the rules anchored in it report that
        n += 1
        want = set(frozen[q])
        got = set(vocab_of(model, f))
        new, lost = sorted(got - want), sorted(want - got)
        ok = not new and not lost
        msg = ""
        if not ok:
            msg = "the conditions deciding what this function does differ from the confirmed ones"
            if new:
                msg += "; new test(s): " + " | ".join(x[:120] for x in new[:3])
            if lost:
                msg += "; no longer tested: " + " | ".join(x[:120] for x in lost[:3])
        rep.ob("R-COND-VOCAB", q, ok, site="%s:%s" % (f.module.rel(), f.node.lineno), msg=msg, facts={"atoms": len(got)})
    return n
