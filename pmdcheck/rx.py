# -*- coding: utf-8 -*-
"""
E4 -- regular-expression automata.

``re._parser.parse(pattern)`` (the syntax tree the interpreter itself builds) is translated into a
*prioritised Thompson NFA*: character states carry a character set, epsilon states carry an ordered
successor list (greedy loop = [body, exit], lazy = [exit, body], alternation in source order), epsilon
edges carry group open/close tags.  Epsilon closures become ordered *macro transitions*
(rank, tags, target).  On this structure:

  ambiguity(p)         exponential (EDA) / polynomial degree (IDA) of ambiguity, on the line graph of
                       macro transitions (so that two epsilon paths between the same states stay distinct)
  equivalent/included  language comparison under ``.match`` semantics by on-the-fly subset construction
  parse_check(R, L)    for all words of the unambiguous tagged reference L: the first accepting path of R in
                       backtracking order assigns every named group the same span as L

Finite-automaton constructions over a syntax tree -- no execution of the library, no constraint solving.
"""
from __future__ import annotations

import re._constants as sc
import re._parser as sp
import sys
from collections import defaultdict, deque

from .core import AnalysisError

sys.setrecursionlimit(100000)


class Unsupported(AnalysisError):
    pass


# ---------- representative alphabet -------------------------------------------------------------------
BASE_POINTS = [ord(c) for c in "\n\r\t\x0b a0Z_9@-.:/!~^+"] + [0x663, 0xe9, 0x4e2d, 0x2028]


def _collect_points(ast, pts):
    for op, av in ast:
        if op is sc.LITERAL or op is sc.NOT_LITERAL:
            pts.update([av - 1, av, av + 1])
        elif op is sc.IN:
            for o, a in av:
                if o is sc.LITERAL:
                    pts.update([a - 1, a, a + 1])
                elif o is sc.RANGE:
                    pts.update([a[0] - 1, a[0], a[1], a[1] + 1])
                elif o is sc.CATEGORY or o is sc.NEGATE:
                    pass
                else:
                    raise Unsupported("regex: unsupported set item %s" % (o,))
        elif op is sc.BRANCH:
            for alt in av[1]:
                _collect_points(alt, pts)
        elif op is sc.SUBPATTERN:
            if av[1] or av[2]:
                raise Unsupported("regex: inline flags are not supported")
            _collect_points(av[3], pts)
        elif op in (sc.MAX_REPEAT, sc.MIN_REPEAT):
            _collect_points(av[2], pts)
        elif op in (sc.ANY, sc.AT):
            pass
        else:
            raise Unsupported("regex: unsupported construct %s" % (op,))


def parse(pattern):
    try:
        p = sp.parse(pattern)
    except Exception as e:
        raise Unsupported("regex does not parse: %r: %s" % (pattern, e))
    if p.state.flags & ~(sc.SRE_FLAG_UNICODE | sc.SRE_FLAG_DOTALL):
        raise Unsupported("regex flags are not supported: %r" % pattern)
    return p


def universe(patterns, extra=""):
    pts = set(BASE_POINTS) | set(ord(c) for c in extra)
    for pat in patterns:
        _collect_points(parse(pat), pts)
    return sorted(p for p in pts if 0 <= p <= 0x10ffff)


def _cat_match(cat, ch):
    c = chr(ch)
    if cat is sc.CATEGORY_DIGIT:
        return c.isdecimal()
    if cat is sc.CATEGORY_NOT_DIGIT:
        return not c.isdecimal()
    if cat is sc.CATEGORY_SPACE:
        return c.isspace()
    if cat is sc.CATEGORY_NOT_SPACE:
        return not c.isspace()
    if cat is sc.CATEGORY_WORD:
        return c.isalnum() or c == "_"
    if cat is sc.CATEGORY_NOT_WORD:
        return not (c.isalnum() or c == "_")
    raise Unsupported("regex: unsupported category %s" % (cat,))


def charset(op, av, U, dotall=False):
    if op is sc.LITERAL:
        return frozenset(p for p in U if p == av)
    if op is sc.NOT_LITERAL:
        return frozenset(p for p in U if p != av)
    if op is sc.ANY:
        return frozenset(p for p in U if dotall or p != 10)
    if op is sc.IN:
        neg = False
        items = av
        if items and items[0][0] is sc.NEGATE:
            neg = True
            items = items[1:]

        def m(p):
            for o, a in items:
                if o is sc.LITERAL and p == a:
                    return True
                if o is sc.RANGE and a[0] <= p <= a[1]:
                    return True
                if o is sc.CATEGORY and _cat_match(a, p):
                    return True
            return False
        return frozenset(p for p in U if m(p) != neg)
    raise Unsupported("regex: unsupported char op %s" % (op,))


# ---------- prioritised Thompson NFA ---------------------------------------------------------------------
class PNFA(object):
    def __init__(self, pattern, U):
        self.U = U
        self.pattern = pattern
        p = parse(pattern)
        self.dotall = bool(p.state.flags & sc.SRE_FLAG_DOTALL)       # re.compile(p, re.DOTALL) is carried as the global flag '(?s)'
        self.groupnames = dict((v, k) for k, v in p.state.groupdict.items())     # gid -> name
        self.ngroups = p.state.groups - 1
        self.kind = {}
        self.n = 0
        self.nullable_loop = None
        self.final = self._new(("final",))
        items = list(p)
        self.anchored_start = bool(items) and items[0] == (sc.AT, sc.AT_BEGINNING)
        self.start = self._seq(items, self.final)
        self._build_macro()
        # end-anchored iff no acceptance is possible before the end of the input
        self.anchored_end = all(t != "ACC" for lst in self.macro.values() for (tags, t) in lst)

    def _new(self, k):
        self.kind[self.n] = k
        self.n += 1
        return self.n - 1

    def _seq(self, items, cont):
        for it in reversed(items):
            cont = self._node(it, cont)
        return cont

    def _node(self, it, cont):
        op, av = it
        if op in (sc.LITERAL, sc.NOT_LITERAL, sc.ANY, sc.IN):
            return self._new(("char", charset(op, av, self.U, self.dotall), cont))
        if op is sc.SUBPATTERN:
            gid, add_flags, del_flags, body = av
            if add_flags or del_flags:
                raise Unsupported("regex: inline flags")
            if gid is None:
                return self._seq(list(body), cont)
            close = self._new(("eps", [(cont, ("close", gid))]))
            inner = self._seq(list(body), close)
            return self._new(("eps", [(inner, ("open", gid))]))
        if op is sc.BRANCH:
            alts = [self._seq(list(a), cont) for a in av[1]]
            return self._new(("eps", [(a, None) for a in alts]))
        if op in (sc.MAX_REPEAT, sc.MIN_REPEAT):
            lo, hi, body = av
            greedy = op is sc.MAX_REPEAT
            body = list(body)
            if hi is sc.MAXREPEAT:
                loop = self._new(("eps", []))
                b = self._seq(body, loop)
                self.kind[loop] = ("eps", [(b, None), (cont, None)] if greedy else [(cont, None), (b, None)])
                tail = loop
            else:
                if hi > 64:
                    raise Unsupported("regex: counted repeat too large to unroll (%d)" % hi)
                tail = cont
                for _ in range(hi - lo):
                    b = self._seq(body, tail)
                    tail = self._new(("eps", [(b, None), (cont, None)] if greedy else [(cont, None), (b, None)]))
            if lo > 64:
                raise Unsupported("regex: counted repeat too large to unroll (%d)" % lo)
            for _ in range(lo):
                tail = self._seq(body, tail)
            return tail
        if op is sc.AT:
            if av in (sc.AT_BEGINNING, sc.AT_BEGINNING_STRING):
                return self._new(("eps", [(cont, ("at", "begin"))]))
            if av in (sc.AT_END, sc.AT_END_STRING):
                return self._new(("eps", [(cont, ("at", "end"))]))
            raise Unsupported("regex: unsupported anchor %r" % (av,))
        raise Unsupported("regex: unsupported construct %s" % (op,))

    def _build_macro(self):
        """macro[src] = ordered list of (tags, target); src in {'init'} U char states;
        target in char states U {'ACC'}; list order = backtracking priority"""
        self.macro = {}

        def closure(s, is_init):
            out = []

            def dfs(q, tags, onpath, need_end):
                k = self.kind[q]
                if k[0] == "char":
                    if not need_end:            # nothing can be consumed after '$'
                        out.append((tuple(tags), q))
                    return
                if k[0] == "final":
                    out.append((tuple(tags), "ACC$" if need_end else "ACC"))
                    return
                if q in onpath:
                    # epsilon cycle: a loop whose body can match the empty string
                    self.nullable_loop = q
                    return
                for tgt, tag in k[1]:
                    ne = need_end
                    t2 = tags
                    if tag is not None and tag[0] == "at":
                        if tag[1] == "begin":
                            if not is_init:
                                continue        # '^' after something was consumed never holds (no MULTILINE)
                        else:
                            ne = True
                    elif tag:
                        t2 = tags + [tag]
                    dfs(tgt, t2, onpath | {q}, ne)
            dfs(s, [], frozenset(), False)
            return out
        self.macro["init"] = closure(self.start, True)
        for q, k in list(self.kind.items()):
            if k[0] == "char":
                self.macro[q] = closure(k[2], False)

    def cs(self, q):
        return self.kind[q][1]


def sccs(nodes, succ):
    """iterative Tarjan"""
    index = {}
    low = {}
    onstack = set()
    stack = []
    out = []
    counter = [0]
    for root in nodes:
        if root in index:
            continue
        work = [(root, iter(succ(root)))]
        index[root] = low[root] = counter[0]
        counter[0] += 1
        stack.append(root)
        onstack.add(root)
        while work:
            v, it = work[-1]
            advanced = False
            for w in it:
                if w not in index:
                    index[w] = low[w] = counter[0]
                    counter[0] += 1
                    stack.append(w)
                    onstack.add(w)
                    work.append((w, iter(succ(w))))
                    advanced = True
                    break
                elif w in onstack:
                    low[v] = min(low[v], index[w])
            if advanced:
                continue
            work.pop()
            if work:
                u = work[-1][0]
                low[u] = min(low[u], low[v])
            if low[v] == index[v]:
                comp = []
                while True:
                    w = stack.pop()
                    onstack.discard(w)
                    comp.append(w)
                    if w == v:
                        break
                out.append(comp)
    return out


# ---------- ambiguity on the line graph of macro transitions ---------------------------------------------
def _line_graph(p):
    edges = [(s, i) for s, lst in p.macro.items() for i, (tags, t) in enumerate(lst) if t not in ("ACC", "ACC$")]
    tgt = dict(((s, i), p.macro[s][i][1]) for (s, i) in edges)
    out = {}
    for e in edges:
        out[e] = [(tgt[e], j) for j, (tags, t) in enumerate(p.macro[tgt[e]]) if t not in ("ACC", "ACC$")]
    lab = dict((e, p.cs(tgt[e])) for e in edges)
    init = [e for e in edges if e[0] == "init"]
    reach = set(init)
    dq = deque(init)
    while dq:
        e = dq.popleft()
        for f in out[e]:
            if f not in reach:
                reach.add(f)
                dq.append(f)
    canacc = set(e for e in edges if any(t in ("ACC", "ACC$") for tags, t in p.macro[tgt[e]]))
    pred = defaultdict(list)
    for e in edges:
        for f in out[e]:
            pred[f].append(e)
    co = set(canacc)
    dq = deque(co)
    while dq:
        e = dq.popleft()
        for f in pred[e]:
            if f not in co:
                co.add(f)
                dq.append(f)
    useful = [e for e in edges if e in reach and e in co and lab[e]]
    return edges, out, lab, useful, init


def _word_to(out, lab, us, init, goal):
    """shortest word leading from an initial edge to ``goal`` in the line graph"""
    dq = deque()
    seen = set()
    for e in init:
        if e in us:
            dq.append((e, chr(min(lab[e]))))
            seen.add(e)
    while dq:
        e, w = dq.popleft()
        if e == goal:
            return w
        for f in out[e]:
            if f in us and f not in seen:
                seen.add(f)
                dq.append((f, w + chr(min(lab[f]))))
    return ""


def ambiguity(p, max_triples=3_000_000):
    """{'eda': None | {...witness}, 'degree': int, 'nullable_loop': bool, 'edges': n, 'pairs': n}"""
    edges, out, lab, useful, init = _line_graph(p)
    us = set(useful)
    res = {"edges": len(useful), "nullable_loop": p.nullable_loop is not None, "eda": None, "degree": 0}

    def succ2(pq):
        a, b = pq
        r = []
        for x in out[a]:
            if x not in us:
                continue
            for y in out[b]:
                if y in us and lab[x] & lab[y]:
                    r.append((x, y))
        return r
    nodes = [(a, b) for a in useful for b in useful if lab[a] & lab[b]]
    res["pairs"] = len(nodes)
    for comp in sccs(nodes, succ2):
        if len(comp) == 1 and comp[0] not in set(succ2(comp[0])):
            continue
        diag = [v for v in comp if v[0] == v[1]]
        off = [v for v in comp if v[0] != v[1]]
        if diag and off:
            cs = set(comp)
            d = diag[0]

            # pump word: (d,d) ->* off ->* (d,d) inside the SCC
            def path(src, dst):
                dq = deque([(src, "")])
                seen = {src}
                while dq:
                    v, w = dq.popleft()
                    for nx in succ2(v):
                        if nx not in cs:
                            continue
                        w2 = w + chr(min(lab[nx[0]] & lab[nx[1]]))
                        if nx == dst:
                            return w2
                        if nx not in seen:
                            seen.add(nx)
                            dq.append((nx, w2))
                return ""
            pump = path(d, off[0]) + path(off[0], d)
            res["eda"] = {"prefix": _word_to(out, lab, us, init, d[0]), "pump": pump,
                          "pivot": "transition #%s of state %s" % (d[0][1], d[0][0])}
            return res
    # polynomial degree (IDA): e ~> f  iff  (e,e,f) reaches (e,f,f) in the triple product
    def succ3(t):
        a, b, c = t
        for x in out[a]:
            if x not in us:
                continue
            for y in out[b]:
                if y not in us:
                    continue
                l = lab[x] & lab[y]
                if not l:
                    continue
                for z in out[c]:
                    if z in us and l & lab[z]:
                        yield (x, y, z)
    rel = defaultdict(set)
    explored = 0
    for a in useful:
        for b in useful:
            if a == b:
                continue
            start, goal = (a, a, b), (a, b, b)
            seen = {start}
            dq = deque([start])
            ok = False
            while dq and not ok:
                v = dq.popleft()
                for w in succ3(v):
                    if w == goal:
                        ok = True
                        break
                    if w not in seen:
                        seen.add(w)
                        dq.append(w)
            explored += len(seen)
            if explored > max_triples:
                raise Unsupported("regex ambiguity: triple product too large for %r" % p.pattern)
            if ok:
                rel[a].add(b)
    memo = {}

    def depth(a, stack=()):
        if a in memo:
            return memo[a]
        if a in stack:
            return 0
        d = max([1 + depth(b, stack + (a,)) for b in rel[a]] + [0])
        memo[a] = d
        return d
    res["degree"] = max([depth(a) for a in useful] + [0])
    res["triples"] = explored
    return res


# ---------- language comparison under .match semantics ------------------------------------------------------
def _dfa(p):
    def step(S, ch):
        return frozenset(t for s in S for (tags, t) in p.macro[s] if t not in ("ACC", "ACC$") and ch in p.cs(t))

    def acc_end(S):
        """accepts if the input ends here"""
        return any(t in ("ACC", "ACC$") for s in S for (tags, t) in p.macro[s])

    def acc_any(S):
        """accepts whatever follows (unanchored acceptance under .match)"""
        return any(t == "ACC" for s in S for (tags, t) in p.macro[s])
    return step, acc_end, acc_any


def compare(p1, p2, alphabet, mode="equiv", limit=500000):
    """mode 'equiv': L(p1) == L(p2); mode 'incl': L(p1) subset of L(p2).  -> (ok, witness_word, explored)"""
    s1, e1, a1 = _dfa(p1)
    s2, e2, a2 = _dfa(p2)

    def norm(S, acc_any):
        if S != "TRUE" and acc_any(S):
            return "TRUE"       # unanchored end under .match: once accepted, accepted whatever follows
        return S
    st = (norm(frozenset(["init"]), a1), norm(frozenset(["init"]), a2))
    seen = {st}
    dq = deque([(st, "")])
    while dq:
        (A, B), w = dq.popleft()
        accA = A == "TRUE" or e1(A)
        accB = B == "TRUE" or e2(B)
        if mode == "equiv" and accA != accB:
            return False, w, len(seen)
        if mode == "incl" and accA and not accB:
            return False, w, len(seen)
        for ch in alphabet:
            A2 = "TRUE" if A == "TRUE" else norm(s1(A, ch), a1)
            B2 = "TRUE" if B == "TRUE" else norm(s2(B, ch), a2)
            if mode == "incl" and A2 != "TRUE" and not A2:
                continue
            if (A2, B2) not in seen:
                seen.add((A2, B2))
                if len(seen) > limit:
                    raise Unsupported("language comparison: state limit")
                dq.append(((A2, B2), w + chr(ch)))
    return True, None, len(seen)


def equivalent(p1, p2, alphabet):
    return compare(p1, p2, alphabet, "equiv")


def included(p1, p2, alphabet):
    return compare(p1, p2, alphabet, "incl")


def accepts(p, word):
    """membership of a concrete word under .match semantics (used for table-membership obligations)"""
    step, acc_end, acc_any = _dfa(p)
    S = frozenset(["init"])
    if acc_any(S):
        return True
    for c in word:
        ch = ord(c)
        if ch not in p.U:
            raise Unsupported("accepts(): character %r outside the representative alphabet" % c)
        S = step(S, ch)
        if not S:
            return False
        if acc_any(S):
            return True
    return acc_end(S)


# ---------- prioritised parse correctness -------------------------------------------------------------------
def _named(p, tags):
    return frozenset((k, p.groupnames[g]) for (k, g) in tags if g in p.groupnames)


class _AnchoredView(object):
    """view of an end-anchored PNFA in which the anchored accept is spelled 'ACC' (parse_check's vocabulary)"""

    def __init__(self, p):
        self.p = p
        self.groupnames = p.groupnames
        self.anchored_end = p.anchored_end
        self.macro = dict((s, [(tags, "ACC" if t == "ACC$" else t) for (tags, t) in lst]) for s, lst in p.macro.items())

    def cs(self, q):
        return self.p.cs(q)


def parse_check(R, L, alphabet, limit=3_000_000):
    """R: regex under test (prioritised).  L: unambiguous reference with the same group names.
    -> (witness or None, reason, product_states).  None means: for every word of L the backtracking parse of
    R assigns the same named-group spans as L."""
    if not L.anchored_end or not R.anchored_end:
        raise Unsupported("parse_check: both patterns must be end-anchored")
    R, L = _AnchoredView(R), _AnchoredView(L)
    # 1) a higher-priority accepting R-path with different named tags than the R-path following L
    start = ("init", "init", "init", 0, False)
    seen = {start}
    dq = deque([(start, "")])
    while dq:
        (l, a, b, mode, differ), w = dq.popleft()
        for ltags, lt in L.macro[l]:
            if lt != "ACC":
                continue
            for i, (atags, at) in enumerate(R.macro[a]):
                if at != "ACC" or _named(R, atags) != _named(L, ltags):
                    continue
                for j, (btags, bt) in enumerate(R.macro[b]):
                    if bt != "ACC":
                        continue
                    m2 = mode
                    if mode == 0:
                        if j < i:
                            m2 = 1
                        else:
                            continue
                    d2 = differ or _named(R, btags) != _named(R, atags)
                    if m2 == 1 and d2:
                        return w, "a higher-priority parse with different group spans exists", len(seen)
        for ch in alphabet:
            for ltags, lt in L.macro[l]:
                if lt == "ACC" or ch not in L.cs(lt):
                    continue
                nl = _named(L, ltags)
                for i, (atags, at) in enumerate(R.macro[a]):
                    if at == "ACC" or ch not in R.cs(at) or _named(R, atags) != nl:
                        continue
                    for j, (btags, bt) in enumerate(R.macro[b]):
                        if bt == "ACC":
                            continue
                        if ch not in R.cs(bt):
                            continue
                        if mode == 0:
                            if j > i:
                                continue
                            m2 = 1 if j < i else 0
                        else:
                            m2 = 1
                        d2 = differ or _named(R, btags) != _named(R, atags)
                        if m2 == 0 and d2:
                            continue
                        st = (lt, at, bt, m2, d2)
                        if st not in seen:
                            seen.add(st)
                            if len(seen) > limit:
                                raise Unsupported("parse_check: state limit")
                            dq.append((st, w + chr(ch)))
    # 2) every tagged word of L has an R-path with the same named tags
    start = ("init", frozenset(["init"]))
    seen2 = {start}
    dq = deque([(start, "")])
    while dq:
        (l, S), w = dq.popleft()
        for ltags, lt in L.macro[l]:
            nt = _named(L, ltags)
            if lt == "ACC":
                if not any(at == "ACC" and _named(R, atags) == nt for s in S for (atags, at) in R.macro[s]):
                    return w, "the reference parse has no corresponding path in the regex", len(seen) + len(seen2)
                continue
            for ch in alphabet:
                if ch not in L.cs(lt):
                    continue
                T = frozenset(at for s in S for (atags, at) in R.macro[s]
                              if at != "ACC" and ch in R.cs(at) and _named(R, atags) == nt)
                if not T:
                    return w + chr(ch), "the reference parse has no corresponding path in the regex", len(seen) + len(seen2)
                st = (lt, T)
                if st not in seen2:
                    seen2.add(st)
                    dq.append((st, w + chr(ch)))
    # 3) side condition: the R-path following L is unique
    start = ("init", "init", "init", 0)
    seen3 = {start}
    dq = deque([(start, "")])
    while dq:
        (l, a, b, mode), w = dq.popleft()
        for ltags, lt in L.macro[l]:
            nt = _named(L, ltags)
            A = [(i, at) for i, (atags, at) in enumerate(R.macro[a]) if _named(R, atags) == nt]
            B = [(j, bt) for j, (btags, bt) in enumerate(R.macro[b]) if _named(R, btags) == nt]
            if lt == "ACC":
                for i, at in A:
                    for j, bt in B:
                        if at == "ACC" and bt == "ACC" and (mode == 1 or i != j):
                            return w, "INCONCLUSIVE: two regex paths give the reference spans", \
                                len(seen) + len(seen2) + len(seen3)
                continue
            for ch in alphabet:
                if ch not in L.cs(lt):
                    continue
                for i, at in A:
                    if at == "ACC" or ch not in R.cs(at):
                        continue
                    for j, bt in B:
                        if bt == "ACC" or ch not in R.cs(bt):
                            continue
                        if mode == 0 and j < i:
                            continue
                        m2 = 1 if (mode == 1 or i != j) else 0
                        st = (lt, at, bt, m2)
                        if st not in seen3:
                            seen3.add(st)
                            dq.append((st, w + chr(ch)))
    return None, "ok", len(seen) + len(seen2) + len(seen3)


def self_unambiguous(L, alphabet):
    """an oracle grammar must itself be unambiguous"""
    w, why, n = parse_check(L, L, alphabet)
    return w is None, w, why
