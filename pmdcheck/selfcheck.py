# -*- coding: utf-8 -*-
"""setup-time self check: the package imports, engines answer textbook cases.  No access to /repo."""
from __future__ import annotations

import ast


def selfcheck():
    from . import rx, terms, walker, model, facts, core       # noqa: F401
    from .rules import REGISTRY
    U = rx.universe([r"^(a+)+$", r"^a*a*$", r"^a+$", r"^(?P<x>a*)(?P<y>a*)$", r"^(?P<x>a*?)(?P<y>a*)$"])
    alpha = [c for c in U if c != 10]
    assert rx.ambiguity(rx.PNFA(r"^(a+)+$", U))["eda"] is not None
    assert rx.ambiguity(rx.PNFA(r"^a*a*$", U))["degree"] == 1
    assert rx.ambiguity(rx.PNFA(r"^a+$", U))["degree"] == 0
    assert rx.equivalent(rx.PNFA(r"^a+$", U), rx.PNFA(r"^aa*$", U), alpha)[0]
    assert not rx.equivalent(rx.PNFA(r"^a+$", U), rx.PNFA(r"^a*$", U), alpha)[0]
    # prioritised parse: greedy first group takes everything, lazy takes nothing
    L = rx.PNFA(r"^(?P<x>a*)(?P<y>)$", U)
    assert rx.parse_check(rx.PNFA(r"^(?P<x>a*)(?P<y>a*)$", U), L, alpha)[0] is None
    assert rx.parse_check(rx.PNFA(r"^(?P<x>a*?)(?P<y>a*)$", U), L, alpha)[0] is not None
    fn = ast.parse("def f(self, d):\n    x = {}\n    if self.a:\n        x['k'] = self.a\n    d.append(x)\n").body[0]
    ex = terms.extract(fn)
    assert any(ev.kind == "store" and ev.guards for ev in ex.events)
    assert len(REGISTRY) == 20, sorted(REGISTRY)
    print("pmdcheck selfcheck ok: %d checks registered" % len(REGISTRY))
    return 0
