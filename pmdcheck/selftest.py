# -*- coding: utf-8 -*-
"""
E6 -- armedness self-test.  Each mutant is a small source edit (exact text anchor -> replacement) applied
to a scratch copy of /repo/productmd under $TMPDIR (never under /repo or /verif; removed afterwards).

 * kind 'fire'    : a realistic property-breaking edit; every listed property's check must exit 1
 * kind 'neutral' : a behaviour-preserving refactor; every check must stay silent (exit 0)

The outcome is evidence about the *checker*: an undetected mutant or a false alarm is reported as
ANALYSIS-ERROR (exit 2), never as a VIOLATION of the repository.  A mutant whose anchor has vanished from
the current tree is skipped with a note.

  python -m pmdcheck.selftest [--props C01,C02] [--kind fire|neutral] [--jobs 16] [--only id1,id2]
"""
from __future__ import annotations

import argparse
import io
import json
import os
import shutil
import sys
import tempfile
import time
from concurrent.futures import ProcessPoolExecutor
from contextlib import redirect_stdout


def _apply(src_root, dst_root, mutant):
    shutil.copytree(os.path.join(src_root, "productmd"), os.path.join(dst_root, "productmd"),
                    ignore=shutil.ignore_patterns("__pycache__"))
    if mutant.get("patch"):
        import subprocess
        p = subprocess.run(["patch", "-p1", "-s", "--no-backup-if-mismatch", "-i", mutant["patch"]], cwd=dst_root,
                           stdout=subprocess.PIPE, stderr=subprocess.STDOUT, text=True)
        if p.returncode != 0:
            return "seeded patch no longer applies: %s" % p.stdout.strip().splitlines()[-1:]
        for root, dirs, files in os.walk(os.path.join(dst_root, "productmd")):
            for fn in files:
                if fn.endswith(".py"):
                    fp = os.path.join(root, fn)
                    try:
                        compile(open(fp).read(), fp, "exec")
                    except SyntaxError as e:
                        return "seeded tree does not compile: %s" % e
        return None
    for (fname, old, new) in mutant["edits"]:
        p = os.path.join(dst_root, "productmd", fname)
        with open(p) as f:
            s = f.read()
        n = s.count(old)
        if n == 0:
            return "anchor vanished in %s: %r" % (fname, old[:60])
        if n > 1:
            return "anchor not unique in %s (%d matches): %r" % (fname, n, old[:60])
        s = s.replace(old, new)
        try:
            compile(s, p, "exec")
        except SyntaxError as e:
            return "mutant does not compile: %s" % e
        with open(p, "w") as f:
            f.write(s)
    return None


def run_mutant(args):
    mutant, repo, props = args
    from .__main__ import run_property
    tmp = tempfile.mkdtemp(prefix="pmd_selftest_")
    try:
        err = _apply(repo, tmp, mutant)
        if err:
            return {"id": mutant["id"], "skipped": err}
        res = {}
        outs = {}
        for pid in props:
            buf = io.StringIO()
            with redirect_stdout(buf):
                rc = run_property(pid, "quick", tmp, os.path.join(tmp, "evidence"), quiet=True)
            res[pid] = rc
            outs[pid] = [l for l in buf.getvalue().splitlines() if l.startswith(("FAILED", "ANALYSIS-ERROR"))][:4]
        return {"id": mutant["id"], "rc": res, "out": outs}
    finally:
        shutil.rmtree(tmp, ignore_errors=True)


def seeded_mutants():
    """the independently produced seeded changes stored under /verif/seeded/<id>/ (patch.diff + meta.json): each must be
    detected by the checks recorded in meta.json 'detected_by' when it was confirmed"""
    here = os.path.dirname(os.path.dirname(os.path.abspath(__file__)))
    sd = os.path.join(here, "seeded")
    out = []
    if not os.path.isdir(sd):
        return out
    for name in sorted(os.listdir(sd)):
        meta = os.path.join(sd, name, "meta.json")
        patch = os.path.join(sd, name, "patch.diff")
        if not (os.path.exists(meta) and os.path.exists(patch)):
            continue
        with open(meta) as f:
            m = json.load(f)
        props = m.get("detected_by") or []
        if not props:
            continue
        out.append({"id": "seed:" + name, "kind": "fire", "props": props, "what": m.get("summary", "")[:120],
                    "edits": [], "patch": patch})
    return out


def neutral_patches():
    """behaviour-preserving refactors written by independent sub-agents (stored under /verif/neutral/<id>/patch.diff with
    the author's note): every check must stay silent on each of them"""
    here = os.path.dirname(os.path.dirname(os.path.abspath(__file__)))
    nd = os.path.join(here, "neutral")
    out = []
    if not os.path.isdir(nd):
        return out
    for name in sorted(os.listdir(nd)):
        patch = os.path.join(nd, name, "patch.diff")
        if not os.path.exists(patch) or os.path.exists(os.path.join(nd, name, "NOT-NEUTRAL")) \
                or os.path.exists(os.path.join(nd, name, "KNOWN-FALSE-ALARM")):
            # (KNOWN-FALSE-ALARM: a recorded residual false alarm, listed in DESIGN.md 9.6 - not hidden, but not part of the
            # expectations the thorough tier enforces)
            continue
        out.append({"id": "neutral:" + name, "kind": "neutral", "props": [], "what": "independent refactor " + name,
                    "edits": [], "patch": patch})
    return out


def evolution_patches():
    """property-preserving *changes of behaviour* written by independent sub-agents who were given the twenty properties: small
    features, new table values, stricter checks, clean-ups (stored under /verif/evolution/<id>/patch.diff with the author's
    argument why every property still holds).  Every check must stay silent on each of them -- except those listed in a
    NOT-PRESERVING file next to the patch (the author's argument did not survive review; the file says why)"""
    here = os.path.dirname(os.path.dirname(os.path.abspath(__file__)))
    nd = os.path.join(here, "evolution")
    out = []
    if not os.path.isdir(nd):
        return out
    for name in sorted(os.listdir(nd)):
        patch = os.path.join(nd, name, "patch.diff")
        if not os.path.exists(patch) or os.path.exists(os.path.join(nd, name, "NOT-PRESERVING")):
            continue
        out.append({"id": "evolution:" + name, "kind": "neutral", "props": [], "what": "independent property-preserving change " + name,
                    "edits": [], "patch": patch})
    return out


def selftest(repo="/repo", props=None, kind=None, jobs=None, only=None, verbose=True):
    from .mutants import MUTANTS
    from .rules import REGISTRY
    allprops = sorted(REGISTRY)
    MUTANTS = list(MUTANTS) + seeded_mutants() + neutral_patches() + evolution_patches()
    tasks = []
    for m in MUTANTS:
        if only and m["id"] not in only:
            continue
        if kind and m["kind"] != kind:
            continue
        if m["kind"] == "fire":
            ps = [p for p in m["props"] if not props or p in props]
            if not ps:
                continue
        else:
            ps = [p for p in allprops if not props or p in props]
        tasks.append((m, repo, ps))
    jobs = jobs or min(16, os.cpu_count() or 4)
    t0 = time.time()
    results = []
    with ProcessPoolExecutor(max_workers=jobs) as ex:
        for r in ex.map(run_mutant, tasks):
            results.append(r)
    byid = dict((m["id"], m) for m in MUTANTS)
    missed, false_alarms, skipped, errors, ok = [], [], [], [], 0
    for r in results:
        m = byid[r["id"]]
        if "skipped" in r:
            skipped.append((r["id"], r["skipped"]))
            continue
        for pid, rc in sorted(r["rc"].items()):
            if m["kind"] == "fire":
                if rc == 1:
                    ok += 1
                elif rc == 2:
                    errors.append((r["id"], pid, r["out"][pid]))
                else:
                    missed.append((r["id"], pid, m["what"]))
            else:
                if rc == 0:
                    ok += 1
                elif rc == 2:
                    errors.append((r["id"], pid, r["out"][pid]))
                else:
                    false_alarms.append((r["id"], pid, r["out"][pid]))
    summary = {"mutants": len(tasks), "checks_ok": ok, "missed": missed, "false_alarms": false_alarms,
               "analysis_errors": errors, "skipped": skipped, "wall_s": round(time.time() - t0, 1)}
    if verbose:
        for x in missed:
            print("MISSED      %s by %s: %s" % x)
        for x in false_alarms:
            print("FALSE-ALARM %s on %s: %s" % x)
        for x in errors:
            print("ERROR       %s on %s: %s" % x)
        for x in skipped:
            print("SKIPPED     %s: %s" % x)
        print("selftest: %d mutants, %d expectations met, %d missed, %d false alarms, %d analysis errors, %d skipped (%.1fs)"
              % (len(tasks), ok, len(missed), len(false_alarms), len(errors), len(skipped), summary["wall_s"]))
    return summary


def main():
    ap = argparse.ArgumentParser()
    ap.add_argument("--repo", default="/repo")
    ap.add_argument("--props")
    ap.add_argument("--kind")
    ap.add_argument("--jobs", type=int)
    ap.add_argument("--only")
    a = ap.parse_args()
    s = selftest(a.repo, a.props.split(",") if a.props else None, a.kind, a.jobs, a.only.split(",") if a.only else None)
    return 0 if not (s["missed"] or s["false_alarms"] or s["analysis_errors"]) else 2


if __name__ == "__main__":
    sys.exit(main())
